#!/venv/bin/python
"""confirm each candidate seeded change in a scratch copy of /repo: (1) the pinned suite keeps exactly the baseline failures,
(2) the demonstration passes without the change and fails with it; then store it under /verif/seeded/<id>/"""
import concurrent.futures as cf
import json
import os
import re
import shutil
import subprocess
import sys
import tempfile

HERE = os.path.dirname(os.path.dirname(os.path.abspath(__file__)))
SEEDROOT = sys.argv[1] if len(sys.argv) > 1 else '/tmp/seedout'
BENIGN = '--benign' in sys.argv        # behaviour-preserving changes: the demonstration has to pass with and without the change
OUT = sys.argv[sys.argv.index('--out') + 1] if '--out' in sys.argv else os.path.join(HERE, 'tools', 'seed_verification.json')
PYTEST = ['/venv/bin/python', '-m', 'pytest', '-q', '-p', 'no:cacheprovider', '--timeout=900', '--continue-on-collection-errors', '-x', '--no-header', '-rf']


def failing(tree):
    p = subprocess.run(['/venv/bin/python', '-m', 'pytest', '-q', '-p', 'no:cacheprovider', '--timeout=900', '--continue-on-collection-errors', '--no-header',
                        '-rfE', '--no-cov'], cwd=tree, capture_output=True, text=True)
    out = p.stdout + p.stderr
    fails = sorted(set(re.findall(r'^(?:FAILED|ERROR) (\S+)', out, re.M)))
    summary = out.strip().splitlines()[-1] if out.strip() else ''
    return fails, summary


def run_demo(tree, demo):
    env = dict(os.environ, PYTHONPATH=os.path.join(tree, 'src'), PYTHONDONTWRITEBYTECODE='1')
    try:
        p = subprocess.run(['/venv/bin/python', demo], cwd=os.path.dirname(demo), capture_output=True, text=True, env=env, timeout=900)
        return p.returncode, (p.stdout + p.stderr)[-400:]
    except subprocess.TimeoutExpired:
        return -9, 'timeout'


def one(args):
    sid, d, baseline = args
    base = '/dev/shm' if os.path.isdir('/dev/shm') else tempfile.gettempdir()
    t = tempfile.mkdtemp(prefix='twseed-', dir=base)
    try:
        tree = os.path.join(t, 'repo')
        shutil.copytree('/repo', tree, ignore=shutil.ignore_patterns('.git', 'htmlcov', '__pycache__', '.coverage'))
        demo = os.path.join(t, 'demo.py')
        shutil.copy(os.path.join(d, 'demo.py'), demo)
        rc_clean, out_clean = run_demo(tree, demo)
        p = subprocess.run(['patch', '-p1', '-s', '-i', os.path.join(d, 'patch.diff')], cwd=tree, capture_output=True, text=True)
        if p.returncode != 0:
            return sid, {'ok': False, 'why': 'patch does not apply: ' + p.stdout[-200:]}
        imp = subprocess.run(['/venv/bin/python', '-c', 'import traffic_weaver'], env=dict(os.environ, PYTHONPATH=os.path.join(tree, 'src')), capture_output=True, text=True)
        fails, summary = failing(tree)
        rc_mut, out_mut = run_demo(tree, demo)
        ok = imp.returncode == 0 and fails == baseline and rc_clean == 0 and ((rc_mut == 0) if BENIGN else (rc_mut not in (0, -9)))
        return sid, {'ok': ok, 'imports': imp.returncode == 0, 'suite_same_as_baseline': fails == baseline, 'suite_summary': summary,
                     'new_failures': sorted(set(fails) - set(baseline)), 'demo_clean_rc': rc_clean, 'demo_changed_rc': rc_mut, 'demo_changed_tail': out_mut[-300:]}
    finally:
        shutil.rmtree(t, ignore_errors=True)


def main():
    t = tempfile.mkdtemp(prefix='twbase-', dir='/dev/shm')
    tree = os.path.join(t, 'repo')
    shutil.copytree('/repo', tree, ignore=shutil.ignore_patterns('.git', 'htmlcov', '__pycache__', '.coverage'))
    baseline, summary = failing(tree)
    shutil.rmtree(t, ignore_errors=True)
    print('baseline failures:', len(baseline), summary)
    work = []
    for pid in sorted(os.listdir(SEEDROOT)):
        for m in sorted(os.listdir(os.path.join(SEEDROOT, pid))) if os.path.isdir(os.path.join(SEEDROOT, pid)) else []:
            d = os.path.join(SEEDROOT, pid, m)
            if os.path.exists(os.path.join(d, 'patch.diff')) and os.path.exists(os.path.join(d, 'demo.py')):
                work.append((f"{pid}-{m}", d, baseline))
    res = {}
    with cf.ProcessPoolExecutor(12) as ex:
        for sid, r in ex.map(one, work):
            res[sid] = r
            print(sid, 'OK' if r['ok'] else 'REJECT', {k: v for k, v in r.items() if k not in ('demo_changed_tail',)})
    json.dump({'baseline': baseline, 'results': res}, open(OUT, 'w'), indent=1)


if __name__ == '__main__':
    main()
