#!/venv/bin/python
"""refresh detected_by / analysis_error_in / own_property_check in /verif/seeded/*/meta.json (or checks_not_silent in /verif/benign) from matrix results
usage: update_detected.py <matrix.json>... [--benign]"""
import json
import os
import sys
HERE = os.path.dirname(os.path.dirname(os.path.abspath(__file__)))
benign = '--benign' in sys.argv
root = os.path.join(HERE, 'benign' if benign else 'seeded')
n = 0
for mf in [a for a in sys.argv[1:] if not a.startswith('--')]:
    mat = json.load(open(mf))
    for key, row in mat.items():
        if 'error' in row:
            continue
        pid, m = key.split('/')
        mp = os.path.join(root, f"{pid}-{m}", 'meta.json')
        if not os.path.exists(mp):
            continue
        meta = json.load(open(mp))
        verdicts = {p: {0: 'silent', 1: 'VIOLATION', 2: 'ANALYSIS-ERROR'}.get(rc, str(rc)) for p, (rc, _) in row.items()}
        if benign:
            meta['checks_not_silent'] = {p: s for p, s in verdicts.items() if s != 'silent'}
        else:
            meta['detected_by'] = {p: s for p, s in verdicts.items() if s == 'VIOLATION'}
            meta['analysis_error_in'] = sorted(p for p, s in verdicts.items() if s == 'ANALYSIS-ERROR')
            meta['own_property_check'] = verdicts.get(pid, 'not run')
        json.dump(meta, open(mp, 'w'), indent=1)
        n += 1
print('updated', n)
