#!/venv/bin/python
"""store confirmed seeded changes / behaviour-preserving changes under /verif/seeded/<id>/ or /verif/benign/<id>/ with a meta.json built from
my own confirmation run (verify_seeds.py) and the detection matrix (matrix.py)

usage: store_seeds.py <seed-root> <verification.json> <matrix.json> [--benign]"""
import json
import os
import re
import shutil
import sys

HERE = os.path.dirname(os.path.dirname(os.path.abspath(__file__)))
root, verf, matf = sys.argv[1:4]
benign = '--benign' in sys.argv
ver = json.load(open(verf))['results']
mat = json.load(open(matf))
props = {json.loads(l)['id']: json.loads(l) for l in open(os.path.join(HERE, 'properties.jsonl'))}
dest_root = os.path.join(HERE, 'benign' if benign else 'seeded')
os.makedirs(dest_root, exist_ok=True)
n = 0
for pid in sorted(os.listdir(root)):
    pd = os.path.join(root, pid)
    if not os.path.isdir(pd):
        continue
    for m in sorted(os.listdir(pd)):
        d = os.path.join(pd, m)
        if not os.path.exists(os.path.join(d, 'patch.diff')):
            continue
        sid = f"{pid}-{m}"
        v = ver.get(sid)
        if not v or not v.get('ok'):
            print('skip (not confirmed):', sid)
            continue
        row = mat.get(f"{pid}/{m}", {})
        dest = os.path.join(dest_root, sid)
        os.makedirs(dest, exist_ok=True)
        for f in ('patch.diff', 'demo.py', 'notes.md'):
            if os.path.exists(os.path.join(d, f)):
                shutil.copy(os.path.join(d, f), os.path.join(dest, f))
        notes = open(os.path.join(d, 'notes.md')).read() if os.path.exists(os.path.join(d, 'notes.md')) else ''
        files = sorted(set(re.findall(r'^\+\+\+ b/(\S+)', open(os.path.join(d, 'patch.diff')).read(), re.M)))
        meta = {
            'id': sid,
            ('refactors_around_property' if benign else 'breaks_property'): pid,
            'property_title': props[pid]['title'],
            'origin': 'independent sub-agent given only the property text and a scratch worktree',
            'files_touched': files,
            'summary': notes.strip().splitlines()[0][:300] if notes.strip() else '',
            'verified_by_me': {
                'scratch': 'copy of /repo at the fix commits (HEAD) under /dev/shm, removed afterwards',
                'suite': v.get('suite_summary', '') + (' (failing set identical to the unchanged tree)' if v.get('suite_same_as_baseline') else ''),
                'demo_without_change_rc': v.get('demo_clean_rc'),
                'demo_with_change_rc': v.get('demo_changed_rc'),
                'command': 'PYTHONPATH=<tree>/src /venv/bin/python demo.py',
            },
        }
        verdicts = {p: {0: 'silent', 1: 'VIOLATION', 2: 'ANALYSIS-ERROR'}.get(rc, str(rc)) for p, (rc, _) in row.items()} if row else {}
        if benign:
            meta['checks_not_silent'] = {p: s for p, s in verdicts.items() if s != 'silent'}
            meta['expected'] = 'every check stays silent (exit 0); an ANALYSIS-ERROR (exit 2) is tolerated and listed, a VIOLATION is a false alarm'
        else:
            meta['detected_by'] = {p: s for p, s in verdicts.items() if s == 'VIOLATION'}
            meta['analysis_error_in'] = sorted(p for p, s in verdicts.items() if s == 'ANALYSIS-ERROR')
            meta['own_property_check'] = verdicts.get(pid, 'not run')
        json.dump(meta, open(os.path.join(dest, 'meta.json'), 'w'), indent=1)
        n += 1
print('stored', n, 'under', dest_root)
