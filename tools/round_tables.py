#!/venv/bin/python
"""markdown tables for DESIGN.md from the stored corpora: round_tables.py seeds m14 m15 | benign r13 r14"""
import json
import os
import sys

HERE = os.path.dirname(os.path.dirname(os.path.abspath(__file__)))
kind, tags = sys.argv[1], sys.argv[2:]
root = os.path.join(HERE, 'seeded' if kind == 'seeds' else 'benign')
rows = []
for d in sorted(os.listdir(root), key=lambda s: (s.split('-')[0], int(s.split('-')[1][1:]))):
    if d.split('-')[1] not in tags:
        continue
    m = json.load(open(os.path.join(root, d, 'meta.json')))
    summ = m['summary'].lstrip('# ').replace('|', '/').replace('\n', ' ')[:110]
    if kind == 'seeds':
        det = m.get('detected_by', {})
        viol = ', '.join(sorted(p for p, v in det.items() if v == 'VIOLATION'))
        err = ', '.join(sorted(m.get('analysis_error_in', [])))
        own = 'yes' if m.get('own_property_check') == 'VIOLATION' else 'no'
        rows.append(f"| {d} | {summ} | {viol} | {err} | {own} |")
    else:
        ns = m.get('checks_not_silent', {})
        if ns:
            rows.append(f"| {d} | {', '.join(sorted(ns))} | {summ} |")
if kind == 'seeds':
    print('| seed | change (first line of its notes) | VIOLATION from | exit 2 in | own property fires |\n|---|---|---|---|---|')
else:
    print('| patch | exit 2 in | what the refactoring does |\n|---|---|---|')
print('\n'.join(rows))
