#!/bin/bash
# usage: try_patch.sh <patch.diff> <PID...>   -- run checks against a scratch copy of /repo with the patch applied
set -u
P=$1; shift
D=$(mktemp -d /dev/shm/twv.XXXXXX)
trap 'rm -rf "$D"' EXIT
mkdir -p $D/repo && cp -r /repo/src /repo/pyproject.toml $D/repo/ 2>/dev/null
( cd $D/repo && patch -p1 -s < "$P" ) || { echo "PATCH FAILED"; exit 3; }
for pid in "$@"; do
  /venv/bin/python /verif/check.py $pid --root $D/repo --no-evidence > $D/out.$pid 2>&1
  rc=$?
  echo "== $pid rc=$rc : $(grep -c '^VIOLATION' $D/out.$pid) violations; $(grep -m1 -E '^--- ' $D/out.$pid | cut -c1-200)"
  if [ "${VERBOSE:-0}" = 1 ]; then cat $D/out.$pid | cut -c1-400; fi
  if [ $rc = 2 ]; then grep -m3 ANALYSIS-ERROR $D/out.$pid | cut -c1-400; fi
done
