#!/venv/bin/python
"""run every check against every seeded change (scratch copies; /repo itself is never touched)

usage: matrix.py <seed-root> [--jobs N]   where <seed-root>/<PID>/<mK>/patch.diff
"""
import concurrent.futures as cf
import json
import os
import shutil
import subprocess
import sys
import tempfile

HERE = os.path.dirname(os.path.dirname(os.path.abspath(__file__)))
PIDS = [f"C{n:02d}" for n in range(1, 21)]


def one(args):
    seed, patch = args
    base = '/dev/shm' if os.path.isdir('/dev/shm') else tempfile.gettempdir()
    d = tempfile.mkdtemp(prefix='twmx-', dir=base)
    try:
        r = os.path.join(d, 'repo')
        os.makedirs(r)
        shutil.copytree('/repo/src', os.path.join(r, 'src'))
        shutil.copy('/repo/pyproject.toml', r)
        p = subprocess.run(['patch', '-p1', '-s', '-i', patch], cwd=r, capture_output=True, text=True)
        if p.returncode != 0:
            return seed, {'error': 'patch failed: ' + p.stdout[-200:]}
        out = {}
        for pid in PIDS:
            q = subprocess.run(['/venv/bin/python', os.path.join(HERE, 'check.py'), pid, '--root', r, '--no-evidence'], capture_output=True, text=True)
            first = ''
            for line in q.stdout.splitlines():
                if line.startswith('--- '):
                    first = line[4:160]
                    break
                if line.startswith('ANALYSIS-ERROR') and not first:
                    first = line[:160]
            out[pid] = (q.returncode, first)
        return seed, out
    finally:
        shutil.rmtree(d, ignore_errors=True)


def main():
    global HERE
    root = sys.argv[1]
    # run from a snapshot of the checker, so that editing /verif while a matrix runs cannot produce transient errors
    base = '/dev/shm' if os.path.isdir('/dev/shm') else tempfile.gettempdir()
    snap = tempfile.mkdtemp(prefix='twsnap-', dir=base)
    real = HERE
    shutil.copy(os.path.join(real, 'check.py'), snap)
    shutil.copytree(os.path.join(real, 'twverif'), os.path.join(snap, 'twverif'), ignore=shutil.ignore_patterns('__pycache__'))
    for extra in ('known_findings.json', 'properties.jsonl'):
        if os.path.exists(os.path.join(real, extra)):
            shutil.copy(os.path.join(real, extra), snap)
    HERE = snap
    try:
        _main(root, real)
    finally:
        shutil.rmtree(snap, ignore_errors=True)


def _main(root, real):
    jobs = int(sys.argv[sys.argv.index('--jobs') + 1]) if '--jobs' in sys.argv else 16
    work = []
    for pid in sorted(os.listdir(root)):
        pd = os.path.join(root, pid)
        if not os.path.isdir(pd):
            continue
        for m in sorted(os.listdir(pd)):
            pf = os.path.join(pd, m, 'patch.diff')
            if os.path.exists(pf):
                work.append((f"{pid}/{m}", pf))
    res = {}
    with cf.ProcessPoolExecutor(jobs) as ex:
        for seed, out in ex.map(one, work):
            res[seed] = out
    print('seed      own  ' + ' '.join(p[1:] for p in PIDS))
    for seed in sorted(res):
        out = res[seed]
        if 'error' in out:
            print(seed, out['error'])
            continue
        own = seed.split('/')[0]
        row = ' '.join({0: ' .', 1: ' X', 2: ' ?'}.get(out[p][0], ' !') for p in PIDS)
        print(f"{seed:9s} {'HIT ' if out[own][0] == 1 else ('ERR ' if out[own][0] == 2 else 'miss')} {row}")
    json.dump(res, open(os.path.join(real, 'tools', 'matrix_last.json'), 'w'), indent=1)


if __name__ == '__main__':
    main()
