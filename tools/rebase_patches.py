#!/venv/bin/python
"""re-base corpus patches that were written against the tree before a later "fix:" commit of /repo and no longer apply.

usage: rebase_patches.py <base-commit> <patch-dir>...
Each patch is applied to the tree of <base-commit>, the fix is carried into the result by the textual rule below (the one construct the fix
39275fc changed: a signal squared in its own element type), and the patch is re-written as the difference to the current /repo tree.  The
original is kept as patch.orig.diff."""
import os
import re
import shutil
import subprocess
import sys
import tempfile

base = sys.argv[1]
dirs = sys.argv[2:]
PROMOTE = r"(\1.astype(np.float64) if \1.dtype.kind in 'iub' else \1)"
RULES = [
    (re.compile(r"np\.mean\(((?:self\.)?\w+)\s*\*\*\s*2\)"), "np.mean(" + PROMOTE + " ** 2)"),
    (re.compile(r"np\.square\(((?:self\.)?\w+)\)\.mean\(\)"), "np.square(" + PROMOTE + ").mean()"),
    (re.compile(r"(?<=sp = )(a)\*\*2(?=  # signal power for each sample)"), PROMOTE + " ** 2"),
]
for d in dirs:
    pf = os.path.join(d, 'patch.diff')
    t = tempfile.mkdtemp(prefix='twrb-', dir='/dev/shm')
    try:
        old, new = os.path.join(t, 'old'), os.path.join(t, 'new')
        os.makedirs(old)
        subprocess.run(f"git -C /repo archive {base} src | tar -x -C {old}", shell=True, check=True)
        p = subprocess.run(['patch', '-p1', '-s', '-i', os.path.abspath(pf)], cwd=old, capture_output=True, text=True)
        if p.returncode != 0:
            print('cannot apply to base:', d, p.stdout[-200:])
            continue
        f = os.path.join(old, 'src/traffic_weaver/process.py')
        s = open(f).read()
        n_total = 0
        for rx, rep in RULES:
            s, n = rx.subn(rep, s)
            n_total += n
        open(f, 'w').write(s)
        os.makedirs(new)
        subprocess.run(f"git -C /repo archive HEAD src | tar -x -C {new}", shell=True, check=True)
        # diff HEAD -> transformed, as a git patch with the usual a/ b/ prefixes
        subprocess.run('git init -q && git add -A && git -c user.name=x -c user.email=x@x commit -q -m base', shell=True, cwd=new, check=True)
        subprocess.run(f"rm -rf {new}/src && cp -r {old}/src {new}/src", shell=True, check=True)
        subprocess.run('git add -A', shell=True, cwd=new, check=True)
        q = subprocess.run(['git', 'diff', '--cached'], cwd=new, capture_output=True, text=True)
        out = [q.stdout]
        if not os.path.exists(os.path.join(d, 'patch.orig.diff')):
            shutil.copy(pf, os.path.join(d, 'patch.orig.diff'))
        open(pf, 'w').write(''.join(out))
        print('rebased', d, 'power expressions promoted:', n_total)
    finally:
        shutil.rmtree(t, ignore_errors=True)
