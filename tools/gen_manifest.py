#!/venv/bin/python
"""regenerate MANIFEST.json from the rule modules that exist (keeps it valid at all times)"""
import json
import os

HERE = os.path.dirname(os.path.dirname(os.path.abspath(__file__)))

TEXT = {
    'C01': ('value numbering + algebraic identity (solver line inverts the integration rule), API oracle, wiring equivalence',
            'Static analysis of match.py / sorted_array_utils.py: decides, for all real inputs at once, that the kernel\'s scale factor inverts '
            'the repository\'s own integration rule (Sum(E_R(x, y+y_hat*w)) == target as a rational-function identity, both rules), that the '
            'weights vanish at window ends, the window/integral index convention, the fixed-point wiring of the three modes, table agreement of '
            'rule names and that every library reference exists and binds. Not decided: floating-point closeness, the neighbour search (C10), '
            'preconditions on fixed points.'),
    'C03': ('value numbering: displacement/weight quotient is index-free; end-point substitution; frame of in-place stores',
            'Decides over the reals that the kernel displacement is one scalar times the documented weight 1-(2|x-c|/d)^alpha, is zero at both '
            'window ends, vanishes when the target equals the current integral, and that the only in-place writes are per-window slice stores '
            'into a fresh float copy. Not decided: numerical idempotence to rounding; smoothing.'),
    'C06': ('value numbering against documented closed forms; index/stencil analysis of the strategy loop nests',
            'Decides for all real arguments and symbolic exponent that the five shape functions equal their closed forms and hit both end points; '
            'that every in-place store of the four window strategies is the documented piece over its sample range (border geometry included), '
            'that exp/beta/a/adaptive_smooth are forwarded, and that the adaptive split table equals the documented formula (adaptive_smooth=1). '
            'Not decided: int() truncation effects, floating point.'),
}
DEFAULT_NOTE = ('Trusted: CPython ast parses what the interpreter runs; written table of NumPy/SciPy semantics (twverif/symeval.py handlers); '
                'field axioms over the reals (no floating-point model); preconditions stated by the property are assumed.')


def main():
    props = [json.loads(l) for l in open(os.path.join(HERE, 'properties.jsonl'))]
    checks, na = [], []
    reasons = {}
    rp = os.path.join(HERE, 'tools', 'not_applicable.json')
    if os.path.exists(rp):
        reasons = json.load(open(rp))
    for p in props:
        pid = p['id']
        mod = os.path.join(HERE, 'twverif', 'rules', pid.lower() + '.py')
        if os.path.exists(mod) and pid not in reasons:
            tech, text = TEXT.get(pid, ('static analysis (AST / value numbering / dataflow rules specific to this repository)',
                                        'see DESIGN.md section for this property'))
            checks.append({
                'property_id': pid,
                'quick_cmd': f"/venv/bin/python check.py {pid} --tier quick",
                'thorough_cmd': f"/venv/bin/python check.py {pid} --tier thorough",
                'evidence_file': f"/verif/evidence/{pid}.json",
                'replay_cmd_template': f"/venv/bin/python check.py {pid} --replay {{path}}",
                'engine': 'twverif',
                'level_claimed': {'category': 'other', 'text': text, 'design_ref': f"DESIGN.md section 4.{int(pid[1:])}"},
                'level_note': DEFAULT_NOTE,
                'technique': 'static analysis: ' + tech,
            })
        else:
            na.append({'property_id': pid, 'reason': reasons.get(pid, 'check not built yet (work in progress; DESIGN.md section 7)')})
    m = {
        'version': 1,
        'setup_cmd': '/venv/bin/python -m compileall -q twverif check.py',
        'hooks': {'guard': 'W4K2_TRAFFIC_WEAVER_VERIF',
                  'enable': 'none needed: static analysis reads /repo\'s working tree; there is no instrumentation',
                  'baseline_off_cmd': 'cd /repo && /venv/bin/python -m pytest -ra -q -p no:cacheprovider --timeout=900 --continue-on-collection-errors',
                  'source_commits': [], 'add_only': True},
        'engines': [{'name': 'twverif', 'path': '/verif/twverif', 'serves_properties': [c['property_id'] for c in checks],
                     'kind_free_text': 'repository-specific static analyser: program model + resolver, value-numbering evaluator with a '
                                       'rational-function canonicaliser, guarded-event (effect) summaries, API oracle, table analyses'}],
        'checks': checks,
        'not_applicable': na,
        'notes': 'All checks are static: they parse /repo/src on every run and never execute repository code. exit 2 = ANALYSIS-ERROR '
                 '(construct not recognised). Nine genuine defects were repaired with fix: commits (known_findings.json).',
    }
    with open(os.path.join(HERE, 'MANIFEST.json'), 'w') as f:
        json.dump(m, f, indent=1)
    print(f"MANIFEST: {len(checks)} checks, {len(na)} not applicable/pending")


if __name__ == '__main__':
    main()
