#!/venv/bin/python
"""regenerate MANIFEST.json from the rule modules that exist (keeps it valid at all times)"""
import json
import os

HERE = os.path.dirname(os.path.dirname(os.path.abspath(__file__)))

TEXT = {
    'C01': ('value numbering + algebraic identity (the solver line inverts the integration rule), library API oracle, wiring equivalence, scan decision tables, element-type shadow',
            'Decides, for all real inputs at once, that the kernel\'s scale factor inverts the repository\'s own integration rule (Sum(E_R(x, y+y_hat*w)) == target as a '
            'rational-function identity, both rules), that the weights vanish at window ends, the window/integral index convention, the fixed-point wiring of the three modes, '
            'table agreement of rule names, that every library reference exists and binds, that the working copy is float (DT rule) and the strictness table of the neighbour '
            'scans. Not decided: floating-point closeness, full correctness of the scans, preconditions on fixed points.'),
    'C02': ('composition of C04/C05/C17/C01 obligations along the recreate -> match call path (value numbering, wiring of the Weaver pipeline)',
            'Decides the structural chain behind "averages are reproduced": the reference handed to integral_match is the piecewise-constant oversampling of the original on the '
            'n-fold grid (documented constructions of the helpers, C17), recreate stores the strategy result, match receives reference and working series in their slots with the '
            'documented rules, and the matching identity of C01 holds. Not decided: the numeric equality of interval means (follows over the reals from the identities; floating point not modelled).'),
    'C03': ('value numbering: displacement/weight quotient is index-free; end-point substitution; frame of in-place stores; dispatcher table; element-type shadow',
            'Decides over the reals that the kernel displacement is one scalar times the documented weight 1-(2|x-c|/d)^alpha, is zero at both window ends, vanishes when the target '
            'equals the current integral, that the only in-place writes are per-window slice stores into a fresh float copy, and that the strategy name selects the documented '
            'neighbour search. Not decided: numerical idempotence to rounding; smoothing.'),
    'C04': ('symbolic shape / kind inference of every strategy result, documented helper constructions (value numbering), guard analysis of n < 2',
            'Decides that every strategy returns two float ndarrays of extent (m-1)*n+1 on the grid oversample_linspace(x, n) (every n-th point an original by construction of '
            'linspace, compared as uninterpreted terms), that FunctionRFA samples on that grid, and that n < 2 raises ValueError in the shared constructor. Not decided: finiteness of values (numeric).'),
    'C05': ('index/stencil analysis of the strategy loop nests (ranges tile, plateau never written), value numbering of border values and constants, tie-scenario case analysis',
            'Decides that the result starts as the piecewise-constant oversampling, that every in-place store hits sample i of interval k inside its left / right window with ranges '
            'that tile, that border values are shared between neighbouring intervals, that constants are reproduced (unit weight sum), the window-size formulas, the forwarding of a to the '
            'adaptive split, and - one scenario at a time - that in every tie case each store has an empty range or the documented value. Not decided: the inequalities (never overshoot, monotone).'),
    'C06': ('value numbering against documented closed forms; index/stencil analysis; case specialisation of the window tables; tie-scenario case analysis',
            'Decides for all real arguments and symbolic exponent that the five shape functions equal their closed forms and hit both end points; that every in-place store of the four '
            'window strategies is the documented piece over its sample range (border geometry included, unconditional per interval), that exp/beta/a/adaptive_smooth are forwarded with the '
            'documented formulas, that the adaptive split table equals the documented formula in each of its four cases, and the tie scenarios. Not decided: int() truncation effects, floating point.'),
    'C07': ('invariance by homogeneity + vanishing total derivative on canonical forms; stencil offsets; case enumeration of the adaptive split; literal-options rule for the spline',
            'Decides that every stored sample is affine in the averages with data-free coefficients and invariant under an affine map of the abscissae, that interval k reads offsets -1..1 '
            'only, that the adaptive windows are unit-free in every branch case, that the grid helpers are affine-equivariant, and that the cubic-spline scheme is fixed independently of the data. '
            'Not decided: non-negativity of weights, exact float equality of the two sides.'),
    'C08': ('per-method symbolic summaries + induction over histories; renaming of field references (paired-update rule); frame rule; alias classes; None-default variants; element-type shadow',
            'Decides that the constructor establishes working == reference == original copies, that each of the ten domain operations applies to the reference exactly the transformation it '
            'applies to the working series (same callee, same arguments, same guard; every default-resolution path), that no other method writes the reference, and that no in-place write '
            'reaches it. History quantifier discharged by induction. Not decided: that each transformation is the documented one (C11, C12, C14, C17).'),
    'C09': ('flow-sensitive alias / freshness analysis with literal-specialised summaries; container-kind and symbolic-length inference of every field store; restore frame; element-type shadow',
            'Decides that no Weaver field aliases caller arrays or the stored original, that every store into a series field is a 1-D float ndarray whose x/y extents agree on every path '
            '(callee returns specialised per dispatch literal, unknown names included), that restore_original resets working, reference and scales from copies of the original, and the DT rule '
            '(no grid forced into a borrowed integer dtype). Not decided: finiteness, strict monotonicity of x as a numeric fact.'),
    'C10': ('semantic model of the two-pointer scans from evaluated loop summaries; finite decision tables over the orderings of compared values; dispatcher by literal specialisation',
            'Decides the dispatcher table, that element values are used only in comparisons, and the strictness / tie / fill / exhaustion table of the three scans (conditions and stored indices '
            'compared with the documented ones under every ordering; value and counter advance together; sentinel tested by identity; one slot per query). Not decided: that a scan with the right '
            'table is correct for every input (loop invariants).'),
    'C11': ('value numbering of slice bounds against the documented lookups (idiom-tolerant), guard analysis, wiring of the Weaver wrappers',
            'Decides that truncate returns x[l:r], y[l:r] with l / r the lower / higher neighbour of the (ratio-converted) bounds, that the Weaver wrappers forward bounds and flags in their slots '
            'to working and reference alike, that slicing by index is the Python slice, and that slice_by_value looks its bounds up by exact equality (0 is a value, not "omitted"). Not decided: the neighbour search itself (C10).'),
    'C12': ('offset stencil of the in-place loop modulo its frame; extents; purity; wiring; element-type shadow',
            'Decides that repeat returns tile(y, r) untouched and tile(x, r) with copy i shifted by (end of previous copy - start) + last step read from the array being built, each copy once, '
            'on every path; extents r*len; inputs not written; float working buffer; Weaver.repeat applies it to working and reference. Not decided: the accumulated closed form and strict monotonicity (induction over in-place updates).'),
    'C13': ('dispatch by literal specialisation; value numbering of the piecewise-constant construction; grid construction of Weaver.interpolate; element-type shadow',
            'Decides which library interpolant each method name reaches with (x, y, new_x) in their slots, the lower-neighbour construction of the constant method (left fill included), that '
            'interpolate(n) builds linspace(x[0], x[-1], n) on the current series, end-point guards, and the DT rule (result buffer float). Not decided: NumPy / SciPy numerics.'),
    'C14': ('value numbering of pointwise maps; loop coverage; paired updates; element-type shadow',
            'Decides that shift / scale / normalise store the documented pointwise expressions (working and reference), that trend adds fun(x_i) or fun(x_i/(x_last-x_first)) to every sample once '
            'on a private float copy, linear_trend delegates with a*t, and the DT rule (no cast back to a borrowed dtype). Not decided: order preservation of normalise, additivity as a numeric law.'),
    'C15': ('value numbering of the scale formula; argument binding of the random draw; purity / aliasing; element-type shadow',
            'Decides that the noise scale is sqrt(mean(a^2)/SNR) with SNR = 10^(snr/10) for decibels and snr itself otherwise (or the explicit std), that exactly one normal draw of the signal\'s '
            'extent is added to a fresh array, the caller\'s array is not written, and Weaver.noise forwards its arguments. Not decided: the statistical clause.'),
    'C16': ('argument binding of splrep / BSpline; default-s formula by value numbering; wiring and frame of the Weaver methods; element-type shadow',
            'Decides that spline_smooth fits splrep(x, y, s=s) with the documented default for s=None and returns BSpline of exactly that fit, that Weaver.smooth stores its values at self.x only, '
            'to_function(s=0) returns the fit of the current series untouched, and the DT rule (y not cast to x\'s dtype). Not decided: everything FITPACK computes.'),
    'C17': ('congruence of code and documented construction as uninterpreted library terms with normalised arguments (idiom gate), index arithmetic of the interval view',
            'Decides that the oversampling / extension / append helpers, the interval view (flat index, padding, closed intervals, counts) and the integration rules are the documented constructions, '
            'that average is nanmean over the interval view with each block\'s first abscissa, and that flags are used as truth values. Not decided: NumPy semantics themselves (trusted, compared as terms).'),
    'C18': ('complete enumeration of finite tables (description tables x spelling variants x lookup namespace x loader descriptors x shipped CSV files x package-data globs)',
            'Decides for every documented name and its -/_ variants that load_dataset computes an attribute bound to a loader accepting the unpack flag, that every remote descriptor is literal with '
            'pairwise distinct url / checksum / cache slot, that every bundled CSV exists, is shipped and parses as two finite columns with increasing abscissa, the data-home rule, and that unknown names '
            'reach only ValueError. Exhaustive over the shipped tables. Not decided: the content of remote files.'),
    'C19': ('effect ordering / typestate on the evaluated download path (who writes the cache slot, publish by rename after verified parse and closed dump), retry loop read off the evaluated path, enumeration of the download condition',
            'Decides that the cache slot is written only by one rename of a completely written, closed file derived from checksum-verified bytes inside a temporary directory on the same file system, '
            'the order download -> verify -> parse -> dump -> close -> publish, checksum always on, the retry discipline (n_retries failures absorbed, the next propagates), the 8-row download table '
            'and pairwise distinct slots. Not decided: crash points and schedules themselves (covered by the structural argument whose premises these are).'),
    'C20': ('guard table by evaluation; dispatch by literal specialisation including near-miss names; check-before-commit ordering of raises and field stores',
            'Decides that each invalid-request class has a guard on the stated operands whose failing branch raises ValueError, that every name dispatch ends in ValueError for unknown and near-miss '
            'names, and that in every field-writing Weaver method no raise or raising callee is reachable after the first store. Not decided: exceptions raised inside NumPy / SciPy.'),
}
DEFAULT_NOTE = ('Trusted: CPython ast parses what the interpreter runs; written table of NumPy/SciPy semantics (twverif/symeval.py handlers); '
                'field axioms over the reals (no floating-point model); preconditions stated by the property are assumed.')


def main():
    props = [json.loads(l) for l in open(os.path.join(HERE, 'properties.jsonl'))]
    checks, na = [], []
    reasons = {}
    rp = os.path.join(HERE, 'tools', 'not_applicable.json')
    if os.path.exists(rp):
        reasons = json.load(open(rp))
    for p in props:
        pid = p['id']
        mod = os.path.join(HERE, 'twverif', 'rules', pid.lower() + '.py')
        if os.path.exists(mod) and pid not in reasons:
            tech, text = TEXT.get(pid, ('static analysis (AST / value numbering / dataflow rules specific to this repository)',
                                        'see DESIGN.md section for this property'))
            checks.append({
                'property_id': pid,
                'quick_cmd': f"/venv/bin/python check.py {pid} --tier quick",
                'thorough_cmd': f"/venv/bin/python check.py {pid} --tier thorough",
                'evidence_file': f"/verif/evidence/{pid}.json",
                'replay_cmd_template': f"/venv/bin/python check.py {pid} --replay {{path}}",
                'engine': 'twverif',
                'level_claimed': {'category': 'other', 'text': text, 'design_ref': f"DESIGN.md section 4.{int(pid[1:])}"},
                'level_note': DEFAULT_NOTE,
                'technique': 'static analysis: ' + tech,
            })
        else:
            na.append({'property_id': pid, 'reason': reasons.get(pid, 'check not built yet (work in progress; DESIGN.md section 7)')})
    m = {
        'version': 1,
        'setup_cmd': '/venv/bin/python -m compileall -q twverif check.py',
        'hooks': {'guard': 'W4K2_TRAFFIC_WEAVER_VERIF',
                  'enable': 'none needed: static analysis reads /repo\'s working tree; there is no instrumentation',
                  'baseline_off_cmd': 'cd /repo && /venv/bin/python -m pytest -ra -q -p no:cacheprovider --timeout=900 --continue-on-collection-errors',
                  'source_commits': [], 'add_only': True},
        'engines': [{'name': 'twverif', 'path': '/verif/twverif', 'serves_properties': [c['property_id'] for c in checks],
                     'kind_free_text': 'repository-specific static analyser: program model + resolver, value-numbering evaluator with a '
                                       'rational-function canonicaliser, guarded-event (effect) summaries, API oracle, table analyses'}],
        'checks': checks,
        'not_applicable': na,
        'notes': 'All checks are static: they parse /repo/src on every run and never execute repository code. exit 2 = ANALYSIS-ERROR '
                 '(construct not recognised). Nine genuine defects were repaired with fix: commits (known_findings.json).',
    }
    with open(os.path.join(HERE, 'MANIFEST.json'), 'w') as f:
        json.dump(m, f, indent=1)
    print(f"MANIFEST: {len(checks)} checks, {len(na)} not applicable/pending")


if __name__ == '__main__':
    main()
