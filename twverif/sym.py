"""E4 core: canonical rational functions over interned atoms.

A value is a rational function  num/den  whose numerator and denominator are
polynomials with Fraction coefficients over *atoms*.  Atoms are interned
(head, args) pairs; args may themselves contain rational functions, compared by
cross-multiplication (value numbering by congruence).  No search, no solver, no
floating point: equality is polynomial identity.
"""
from __future__ import annotations

from fractions import Fraction
from typing import Dict, Tuple, List, Optional, Iterable


class Unknown(Exception):
    """A query the canonicaliser cannot express."""


# --------------------------------------------------------------------------- atoms
class AtomTable:
    def __init__(self):
        self.defs: List[Tuple[str, tuple]] = []
        self.by_head: Dict[str, List[int]] = {}

    def intern(self, head: str, args: tuple) -> int:
        for aid in self.by_head.get(head, ()):
            if args_equal(self.defs[aid][1], args):
                return aid
        aid = len(self.defs)
        self.defs.append((head, args))
        self.by_head.setdefault(head, []).append(aid)
        return aid

    def head(self, aid):
        return self.defs[aid][0]

    def args(self, aid):
        return self.defs[aid][1]


ATOMS = AtomTable()


def reset():
    global ATOMS
    ATOMS = AtomTable()
    _DEP_CACHE.clear()
    _FREEIDX.clear()


def args_equal(a, b) -> bool:
    if isinstance(a, Rat) and isinstance(b, Rat):
        return a == b
    if isinstance(a, Rat) or isinstance(b, Rat):
        return False
    if isinstance(a, tuple) and isinstance(b, tuple):
        return len(a) == len(b) and all(args_equal(x, y) for x, y in zip(a, b))
    if isinstance(a, tuple) or isinstance(b, tuple):
        return False
    if hasattr(a, 'struct_eq'):
        return a.struct_eq(b)
    if hasattr(b, 'struct_eq'):
        return False
    return type(a) is type(b) and a == b


# --------------------------------------------------------------------------- polynomials
Mono = Tuple[Tuple[int, int], ...]       # sorted ((atom, exp), ...)


def mono_mul(a: Mono, b: Mono) -> Mono:
    if not a:
        return b
    if not b:
        return a
    d = dict(a)
    for k, e in b:
        d[k] = d.get(k, 0) + e
    return tuple(sorted(d.items()))


class Poly:
    __slots__ = ('t',)

    def __init__(self, terms: Optional[Dict[Mono, Fraction]] = None):
        self.t = {m: c for m, c in (terms or {}).items() if c != 0}

    @staticmethod
    def const(c) -> 'Poly':
        return Poly({(): Fraction(c)})

    @staticmethod
    def atom(aid: int) -> 'Poly':
        return Poly({((aid, 1),): Fraction(1)})

    def is_zero(self):
        return not self.t

    def is_const(self):
        return all(m == () for m in self.t)

    def const_value(self) -> Fraction:
        return self.t.get((), Fraction(0))

    def __add__(self, o: 'Poly'):
        d = dict(self.t)
        for m, c in o.t.items():
            d[m] = d.get(m, 0) + c
        return Poly(d)

    def __neg__(self):
        return Poly({m: -c for m, c in self.t.items()})

    def __sub__(self, o):
        return self + (-o)

    def __mul__(self, o: 'Poly'):
        d: Dict[Mono, Fraction] = {}
        for m1, c1 in self.t.items():
            for m2, c2 in o.t.items():
                m = mono_mul(m1, m2)
                d[m] = d.get(m, 0) + c1 * c2
        return Poly(d)

    def scale(self, c):
        c = Fraction(c)
        return Poly({m: v * c for m, v in self.t.items()})

    def __eq__(self, o):
        return isinstance(o, Poly) and self.t == o.t

    def __hash__(self):
        return hash(frozenset(self.t.items()))

    def atoms(self) -> set:
        s = set()
        for m in self.t:
            for a, _ in m:
                s.add(a)
        return s

    def degree_in(self, atomset) -> int:
        d = 0
        for m in self.t:
            d = max(d, sum(e for a, e in m if a in atomset))
        return d

    def mono_gcd(self) -> Mono:
        """common monomial factor of all terms"""
        it = iter(self.t)
        try:
            first = dict(next(it))
        except StopIteration:
            return ()
        for m in it:
            dm = dict(m)
            for a in list(first):
                e = min(first[a], dm.get(a, 0))
                if e:
                    first[a] = e
                else:
                    del first[a]
            if not first:
                break
        return tuple(sorted(first.items()))

    def div_mono(self, g: Mono) -> 'Poly':
        if not g:
            return self
        dg = dict(g)
        out = {}
        for m, c in self.t.items():
            dm = dict(m)
            for a, e in dg.items():
                dm[a] -= e
                if dm[a] == 0:
                    del dm[a]
            out[tuple(sorted(dm.items()))] = c
        return Poly(out)

    def content(self) -> Fraction:
        """signed rational content: coefficient of the smallest monomial"""
        if not self.t:
            return Fraction(0)
        m = min(self.t)
        return self.t[m]


def _mono_common(a: Mono, b: Mono) -> Mono:
    da, db = dict(a), dict(b)
    out = {}
    for k, e in da.items():
        f = min(e, db.get(k, 0))
        if f:
            out[k] = f
    return tuple(sorted(out.items()))


# --------------------------------------------------------------------------- rational functions
class Rat:
    __slots__ = ('n', 'd')

    def __init__(self, n: Poly, d: Optional[Poly] = None):
        if d is None:
            d = Poly.const(1)
        if d.is_zero():
            raise Unknown('division by the zero polynomial')
        if n.is_zero():
            self.n, self.d = n, Poly.const(1)
            return
        # cheap normalisations: cancel common monomial, make den content 1
        g = _mono_common(n.mono_gcd(), d.mono_gcd())
        if g:
            n, d = n.div_mono(g), d.div_mono(g)
        c = d.content()
        if c != 1:
            n, d = n.scale(1 / c), d.scale(1 / c)
        if n == d:
            n, d = Poly.const(1), Poly.const(1)
        elif len(d.t) > 1 and len(n.t) == len(d.t):
            # n == c*d ?
            m0 = min(d.t)
            if m0 in n.t:
                r = n.t[m0] / d.t[m0]
                if n == d.scale(r):
                    n, d = Poly.const(r), Poly.const(1)
        self.n, self.d = n, d

    # constructors
    @staticmethod
    def const(c) -> 'Rat':
        return Rat(Poly.const(c))

    @staticmethod
    def atom(aid: int) -> 'Rat':
        return Rat(Poly.atom(aid))

    def is_const(self):
        return self.d.is_const() and self.n.is_const()

    def const_value(self) -> Fraction:
        return self.n.const_value() / self.d.const_value()

    def is_zero(self):
        return self.n.is_zero()

    def __add__(self, o: 'Rat'):
        if self.d == o.d:
            return Rat(self.n + o.n, self.d)
        return Rat(self.n * o.d + o.n * self.d, self.d * o.d)

    def __neg__(self):
        return Rat(-self.n, self.d)

    def __sub__(self, o):
        return self + (-o)

    def __mul__(self, o: 'Rat'):
        return Rat(self.n * o.n, self.d * o.d)

    def __truediv__(self, o: 'Rat'):
        if o.n.is_zero():
            raise Unknown('division by zero')
        return Rat(self.n * o.d, self.d * o.n)

    def __eq__(self, o):
        if not isinstance(o, Rat):
            return False
        if self.d == o.d:
            return self.n == o.n
        return self.n * o.d == o.n * self.d

    def __hash__(self):            # not canonical -> constant hash, tables use lists
        return 0

    def atoms(self) -> set:
        return self.n.atoms() | self.d.atoms()

    def struct_eq(self, o):
        return self == o

    def __repr__(self):
        return show(self)


ZERO = None
ONE = None


def C(c) -> Rat:
    return Rat.const(c)


def A(head: str, *args) -> Rat:
    return Rat.atom(ATOMS.intern(head, tuple(args)))


def sym(name: str) -> Rat:
    return A('sym', name)


# --------------------------------------------------------------------------- dependency / traversal
_DEP_CACHE: Dict[int, frozenset] = {}


def iter_rats(x) -> Iterable[Rat]:
    if isinstance(x, Rat):
        yield x
    elif isinstance(x, tuple):
        for y in x:
            yield from iter_rats(y)
    elif hasattr(x, 'rats'):
        yield from x.rats()


def atom_closure(aid: int) -> frozenset:
    """all atoms reachable through the arguments of atom `aid`, including itself"""
    r = _DEP_CACHE.get(aid)
    if r is None:
        s = {aid}
        for rr in iter_rats(ATOMS.args(aid)):
            for b in rr.atoms():
                s |= atom_closure(b)
        r = frozenset(s)
        _DEP_CACHE[aid] = r
    return r


def all_atoms(r: Rat) -> set:
    s = set()
    for a in r.atoms():
        s |= atom_closure(a)
    return s


def depends_on(r: Rat, aid: int) -> bool:
    return any(aid in atom_closure(a) for a in r.atoms())


REDUCERS = ('Sum', 'Mean', 'Std', 'Min', 'Max')     # heads whose first argument binds $i
_FREEIDX: Dict[int, bool] = {}


def atom_free_idx(aid: int) -> bool:
    """does atom `aid` depend on the *free* index symbol $i (reductions bind it)"""
    r = _FREEIDX.get(aid)
    if r is None:
        i = idx_atom()
        if aid == i:
            r = True
        else:
            head, args = ATOMS.defs[aid]
            r = any(free_idx(q) for q in _direct_rats(args))
        _FREEIDX[aid] = r
    return r


def _direct_rats(x):
    """rational arguments of an atom, not looking inside structured values: a value nested in
    an atom (an array identity, a term) is closed with respect to the index symbol"""
    if isinstance(x, Rat):
        yield x
    elif isinstance(x, tuple):
        for y in x:
            yield from _direct_rats(y)


def direct_atoms(r: Rat) -> set:
    """atoms reachable through rational arguments only (not through nested structured values)"""
    out = set()
    todo = list(r.atoms())
    while todo:
        a = todo.pop()
        if a in out:
            continue
        out.add(a)
        for q in _direct_rats(ATOMS.args(a)):
            todo.extend(q.atoms())
    return out


def free_idx(r: Rat) -> bool:
    return any(atom_free_idx(a) for a in r.atoms())


def atoms_with_head(r: Rat, head: str) -> List[int]:
    return sorted(a for a in all_atoms(r) if ATOMS.head(a) == head)


# --------------------------------------------------------------------------- substitution
def _subst_val_idx(v, mapping, inner, rebuild):
    """substitution of the element index inside a non-rational argument of an atom: a predicate (the test of a conditional value) and its scalar
    operands are pointwise - they speak about element $i like the value they guard - whereas an array-valued operand binds $i itself"""
    from .values import P as _P, Num as _Num, Gam as _Gam
    if isinstance(v, _P):
        return _P(v.op, *[_subst_val_idx(a, mapping, inner, rebuild) if hasattr(a, 'subst') else a for a in v.args])
    if isinstance(v, _Num) and v.length is None:
        return _Num(subst(v.r, mapping, rebuild), None, v.kind)
    if isinstance(v, _Gam):
        return _Gam(_subst_val_idx(v.pred, mapping, inner, rebuild), _subst_val_idx(v.a, mapping, inner, rebuild), _subst_val_idx(v.b, mapping, inner, rebuild))
    if not inner:
        return v
    return v.subst(lambda q: subst(q, inner, rebuild))


def subst(r, mapping: Dict[int, Rat], rebuild=None, _memo=None):
    """Replace atoms by rational functions, rebuilding opaque atoms whose
    arguments change (through `make_atom`, so axioms are re-applied)."""
    if _memo is None:
        _memo = {}
    if isinstance(r, tuple):
        return tuple(subst(x, mapping, rebuild, _memo) for x in r)
    if not isinstance(r, Rat):
        if hasattr(r, 'subst'):
            if idx_atom() in mapping:
                inner = {k: v for k, v in mapping.items() if k != idx_atom()}
                return _subst_val_idx(r, mapping, inner, rebuild)
            return r.subst(lambda q: subst(q, mapping, rebuild, _memo))
        return r
    keys = set(mapping)

    def atom_image(aid: int) -> Rat:
        if aid in _memo:
            return _memo[aid]
        if aid in mapping:
            out = mapping[aid]
        elif not (atom_closure(aid) & keys):
            out = Rat.atom(aid)
        else:
            head, args = ATOMS.defs[aid]
            nargs = subst(args, mapping, rebuild, _memo)
            out = make_atom(head, *nargs)
        _memo[aid] = out
        return out

    def single_atom(r: Rat):
        if r.d.t == {(): Fraction(1)} and len(r.n.t) == 1:
            (m, c), = r.n.t.items()
            if c == 1 and len(m) == 1 and m[0][1] == 1:
                return m[0][0]
        return None

    def poly_image(p: Poly) -> Rat:
        # fast path: every atom maps to a single atom (renaming)
        imgs = {}
        rename = True
        for a in p.atoms():
            img = atom_image(a)
            sa = single_atom(img)
            if sa is None:
                rename = False
                break
            imgs[a] = sa
        if rename:
            out = {}
            for m, c in p.t.items():
                d = {}
                for a, e in m:
                    b = imgs[a]
                    d[b] = d.get(b, 0) + e
                mm = tuple(sorted(d.items()))
                out[mm] = out.get(mm, 0) + c
            return Rat(Poly(out))
        acc = C(0)
        for m, c in p.t.items():
            term = C(c)
            for a, e in m:
                img = atom_image(a)
                for _ in range(e):
                    term = term * img
            acc = acc + term
        return acc

    if not any(atom_closure(a) & keys for a in r.atoms()):
        return r
    return poly_image(r.n) / poly_image(r.d)


# --------------------------------------------------------------------------- opaque constructors with axioms
def split_content(r: Rat) -> Tuple[Fraction, Rat]:
    """r = c * r'  with r' having numerator/denominator content +1 (sign canonical)"""
    if r.is_zero():
        return Fraction(0), r
    cn, cd = r.n.content(), r.d.content()
    c = cn / cd
    return c, Rat(r.n.scale(1 / cn), r.d.scale(1 / cd))


def make_atom(head: str, *args) -> Rat:
    """Build an opaque application, applying the (few) axioms listed in DESIGN 2.4."""
    if head == 'Abs':
        (e,) = args
        return mk_abs(e)
    if head == 'Pow':
        return mk_pow(*args)
    # rebuilding a reduction whose body is already bound (it mentions $b, the bound symbol): a free $i in it is an *outer* element index and must stay
    # free (re-running the binder would capture it: `[sum(a[s[i]:e[i]]) for i ...]`)
    if head == 'Sum':
        return _rebuild_sum(*args) if _is_bound_body(args[0]) else mk_sum(*args)
    if head in REDUCERS:
        if _is_bound_body(args[0]):
            if head == 'Mean' and not args[1].is_zero():
                return _rebuild_sum(args[0], args[1]) / args[1]
            return A(head, *args)
        return mk_reduce(head, *args)
    if head == 'gamma' and isinstance(args[1], Rat) and args[1] == args[2]:
        return args[1]
    if head == 'Int' and len(args) == 1 and isinstance(args[0], Rat):
        return mk_int(args[0])
    if head == 'el':
        base, idx = args
        if hasattr(base, 'element'):
            return base.element(idx)
    return A(head, *args)


def is_integral(r: Rat) -> bool:
    """conservative: `r` is a polynomial with integer coefficients over integer-valued atoms"""
    if r.d.t != {(): 1} or any(Fraction(c).denominator != 1 for c in r.n.t.values()):
        return False
    for a in r.atoms():
        h, args = ATOMS.head(a), ATOMS.args(a)
        if h in ('Int', 'Len', 'cle', 'clt'):
            continue
        if h in ('FloorDiv', 'Mod', 'max2', 'min2') and all(isinstance(x, Rat) and is_integral(x) for x in args):
            continue
        return False
    return True


def is_nonneg(r: Rat) -> bool:
    """conservative: `r` is a polynomial with non-negative coefficients over non-negative atoms"""
    if r.d.t != {(): 1} or any(c < 0 for c in r.n.t.values()):
        return False
    for a in r.atoms():
        h, args = ATOMS.head(a), ATOMS.args(a)
        if h in ('Len', 'Abs', 'cle', 'clt'):
            continue
        if h == 'max2' and any(isinstance(x, Rat) and is_nonneg(x) for x in args):
            continue
        if h == 'min2' and all(isinstance(x, Rat) and is_nonneg(x) for x in args):
            continue
        if h == 'FloorDiv' and isinstance(args[0], Rat) and is_nonneg(args[0]) and isinstance(args[1], Rat) and args[1].is_const() and args[1].const_value() > 0:
            continue
        return False
    return True


def mk_int(r: Rat) -> Rat:
    """int(r): folds for a known number; int(m * p / k) of a non-negative integer p is the floor division (m * p) // k"""
    if r.is_const():
        import math
        return C(math.trunc(r.const_value()))
    c, p = split_content(r)
    if c > 0 and is_integral(p) and is_nonneg(p):
        if c.denominator == 1:
            return r
        return A('FloorDiv', C(c.numerator) * p, C(c.denominator))
    return A('Int', r)


POSITIVE: List[Rat] = []     # expressions declared positive by a rule (listed in evidence)


def declare_positive(r: Rat):
    POSITIVE.append(r)


def mk_abs(e: Rat) -> Rat:
    if e.is_const():
        return C(abs(e.const_value()))
    c, p = split_content(e)
    for q in POSITIVE:
        if p == q:
            return C(abs(c)) * p
        if p == -q:
            return C(abs(c)) * (-p)
    # canonical modulo sign: split_content already fixed the sign of the
    # smallest monomial of numerator and denominator to +.
    return C(abs(c)) * A('Abs', p)


def variance_form(body: Rat, length: Rat) -> Rat:
    """population variance of an element-wise expression: Mean((y - Mean(y))^2) (numpy.var / numpy.std**2 with ddof = 0)"""
    m = mk_reduce('Mean', body, length)
    d = body - m
    return mk_reduce('Mean', d * d, length)


def mk_pow(b: Rat, e: Rat) -> Rat:
    # (c ** p) ** q == c ** (p*q) for a non-negative base raised to 1/2 (square roots of means of squares)
    if e.is_const():
        ats = list(b.atoms())
        if len(ats) == 1 and b == Rat.atom(ats[0]) and ATOMS.head(ats[0]) == 'Pow':
            c0, p0 = ATOMS.args(ats[0])
            if isinstance(p0, Rat) and p0.is_const() and p0.const_value() == Fraction(1, 2):
                prod = p0.const_value() * e.const_value()
                if prod.denominator == 1:
                    return mk_pow(c0, C(prod))
    if e.is_const():
        ev = e.const_value()
        if ev.denominator == 1 and abs(ev.numerator) <= 8:
            k = ev.numerator
            out = C(1)
            for _ in range(abs(k)):
                out = out * b
            return out if k >= 0 else C(1) / out
        if b.is_const() and b.const_value() in (0, 1) and ev > 0:
            return b
        if b.is_const() and b.const_value() > 0 and False:
            pass
        return A('Pow', b, e)
    # symbolic exponent: documented positive by the properties
    if b.is_const() and b.const_value() in (0, 1):
        return b
    return A('Pow', b, e)


IDX = None   # set below


def mk_sum(body: Rat, length: Rat) -> Rat:
    """Sum_{IDX=0}^{length-1} body, expanded by linearity: scalars (IDX-free factors)
    are pulled out, the sum distributes over the numerator's terms when the
    denominator is IDX-free."""
    if not free_idx(body):
        return body * length
    if any(atom_free_idx(a) for a in body.d.atoms()):
        return A('Sum', bind(body), length)
    acc = C(0)
    for m, c in body.n.t.items():
        free = [(a, e) for a, e in m if not atom_free_idx(a)]
        dep = [(a, e) for a, e in m if atom_free_idx(a)]
        coeff = Rat(Poly({tuple(free): c}))
        if not dep:
            acc = acc + coeff * length
        else:
            acc = acc + coeff * A('Sum', bind(Rat(Poly({tuple(dep): Fraction(1)}))), length)
    return acc / Rat(body.d)


def bound_atom() -> int:
    return ATOMS.intern('sym', ('$b',))


def _is_bound_body(body) -> bool:
    return isinstance(body, Rat) and bound_atom() in all_atoms(body)


def _rebuild_sum(body: Rat, length: Rat) -> Rat:
    """Sum over the bound symbol $b of an already bound body, expanded by linearity exactly as mk_sum does for a fresh one"""
    b = bound_atom()

    def dep(a) -> bool:
        return a == b or b in atom_closure(a)
    if any(dep(a) for a in body.d.atoms()):
        return A('Sum', body, length)
    acc = C(0)
    for m, c in body.n.t.items():
        free = [(a, e) for a, e in m if not dep(a)]
        bound = [(a, e) for a, e in m if dep(a)]
        coeff = Rat(Poly({tuple(free): c}))
        if not bound:
            acc = acc + coeff * length
        else:
            acc = acc + coeff * A('Sum', Rat(Poly({tuple(bound): Fraction(1)})), length)
    return acc / Rat(body.d)


def bind(body: Rat) -> Rat:
    """rename the free index symbol $i to the bound symbol $b (reductions bind their index)"""
    return subst(body, {idx_atom(): Rat.atom(ATOMS.intern('sym', ('$b',)))})


def mk_reduce(head: str, body: Rat, length: Rat) -> Rat:
    """Mean / Std / Min / Max over $i < length; the mean is the sum divided by the count (so `a.sum() / len(a)`, `np.dot(a, a) / a.size` and
    `np.mean(a ** 2)` are one value)"""
    if head == 'Mean' and not length.is_zero():
        return mk_sum(body, length) / length
    return A(head, bind(body), length)


def idx_atom() -> int:
    return ATOMS.intern('sym', ('$i',))


def idx() -> Rat:
    return Rat.atom(idx_atom())


# --------------------------------------------------------------------------- printing
_SHOW_CACHE: Dict[int, str] = {}
SHOW_LIMIT = 1500       # printed size of one atom; beyond it the text is cut and the atom's number appended (atoms are interned: equal text <=> equal atom)


def show_atom(aid: int) -> str:
    got = _SHOW_CACHE.get(aid)
    if got is not None:
        return got
    head, args = ATOMS.defs[aid]
    if head == 'sym':
        out = str(args[0])
    elif head == 'el':
        out = f"{show_any(args[0])}[{show_any(args[1])}]"
    else:
        out = f"{head}({', '.join(show_any(a) for a in args)})"
    if len(out) > SHOW_LIMIT:
        out = f"{out[:SHOW_LIMIT]}...#{aid}"
    _SHOW_CACHE[aid] = out
    return out


def show_any(x) -> str:
    if isinstance(x, Rat):
        return show(x)
    if isinstance(x, tuple):
        return '(' + ', '.join(show_any(y) for y in x) + ')'
    return str(x)


def show_poly(p: Poly) -> str:
    if p.is_zero():
        return '0'
    parts = []
    for m in sorted(p.t):
        c = p.t[m]
        fs = []
        for a, e in m:
            s = show_atom(a)
            fs.append(s if e == 1 else f"{s}^{e}")
        body = '*'.join(fs)
        if not body:
            parts.append(str(c))
        elif c == 1:
            parts.append(body)
        elif c == -1:
            parts.append('-' + body)
        else:
            parts.append(f"{c}*{body}")
    return ' + '.join(parts).replace('+ -', '- ')


def show(r: Rat) -> str:
    if r.d == Poly.const(1):
        return show_poly(r.n)
    return f"({show_poly(r.n)})/({show_poly(r.d)})"


# --------------------------------------------------------------------------- affine invariance (no expansion blow-up)
def _poly_total_derivative(p: Poly, aset) -> Poly:
    """sum over atoms a in aset of d p / d a"""
    out: Dict[Mono, Fraction] = {}
    for m, c in p.t.items():
        for j, (a, e) in enumerate(m):
            if a in aset:
                if e == 1:
                    mm = m[:j] + m[j + 1:]
                else:
                    mm = m[:j] + ((a, e - 1),) + m[j + 1:]
                out[mm] = out.get(mm, 0) + c * e
    return Poly(out)


def affine_invariant(r: Rat, is_var, _seen=None) -> Tuple[bool, str]:
    """is r unchanged when every atom v with is_var(v) is replaced by c*v + d (c != 0)?
    Decided without expanding the substitution: (1) every opaque atom's rational arguments are themselves invariant,
    (2) numerator and denominator are homogeneous of the same degree in the variables (scale),
    (3) N'*D == N*D' for the total derivative ' = sum_v d/dv (translation)."""
    if _seen is None:
        _seen = {}
    vars_top = {a for a in r.atoms() if is_var(a)}
    for a in r.atoms():
        if a in vars_top:
            continue
        if a in _seen:
            if not _seen[a]:
                return False, f"opaque term {show_atom(a)[:120]} is not invariant"
            continue
        ok = True
        why = ''
        for q in _direct_rats(ATOMS.args(a)):
            if any(is_var(b) for b in direct_atoms(q)):
                ok, why = affine_invariant(q, is_var, _seen)
                if not ok:
                    break
        _seen[a] = ok
        if not ok:
            return False, f"inside {show_atom(a)[:120]}: {why}"
    if not vars_top:
        return True, ''
    degs_n = {sum(e for a, e in m if a in vars_top) for m in r.n.t}
    degs_d = {sum(e for a, e in m if a in vars_top) for m in r.d.t}
    if len(degs_n) > 1 or len(degs_d) > 1 or (r.n.t and degs_n != degs_d):
        return False, f"not homogeneous of degree 0 (numerator degrees {sorted(degs_n)}, denominator degrees {sorted(degs_d)})"
    dn, dd = _poly_total_derivative(r.n, vars_top), _poly_total_derivative(r.d, vars_top)
    if not (dn * r.d == r.n * dd):
        return False, 'not translation invariant (total derivative does not vanish)'
    return True, ''


def affine_equivariant(r: Rat, is_var) -> Tuple[bool, str]:
    """does r map to c*r + d when every variable v is replaced by c*v + d?  <=>  r/v0-normalised... decided as:
    homogeneous of degree 1 and total derivative == 1"""
    vars_top = {a for a in r.atoms() if is_var(a)}
    for a in r.atoms():
        if a not in vars_top:
            for q in _direct_rats(ATOMS.args(a)):
                if any(is_var(b) for b in direct_atoms(q)):
                    ok, why = affine_invariant(q, is_var)
                    if not ok:
                        return False, f"inside {show_atom(a)[:120]}: {why}"
    degs_n = {sum(e for a, e in m if a in vars_top) for m in r.n.t}
    degs_d = {sum(e for a, e in m if a in vars_top) for m in r.d.t}
    if len(degs_n) != 1 or len(degs_d) != 1 or next(iter(degs_n)) - next(iter(degs_d)) != 1:
        return False, f"not homogeneous of degree 1 (numerator {sorted(degs_n)}, denominator {sorted(degs_d)})"
    dn, dd = _poly_total_derivative(r.n, vars_top), _poly_total_derivative(r.d, vars_top)
    # (N/D)' = (N'D - ND')/D^2 == 1  <=>  N'D - ND' == D^2
    if not (dn * r.d - r.n * dd == r.d * r.d):
        return False, 'total derivative is not 1 (weights do not sum to one)'
    return True, ''
