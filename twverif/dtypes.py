"""Element-type (dtype) shadow of array values: which buffers keep the caller's dtype, which are float by construction.

The evaluator attaches a tag `dt` to array values where NumPy fixes or inherits an element type:
    ('float',) / ('int',) / ('bool',)   fixed by the call (dtype=float, zeros(n), linspace, ...)
    ('same', label)                      whatever the caller's array `label` (a parameter, a Weaver field) holds
A value without a tag is *unknown* - never reported.  Integer-typed input is ordinary (Weaver(None, y) builds an integer
abscissa itself), so a buffer tagged ('same', ...) may be an integer array, and

  DT1  a real-valued result stored in place into a buffer that keeps the caller's dtype is truncated for integer input;
  DT2  a cast (`astype(v.dtype)`, `asarray(.., dtype=v.dtype)`) of a computed value to the dtype borrowed from caller data
       truncates it likewise.

  DT3  an integer power or self-product (`v**2`, `v*v`) of a value that still has the caller's element type is computed in that type and
       wraps silently for integer input of ordinary magnitude (a rate of 4e9 bit/s squared exceeds int64).

All are necessary conditions of every property quantified over 'every finite y / every increasing x': the float domain
is entered once (dtype=float at the boundary) and never left."""
from __future__ import annotations

from typing import Optional, Tuple, List

from . import sym
from .sym import Rat
from .values import Val, Num, Const, Tup, Term, Fn, Gam, Ref, walk_vals

FLOAT, INT, BOOL = ('float',), ('int',), ('bool',)
FLOAT_NAMES = {'float', 'numpy.float64', 'numpy.float32', 'numpy.double', 'numpy.float_', 'numpy.floating', 'float64', 'float32', 'f8', 'd', 'numpy.longdouble'}
INT_NAMES = {'int', 'numpy.int64', 'numpy.int32', 'numpy.intp', 'numpy.int_', 'int64', 'int32', 'i8', 'numpy.uint8', 'numpy.int8', 'numpy.uint64'}
BOOL_NAMES = {'bool', 'numpy.bool_', 'numpy.bool'}

INHERIT = {'lib:numpy.tile': ('A', 0), 'lib:numpy.repeat': ('a', 0), 'lib:numpy.copy': ('a', 0), 'lib:numpy.sort': ('a', 0), 'lib:numpy.unique': ('ar', 0),
           'lib:numpy.take': ('a', 0), 'take': (None, 0), 'slice_of': (None, 0), 'stored': (None, 0), 'loopstate': (None, 0), 'mutated': (None, 0),
           'lib:numpy.pad': ('array', 0), 'lib:numpy.flip': ('m', 0), 'lib:numpy.roll': ('a', 0), 'lib:numpy.delete': ('arr', 0), 'method:flatten': (None, 0),
           'lib:numpy.squeeze': ('a', 0), 'lib:numpy.atleast_1d': (None, 0), 'method:copy': (None, 0), 'lib:numpy.cumsum': ('a', 0), 'index': (None, 0),
           'lib:numpy.maximum': ('x1', 0), 'lib:numpy.minimum': ('x1', 0), 'lib:numpy.clip': ('a', 0), 'lib:numpy.abs': ('x', 0)}
LIKE = {'lib:numpy.zeros_like', 'lib:numpy.ones_like', 'lib:numpy.empty_like', 'lib:numpy.full_like'}
ALLOC_FLOAT = {'lib:numpy.zeros', 'lib:numpy.ones', 'lib:numpy.empty'}
ALWAYS_FLOAT = {'lib:numpy.linspace', 'lib:numpy.interp', 'lib:numpy.mean', 'lib:numpy.nanmean', 'lib:numpy.std', 'lib:numpy.sqrt', 'lib:numpy.exp', 'lib:numpy.log',
                'lib:numpy.random.normal', 'lib:numpy.random.randn', 'lib:numpy.random.rand', 'lib:numpy.loadtxt', 'lib:numpy.true_divide', 'lib:numpy.divide',
                'lib:numpy.geomspace', 'lib:numpy.logspace', 'lib:numpy.trapz', 'lib:numpy.trapezoid', 'lib:numpy.average', 'lib:numpy.polyval'}
ALWAYS_INT = {'lib:numpy.arange?', 'nz', 'lib:numpy.searchsorted', 'lib:numpy.argmin', 'lib:numpy.argmax', 'lib:numpy.argsort', 'lib:numpy.flatnonzero'}


def tag_of_dtype_arg(d) -> Optional[tuple]:
    """the element type a `dtype=` argument denotes"""
    if d is None:
        return None
    if isinstance(d, Term) and d.head in ('lib:numpy.result_type', 'lib:numpy.promote_types'):
        # the common type of its arguments: floating point as soon as one of them is
        parts = [tag_of_dtype_arg(x) for x in list(d.args) + [v for _, v in d.kwargs]]
        if FLOAT in parts:
            return FLOAT
        return None
    if isinstance(d, Fn):
        name = d.ref if isinstance(d.ref, str) else getattr(d.ref, 'qualname', str(d.ref))
        name = name.replace('builtins.', '')
        if name in FLOAT_NAMES:
            return FLOAT
        if name in INT_NAMES:
            return INT
        if name in BOOL_NAMES:
            return BOOL
        return None
    if isinstance(d, Const) and isinstance(d.v, str):
        if d.v in FLOAT_NAMES:
            return FLOAT
        if d.v in INT_NAMES:
            return INT
        if d.v in BOOL_NAMES:
            return BOOL
        return None
    if isinstance(d, Term) and d.head == 'attr' and len(d.args) == 2 and isinstance(d.args[1], Const) and d.args[1].v == 'dtype':
        return dtype_of(d.args[0])
    return None


def borrowed_from(d) -> Optional[Val]:
    """`v` when the dtype argument is `v.dtype`"""
    if isinstance(d, Term) and d.head == 'attr' and len(d.args) == 2 and isinstance(d.args[1], Const) and d.args[1].v == 'dtype':
        return d.args[0]
    return None


def _targ(t: Term, name, i):
    if name is not None and t.kw(name) is not None:
        return t.kw(name)
    return t.args[i] if i < len(t.args) else None


def dtype_of(v, depth=0) -> Optional[tuple]:
    """element type of an array value, None when not known"""
    if v is None or depth > 12:
        return None
    dt = getattr(v, 'dt', None)
    if dt is not None:
        return dt
    if isinstance(v, Gam):
        a, b = dtype_of(v.a, depth + 1), dtype_of(v.b, depth + 1)
        return a if a == b else None
    if isinstance(v, Num):
        if v.length is None:
            return None
        from .symeval import arr_identity
        t = arr_identity(v)
        if isinstance(t, Term):
            return dtype_of(t, depth + 1)
        return None
    if isinstance(v, Term):
        h = v.head
        d = tag_of_dtype_arg(v.kw('dtype'))
        if d is not None and (h in LIKE or h in ALLOC_FLOAT or h in ('lib:numpy.full', 'lib:numpy.arange', 'lib:numpy.asarray', 'lib:numpy.array')):
            return d
        if h in ALLOC_FLOAT and v.kw('dtype') is None:
            return FLOAT
        if h in LIKE and v.kw('dtype') is None:
            return dtype_of(_targ(v, 'a', 0) if v.kw('a') is not None else (_targ(v, 'prototype', 0)), depth + 1)
        if h in ALWAYS_FLOAT:
            return FLOAT
        if h in ALWAYS_INT:
            return INT
        if h in INHERIT:
            name, i = INHERIT[h]
            return dtype_of(_targ(v, name, i), depth + 1)
        if h == 'cat':
            ts = {dtype_of(a, depth + 1) for a in v.args if isinstance(a, (Num, Term)) and getattr(a, 'length', 1) is not None}
            return ts.pop() if len(ts) == 1 else None
    return None


def value_tag(v) -> tuple:
    """element type of a computed (scalar or element-wise) value: ('int',), ('same', label), or ('real',) for anything that may
    be fractional (a quotient, a fractional constant, a call result, data of another array)"""
    dt = getattr(v, 'dt', None)
    if dt is not None:
        return dt
    if isinstance(v, Gam):
        a, b = value_tag(v.a), value_tag(v.b)
        return a if a == b else ('real',)
    if isinstance(v, Term):
        d = dtype_of(v)
        return d if d is not None else ('real',)
    if not isinstance(v, Num):
        return ('real',)
    if v.length is not None:
        d = dtype_of(v)
        if d is not None:
            return d
    return _rat_tag(v.r)


def _rat_tag(r: Rat, depth=0) -> tuple:
    if depth > 6:
        return ('real',)
    try:
        if not r.d.is_const() if hasattr(r.d, 'is_const') else (r.d.t != {(): 1}):
            return ('real',)
    except Exception:
        return ('real',)
    labels = set()
    for mono, c in r.n.t.items():
        if c.denominator != 1:
            return ('real',)
    dc = list(r.d.t.values())
    if len(dc) != 1 or dc[0] != 1 or list(r.d.t.keys()) != [()]:
        return ('real',)
    for a in r.atoms():
        head, args = sym.ATOMS.head(a), sym.ATOMS.args(a)
        if head == 'el' and isinstance(args[0], Ref) and args[0].term is None:
            labels.add(args[0].label)
        elif head == 'gamma':
            ts = {_rat_tag(args[1], depth + 1), _rat_tag(args[2], depth + 1)}
            if len(ts) != 1:
                return ('real',)
            t = ts.pop()
            if t[0] == 'same':
                labels.add(t[1])
            elif t != INT:
                return ('real',)
        elif head in ('Len', 'Int', 'FloorDiv'):
            continue
        elif head == 'sym':
            return ('real',)            # a scalar parameter: may be fractional
        else:
            return ('real',)
    if not labels:
        return INT
    if len(labels) == 1:
        return ('same', labels.pop())
    return ('real',)


def check_events(ctx, ev, rule: str, what: str, fi=None, only_funcs=None) -> int:
    """DT1 / DT2 over the events of one evaluation; returns the number of stores / casts decided"""
    decided = 0
    for e in ev.events:
        if only_funcs is not None and (e.func is None or e.func.qualname not in only_funcs):
            continue
        owner = e.func or fi
        loc = e.loc() if hasattr(e, 'loc') else ''
        if e.kind == 'store':
            tb = dtype_of(e.data.get('base'))
            if tb is None:
                continue
            decided += 1
            if tb[0] != 'same':
                ctx.ok(rule, f"{what}: store at {loc} goes into a buffer of fixed element type {tb[0]}", '', loc, owner.qualname if owner else '', f"dt-store:{loc}")
                continue
            vt = value_tag(e.data.get('value'))
            ok = vt == tb or vt == INT
            ctx.check(ok, rule, f"{what}: in-place store at {loc}: the buffer keeps the caller's element type ({tb[1]}), so only values of that same type may be "
                      f"written into it (an integer-typed input would truncate anything else)",
                      f"buffer dtype: that of {tb[1]}; value: {vt}", loc, owner.qualname if owner else '', f"dt-store:{loc}")
        elif e.kind == 'selfpower':
            decided += 1
            tb = e.data['tag']
            ctx.fail(rule, f"{what}: the power / self-product at {loc} is taken in the element type of {tb[1]}",
                     f"for integer-typed {tb[1]} the result wraps silently (int64: |v| >= 3.04e9 for a square, int32: |v| >= 46341): the data has to enter the "
                     f"floating-point domain before it is squared (DT3)", loc, owner.qualname if owner else '', f"dt-power:{loc}")
        elif e.kind in ('lib', 'method'):
            name = e.data.get('name')
            src = None
            operand = None
            if e.kind == 'lib' and name in ('numpy.asarray', 'numpy.array', 'numpy.asanyarray', 'numpy.ascontiguousarray', 'numpy.asfarray'):
                src = borrowed_from(e.data['kw'].get('dtype', e.data['pos'][1] if len(e.data['pos']) > 1 else None))
                operand = e.data['pos'][0] if e.data['pos'] else (e.data['kw'].get('a') or e.data['kw'].get('object'))
            elif e.kind == 'lib' and ('lib:' + str(name)) in ALWAYS_FLOAT and borrowed_from(e.data['kw'].get('dtype')) is not None:
                # a real-valued construction (linspace, mean, ...) forced into a borrowed element type
                src = borrowed_from(e.data['kw'].get('dtype'))
                operand = Term('real', (Const(name),))
            elif e.kind == 'method' and name == 'astype':
                src = borrowed_from(e.data['kw'].get('dtype', e.data['pos'][0] if e.data['pos'] else None))
                operand = e.data.get('recv')
            if src is None or operand is None:
                continue
            ts = dtype_of(src)
            if ts is None or ts[0] != 'same':
                continue
            decided += 1
            vt = value_tag(operand)
            ok = vt == ts or vt == INT
            ctx.check(ok, rule, f"{what}: cast at {loc} to the element type borrowed from {ts[1]}: only values of that same type may be cast to it "
                      f"(an integer-typed {ts[1]} would truncate anything else)", f"operand: {vt}", loc, owner.qualname if owner else '', f"dt-cast:{loc}")
    return decided
