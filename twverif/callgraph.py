"""E0: call graph over resolved callees (class-hierarchy dispatch for method calls on
unknown receivers)."""
from __future__ import annotations

import ast
from typing import Dict, List, Set

from .model import Program, FuncInfo, ClassInfo


def callees(prog: Program, fi: FuncInfo) -> List[FuncInfo]:
    out: List[FuncInfo] = []
    local_imports = {}
    for n in ast.walk(fi.node):
        if isinstance(n, (ast.Import, ast.ImportFrom)):
            prog._index_import(fi.module, n, local_imports)
    for n in ast.walk(fi.node):
        if not isinstance(n, ast.Call):
            continue
        f = n.func
        r = prog.resolve_expr(fi.module, f, local_imports)
        if r is not None:
            if r[0] == 'func':
                out.append(r[2])
                continue
            if r[0] == 'class':
                init = prog.find_method(r[2], '__init__')
                if init:
                    out.append(init)
                continue
            if r[0] == 'lib':
                continue
        if isinstance(f, ast.Attribute):
            # self.m() -> own class hierarchy; super().m(); otherwise CHA by method name
            if isinstance(f.value, ast.Name) and f.value.id == 'self' and fi.cls is not None:
                m = prog.find_method(fi.cls, f.attr)
                if m is not None:
                    out.append(m)
                for sub in prog.subclasses(fi.cls):
                    if f.attr in sub.methods:
                        out.append(sub.methods[f.attr])
                continue
            if isinstance(f.value, ast.Call) and isinstance(f.value.func, ast.Name) and f.value.func.id == 'super' and fi.cls:
                for c in prog.mro(fi.cls)[1:]:
                    if f.attr in c.methods:
                        out.append(c.methods[f.attr])
                        break
                continue
            for mi in prog.modules.values():
                for ci in mi.classes.values():
                    if f.attr in ci.methods:
                        out.append(ci.methods[f.attr])
        elif isinstance(f, ast.Name) and f.id in fi.params():
            # parameter holding a class (rfa_class): every concrete RFA class constructor
            if f.id.endswith('_class'):
                for mi in prog.modules.values():
                    for ci in mi.classes.values():
                        init = prog.find_method(ci, '__init__')
                        if init is not None and mi.name.endswith('.rfa'):
                            out.append(init)
    # functions referenced as values (dispatch tables, callbacks), directly or through a module-level constant
    for n in ast.walk(fi.node):
        if isinstance(n, ast.Name) and isinstance(n.ctx, ast.Load):
            r = prog.resolve_expr(fi.module, n, local_imports)
            if r is not None and r[0] == 'func':
                out.append(r[2])
            elif r is not None and r[0] == 'const':
                mi, cnode = r[2]
                for m in ast.walk(cnode):
                    if isinstance(m, ast.Name):
                        rr = prog.resolve_expr(mi, m)
                        if rr is not None and rr[0] == 'func':
                            out.append(rr[2])
    # implicit dunder calls through subscripts on repo objects
    for n in ast.walk(fi.node):
        if isinstance(n, ast.Subscript):
            for mi in prog.modules.values():
                for ci in mi.classes.values():
                    for d in ('__getitem__', '__setitem__'):
                        if d in ci.methods and fi.module.name.endswith(('.rfa', '.process', '.interval')):
                            out.append(ci.methods[d])
    return out


def reachable(prog: Program, roots: List[FuncInfo]) -> List[FuncInfo]:
    seen: Dict[str, FuncInfo] = {}
    todo = list(roots)
    while todo:
        f = todo.pop()
        if f.qualname in seen:
            continue
        seen[f.qualname] = f
        todo.extend(callees(prog, f))
    return list(seen.values())
