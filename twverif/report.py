"""Obligations, findings, evidence files, known findings, exit codes (DESIGN section 3)."""
from __future__ import annotations

import json
import os
import re
import time
from dataclasses import dataclass, field
from typing import List, Optional, Dict, Any

from .model import Program, AnalysisError

VERIF = os.path.dirname(os.path.dirname(os.path.abspath(__file__)))


def norm_text(s: str) -> str:
    return re.sub(r'\s+', ' ', str(s)).strip()


@dataclass
class Obligation:
    rule: str
    instance: str
    status: str                 # 'ok' | 'fail' | 'unknown'
    detail: str = ''
    loc: str = ''
    func: str = ''
    construct: str = ''

    def key(self) -> str:
        return f"{self.rule}|{self.func}|{norm_text(self.construct or self.instance)}"


class Ctx:
    def __init__(self, pid: str, prog: Program, tier: str = 'quick', seed: int = 0):
        self.pid = pid
        self.prog = prog
        self.tier = tier
        self.seed = seed
        self.obls: List[Obligation] = []
        self.samples: List[Any] = []
        self.trusted: List[str] = []
        self.assumptions: List[str] = []
        self.notes: List[str] = []
        self.rules_text: Dict[str, str] = {}
        self.exhaustive = False
        self.extra: Dict[str, Any] = {}
        self.t0 = time.time()

    # ---- recording
    def rule(self, rid: str, text: str):
        # one rule id may be stated in several parts (a rule shared with another property's module adds its own clause)
        old = self.rules_text.get(rid)
        self.rules_text[rid] = text if not old or text in old else (old if len(old) > 1200 else old + ' || ' + text)

    def ok(self, rule, instance, detail='', loc='', func='', construct=''):
        self.obls.append(Obligation(rule, str(instance), 'ok', str(detail), loc, func, construct))
        return True

    def fail(self, rule, instance, detail='', loc='', func='', construct=''):
        self.obls.append(Obligation(rule, str(instance), 'fail', str(detail), loc, func, construct))
        return False

    def unknown(self, rule, instance, detail='', loc='', func='', construct=''):
        self.obls.append(Obligation(rule, str(instance), 'unknown', str(detail), loc, func, construct))
        return None

    def check(self, cond, rule, instance, detail='', loc='', func='', construct=''):
        if cond is None:
            return self.unknown(rule, instance, detail, loc, func, construct)
        return (self.ok if cond else self.fail)(rule, instance, detail, loc, func, construct)

    def floor(self, rule: str, found: int, minimum: int, what: str):
        """vacuity guard: fewer anchors than confirmed by hand => the checker lost sight (exit 2)"""
        if found < minimum:
            raise AnalysisError(f"{rule}: found {found} {what}, expected at least {minimum} (anchor vanished / not recognised)")

    def trust(self, *items):
        for i in items:
            if i not in self.trusted:
                self.trusted.append(i)

    def assume(self, *items):
        for i in items:
            if i not in self.assumptions:
                self.assumptions.append(i)

    def sample(self, s):
        if len(self.samples) < 40:
            self.samples.append(s)


def load_known() -> dict:
    p = os.path.join(VERIF, 'known_findings.json')
    if not os.path.exists(p):
        return {'findings': [], 'fixed': []}
    with open(p) as f:
        return json.load(f)


def finish(ctx: Ctx, evidence_path: Optional[str], replay_filter: Optional[dict] = None, extra_cov: Optional[dict] = None) -> int:
    """print the report, write evidence and replay files, return the exit code"""
    known = load_known()
    known_keys = {k['key']: k for k in known.get('findings', []) if k.get('property') == ctx.pid}
    fails = [o for o in ctx.obls if o.status == 'fail']
    unknowns = [o for o in ctx.obls if o.status == 'unknown']
    new_fails, known_hits = [], []
    for o in fails:
        if o.key() in known_keys:
            known_hits.append(o)
        else:
            new_fails.append(o)
    if replay_filter is not None:
        new_fails = [o for o in new_fails if o.key() == replay_filter.get('key')]
    replay_dir = os.path.join(VERIF, 'replay')
    lines = []
    for o in known_hits:
        print(f"KNOWN-FINDING: property={ctx.pid} {o.rule} {o.instance}: {o.detail}")
    seen = set()
    k = 0
    for o in new_fails:
        if o.key() in seen:
            continue
        seen.add(o.key())
        k += 1
        os.makedirs(replay_dir, exist_ok=True)
        rp = os.path.join(replay_dir, f"{ctx.pid}-{k}.json")
        with open(rp, 'w') as f:
            json.dump({'property': ctx.pid, 'key': o.key(), 'rule': o.rule, 'instance': o.instance, 'loc': o.loc,
                       'func': o.func, 'detail': o.detail, 'construct': o.construct}, f, indent=1)
        print(f"--- {ctx.pid} rule {o.rule} violated at {o.loc or '?'} ({o.func or 'n/a'})")
        print(f"    instance: {o.instance}")
        print(f"    rule: {ctx.rules_text.get(o.rule.split('/')[0], '')}")
        for dl in str(o.detail).splitlines() or ['']:
            print(f"    {dl}")
        print(f"VIOLATION property={ctx.pid} replay={rp}")
    for o in unknowns:
        print(f"ANALYSIS-ERROR property={ctx.pid} rule={o.rule} instance={o.instance} at {o.loc}: {o.detail}")
    n_ok = sum(1 for o in ctx.obls if o.status == 'ok')
    distinct = len({o.key() for o in ctx.obls})
    wall = time.time() - ctx.t0
    if evidence_path and replay_filter is None:
        cov = {
            'explanation': ' '.join(f"[{rid}] {txt}" for rid, txt in ctx.rules_text.items()) or 'no rules ran',
            'evaluations': len(ctx.obls),
            'distinct_nontrivial': distinct,
            'rule': 'one evaluation = one obligation (rule instance) discharged on a construct of the current source tree; '
                    'distinct = distinct (rule, function, construct) keys; every obligation matched a real construct '
                    '(vacuity floors enforce this)',
            'samples': ctx.samples[:40] or [f"{o.rule}: {o.instance} -> {o.status}" for o in ctx.obls[:20]],
            'obligations': len(ctx.obls),
            'discharged': n_ok,
            'failed': len(fails),
            'known_findings_matched': len(known_hits),
            'unknown': len(unknowns),
            'checker_cmd': f"/venv/bin/python check.py {ctx.pid} --tier {ctx.tier}",
            'trusted_base': ctx.trusted,
            'exhaustive': bool(ctx.exhaustive),
            'inventory': ctx.prog.inventory(),
            'root': ctx.prog.root,
            'rules': ctx.rules_text,
            'notes': ctx.notes,
            'obligation_list': [f"{o.rule} | {o.instance} | {o.status}" for o in ctx.obls][:400],
        }
        cov.update(ctx.extra)
        if extra_cov:
            cov.update(extra_cov)
        ev = {'property_id': ctx.pid, 'tier': ctx.tier, 'seed': int(ctx.seed), 'level': 'other', 'coverage': cov,
              'assumptions': ctx.assumptions, 'wall_s': round(wall, 3), 'violations': len(seen)}
        os.makedirs(os.path.dirname(evidence_path), exist_ok=True)
        tmp = evidence_path + '.tmp'
        with open(tmp, 'w') as f:
            json.dump(ev, f, indent=1, default=str)
        os.replace(tmp, evidence_path)
    print(f"{ctx.pid} [{ctx.tier}] obligations={len(ctx.obls)} discharged={n_ok} failed={len(fails)} "
          f"known={len(known_hits)} unknown={len(unknowns)} wall={wall:.2f}s root={ctx.prog.root}")
    if seen:
        return 1
    if unknowns:
        return 2
    return 0
