"""E5: index/stencil facts for the recreate-from-average strategies.

Each strategy class is evaluated symbolically (value numbering, loop bodies once with
free loop symbols): __init__ with symbolic parameters, then rfa() with the scalar
fields replaced by fresh symbols.  The array helpers of sorted_array_utils stay
uninterpreted (their contracts are C17's obligations); the strategy's own arithmetic,
the fit functions and the IntervalArray index map are interpreted.
"""
from __future__ import annotations

import ast
from dataclasses import dataclass, field
from typing import Dict, List, Optional, Tuple

from . import sym
from .sym import Rat, C
from .values import (Val, Num, Const, Tup, Term, Obj, P, Gam, Ref, arr_param, scalar_param, veq, walk_vals, term_as_num,
                     fresh_serial, Fn)
from .symeval import Evaluator, State, Frame, Event, LoopCtx
from .model import Program, FuncInfo, ClassInfo, AnalysisError
from .rules.common import REPO_RESULT_KIND, SAU, has_unsupported

RFA = 'traffic_weaver.rfa.'
ADAPT = RFA + 'LinearAdaptiveRFA.get_adaptive_transition_points'


@dataclass
class StoreFact:
    event: Event
    lo: Rat
    hi: Rat
    index: Rat            # flat index, loop symbols renamed to k / i
    value: Rat            # loop symbols renamed to k / i
    root: Val             # array the store finally lands in (wrappers stripped)
    k_lo: Optional[Rat] = None
    k_hi: Optional[Rat] = None
    guard: Tuple[Val, ...] = ()
    single: bool = False  # a single sample written directly in the interval loop (lo = its sample number, hi = lo + 1)

    def loc(self):
        return self.event.loc()


def strip_state(v: Val) -> Val:
    """remove loopstate/stored wrappers: the array identity a store chain started from"""
    while True:
        if isinstance(v, Num) and v.length is not None:
            atoms = v.r.atoms()
            if len(atoms) == 1:
                (a,) = atoms
                if sym.ATOMS.head(a) == 'el':
                    ref = sym.ATOMS.args(a)[0]
                    if isinstance(ref, Ref) and ref.term is not None:
                        v = ref.term
                        continue
            return v
        if isinstance(v, Term) and v.head in ('loopstate', 'stored', 'mutated'):
            v = v.args[0]
            continue
        if isinstance(v, Gam):
            # the same buffer whether or not a conditional store was made into it
            a, b = strip_state(v.a), strip_state(v.b)
            if veq(a, b):
                return a
        return v


def is_window_quantity(r: Rat) -> bool:
    """expression built only from window-table entries / Int(...) of them / constants"""
    for a in sym.all_atoms(r):
        h = sym.ATOMS.head(a)
        if h in ('Int',):
            continue
        if h == 'sym':
            name = sym.ATOMS.args(a)[0]
            if str(name).startswith(('self.', 'beta', '$k', 'k', 'n')):
                continue
            return False
        if h == 'el':
            continue
        if h == 'val':
            continue
        return False
    return True


_STRATEGY_CACHE: Dict[tuple, 'Strategy'] = {}


def strategy(prog: Program, clsname: str, a_given: bool = False, inline_adapt: bool = False, tie: Optional[frozenset] = None) -> 'Strategy':
    """`tie`: the window quantities assumed zero, as keys ('AL' | 'AR' | 'BL' | 'BR', offset from k); None = general position (none is zero)"""
    key = (id(prog), id(sym.ATOMS), clsname, a_given, inline_adapt, tie)
    if key not in _STRATEGY_CACHE:
        _STRATEGY_CACHE[key] = Strategy(prog, prog.cls(RFA + clsname), a_given, inline_adapt, tie)
    return _STRATEGY_CACHE[key]


class Strategy:
    def __init__(self, prog: Program, cls: ClassInfo, a_given: bool = False, inline_adapt: bool = False, tie: Optional[frozenset] = None):
        self.prog = prog
        self.cls = cls
        self.a_given = a_given
        self.tie = tie
        self.unkeyed: List[str] = []
        self.issues: List[str] = []
        self.m = sym.sym('m')
        self.n = sym.sym('n')
        self.k = sym.sym('k')
        self.i = sym.sym('i')
        self.X0 = arr_param('self.x', length=self.m)
        self.Y0 = arr_param('self.y', length=self.m)
        self.inline_adapt = inline_adapt
        self._run_init()
        self._run_rfa()

    # ------------------------------------------------------------------ __init__
    def _inline(self, fi: FuncInfo) -> bool:
        if fi.qualname.startswith(SAU):
            return False
        if fi.qualname == ADAPT and not self.inline_adapt:
            return False
        return True

    def _run_init(self):
        init = self.prog.find_method(self.cls, '__init__')
        if init is None:
            raise AnalysisError(f"{self.cls.qualname} has no __init__ in its MRO")
        self.init = init
        params = init.params()[1:]
        if len(params) < 3:
            raise AnalysisError(f"{init.qualname}: expected (x, y, n, ...) parameters")
        args: Dict[str, Val] = {params[0]: self.X0, params[1]: self.Y0, params[2]: Num(self.n)}
        self.param_syms: Dict[str, Rat] = {}
        a = init.node.args
        defaults = dict(zip(params[len(params) - len(a.defaults):] if a.defaults else [], a.defaults))
        for p in params[3:]:
            d = defaults.get(p)
            if isinstance(d, ast.Lambda):
                continue      # callable defaults keep their default
            if p.endswith('_supplier'):
                if isinstance(d, ast.Constant) and d.value is None:
                    args[p] = Term('param', (Const(p),), kind='callable')   # a user-supplied sampling-function factory
                continue
            if isinstance(d, ast.Constant) and d.value is None and not self.a_given:
                args[p] = Const(None)
                continue
            if p.endswith('_kwargs'):
                continue
            s = sym.sym(p)
            self.param_syms[p] = s
            args[p] = Num(s)
        ev = Evaluator(self.prog, inline=self._inline, opaque_kind=REPO_RESULT_KIND)
        self.oid = fresh_serial()
        self.obj = Obj(self.cls, self.oid)
        res, st = ev.run_function(init, args=args, self_val=self.obj, heap={self.oid: {}})
        self.init_ev = ev
        self.issues += ev.issues
        self.init_fields: Dict[str, Val] = dict(st.heap.get(self.oid, {}))
        self.init_raises = [e for e in ev.events if e.kind == 'raise']

    # ------------------------------------------------------------------ rfa()
    def _run_rfa(self):
        rfa = self.prog.find_method(self.cls, 'rfa')
        if rfa is None:
            raise AnalysisError(f"{self.cls.qualname} has no rfa()")
        self.rfa = rfa
        fields: Dict[str, Val] = {}
        self.field_syms: Dict[str, Rat] = {}
        for name, v in self.init_fields.items():
            if isinstance(v, Num) and v.length is None:
                if v.r == self.n:
                    fields[name] = v
                else:
                    s = sym.sym('self.' + name)
                    self.field_syms[name] = s
                    fields[name] = Num(s)
            else:
                fields[name] = v

        def decide(p: Val) -> Optional[bool]:
            # general position: window quantities are not zero (tie branches are dead for every
            # store there: all consuming ranges are empty; see DESIGN 4.6 C06.4)
            return self._decide_window_zero(p)

        ev = Evaluator(self.prog, inline=self._inline, opaque_kind=REPO_RESULT_KIND, decide=decide)
        ev.zero_division_is_value = True       # the strategies compute with NumPy scalars taken from arrays
        self.ev = ev
        self.result, st = ev.run_function(rfa, self_val=self.obj, heap={self.oid: fields})
        self.issues += ev.issues
        self.decided: List[str] = getattr(self, 'decided', [])
        self._collect()
        self._settle_stores()

    def _settle_stores(self):
        """conditional values whose test is a window-zero test left open during the evaluation (made outside the interval loop, e.g. in a table of
        border values computed beforehand) are settled now that the entry is read at a position relative to the interval k"""
        from .truth import tri

        def leaf(q):
            return self._zero_leaf(q)

        def settle(r: Rat) -> Rat:
            if len(r.n.t) + len(r.d.t) > 400:
                return r                # (substitution into a very large expression is not attempted: the open tests stay, the rules answer "not recognised")
            for _ in range(8):
                mp = {}
                for a in sym.all_atoms(r):
                    if sym.ATOMS.head(a) == 'gamma':
                        args = sym.ATOMS.args(a)
                        t = tri(args[0], leaf) if isinstance(args[0], Val) else None
                        if t is not None and isinstance(args[1], Rat) and isinstance(args[2], Rat):
                            mp[a] = args[1] if t else args[2]
                if not mp:
                    return r
                if len(mp) * (len(r.n.t) + len(r.d.t)) > 3000:
                    return r            # (too large to substitute into; the open-test gate below answers "not recognised")
                r = sym.subst(r, mp)
            return r
        for sf in self.stores:
            try:
                sf.value, sf.lo, sf.hi, sf.index = settle(sf.value), settle(sf.lo), settle(sf.hi), settle(sf.index)
            except (ZeroDivisionError, sym.Unknown):
                pass
        # a window-zero test that is still open in a stored value (not settled above, e.g. the value was too large to substitute into) leaves the value
        # unread: no rule may compare it
        for sf in self.stores:
            open_tests = [sym.show_atom(a)[:80] for a in sym.all_atoms(sf.value) if sym.ATOMS.head(a) == 'gamma' and isinstance(sym.ATOMS.args(a)[0], Val)
                          and tri(sym.ATOMS.args(a)[0], lambda q: self._zero_leaf(q)) is not None]
            if open_tests:
                self.issues.append(f"{sf.loc()} a window-zero test is left open in the stored value ({open_tests[0]})")
                break
        # the window rules read which samples a store covers from the bounds of its sample loop: a store that is made for some samples of that range
        # only (a per-sample choice of the piece) is another shape
        ia = _atom(self.i)

        def absorb(sf, g) -> bool:
            """a guard that compares the sample number with a bound free of it cuts the sample range: `i < c` ends it at c, `i >= c` starts it
            there (the bound is taken to lie inside the loop's range, as the documented sub-ranges do)"""
            neg = isinstance(g, P) and g.op == 'not' and len(g.args) == 1
            q = g.args[0] if neg else g
            if not (isinstance(q, P) and q.op == '<' and len(q.args) == 2 and all(isinstance(a_, Num) and a_.length is None for a_ in q.args)):
                return False
            a_, b_ = q.args[0].r, q.args[1].r
            if a_ == self.i and ia not in sym.all_atoms(b_):
                if neg:
                    sf.lo = b_          # not (i < c): i >= c
                else:
                    sf.hi = b_          # i < c
                return True
            if b_ == self.i and ia not in sym.all_atoms(a_):
                if neg:
                    sf.hi = a_ + C(1)   # not (c < i): i <= c
                else:
                    sf.lo = a_ + C(1)   # c < i
                return True
            return False
        for sf in self.stores:
            if sf.single:
                continue
            rest = []
            for g in sf.guard:
                if any(ia in sym.all_atoms(r_) for r_ in g.rats()) and absorb(sf, g):
                    continue
                rest.append(g)
            sf.guard = tuple(rest)
        for sf in self.stores:
            per_sample = [str(g)[:80] for g in sf.guard if any(ia in sym.all_atoms(r_) for r_ in g.rats())]
            if per_sample and not sf.single:
                self.issues.append(f"{sf.loc()} the sample written is selected by a per-sample test ({per_sample[0]}), not by the bounds of the sample loop")
                break

    def window_key(self, r: Rat) -> Optional[Tuple[str, int]]:
        """('AL' | 'AR', c) for entry k + c of the left / right window table, ('BL' | 'BR', c) for int(beta * entry)"""
        def entry(a) -> Optional[Tuple[str, int]]:
            if sym.ATOMS.head(a) != 'el':
                return None
            ref, ix = sym.ATOMS.args(a)
            t = ref.term if isinstance(ref, Ref) else None
            if not (isinstance(t, Term) and t.head == 'item' and len(t.args) == 2 and isinstance(t.args[1], Const) and t.args[1].v in (0, 1)):
                return None
            if not (isinstance(t.args[0], Term) and t.args[0].head == 'call:' + ADAPT):
                return None
            syms = [b for b in ix.atoms() if sym.ATOMS.head(b) == 'sym']
            if len(syms) != 1:
                return None
            c = ix - Rat.atom(syms[0])
            if not (c.is_const() and c.const_value().denominator == 1):
                return None
            return ('AL' if t.args[1].v == 0 else 'AR', int(c.const_value()))
        ats = list(r.atoms())
        if len(ats) != 1 or not (r == Rat.atom(ats[0])):
            return None
        a = ats[0]
        k_ = entry(a)
        if k_ is not None:
            return k_
        if sym.ATOMS.head(a) == 'Int':
            inner = [entry(b) for b in sym.all_atoms(sym.ATOMS.args(a)[0])]
            inner = [x for x in inner if x is not None]
            if len(inner) == 1:
                return ('B' + inner[0][0][1], inner[0][1])
        return None

    def _in_interval_loop(self) -> bool:
        """is the evaluation inside a loop that writes array samples (the interval loop), or outside every loop?"""
        ev = getattr(self, 'ev', None)
        loops = [l for l in (ev.loops if ev is not None else []) if getattr(l, 'node', None) is not None and isinstance(l.node, (ast.For, ast.While))]
        if not loops:
            return True
        node = loops[0].node
        memo = self.__dict__.setdefault('_writes_samples', {})
        if id(node) not in memo:
            writes = any(isinstance(n_, ast.Subscript) and isinstance(n_.ctx, ast.Store) for n_ in ast.walk(node))
            if not writes:
                # ... or hands an array to a helper of the repository that writes into it
                for n_ in ast.walk(node):
                    if isinstance(n_, ast.Call):
                        try:
                            r_ = self.prog.resolve_expr(self.rfa.module, n_.func, {})
                        except Exception:
                            r_ = None
                        if r_ is not None and r_[0] == 'func' and ev.mutated_params(r_[2]):
                            writes = True
                            break
                        if r_ is None and isinstance(n_.func, ast.Name) and n_.func.id not in ('range', 'len', 'int', 'float', 'min', 'max', 'abs', 'enumerate',
                                                                                             'zip', 'list', 'tuple', 'round', 'sum', 'isinstance', 'bool'):
                            writes = True       # a callable handed in (a call-back that fills the interval): it may write
                            break
                        if isinstance(n_.func, ast.Attribute) and isinstance(n_.func.value, ast.Name) and n_.func.value.id in ('self', 'cls'):
                            m_ = self.prog.find_method(self.cls, n_.func.attr)
                            if m_ is not None and ev.mutated_params(m_):
                                writes = True
                                break
            memo[id(node)] = writes
        return memo[id(node)]

    def _zero_leaf(self, q, during_evaluation: bool = False) -> Optional[bool]:
        r = None
        if isinstance(q, P) and q.op == '==':
            a, b = q.args
            for u, v in ((a, b), (b, a)):
                if isinstance(u, Num) and u.is_const() and u.const() == 0 and isinstance(v, Num) and v.length is None \
                        and is_window_quantity(v.r) and not v.r.is_const():
                    r = v.r
                    break
        if r is None:
            return None
        if self.tie is None:
            return False            # general position
        if during_evaluation and not self._in_interval_loop():
            # a tie names entries relative to the interval being written (k, k - 1, k + 1): a test made in another loop (a table of border
            # values computed beforehand) is about that loop's own position and stays open until its entry is read
            return None
        key = self.window_key(r)
        if key is None:
            self.unkeyed.append(str(q))
            return False
        if key in self.tie:
            return True
        if key[0] in ('BL', 'BR') and ('A' + key[0][1], key[1]) in self.tie:
            return True             # int(beta * 0) == 0
        return False

    def _decide_window_zero(self, p: Val) -> Optional[bool]:
        def leaf(q) -> Optional[bool]:
            return self._zero_leaf(q, during_evaluation=True)
        from .truth import tri
        t = tri(p, leaf)
        if t is not None:
            self.decided = getattr(self, 'decided', [])
            self.decided.append(str(p))
        return t

    # ------------------------------------------------------------------ facts
    def _collect(self):
        ev = self.ev
        self.calls = [e for e in ev.events if e.kind == 'call']

        def call_term(suffix):
            ts = [e.data['term'] for e in self.calls if e.data['callee'] is not None and e.data['callee'].qualname == SAU + suffix]
            return ts

        xl = call_term('extend_linspace')
        yc = call_term('extend_constant')
        self.X_ext = xl[0] if xl else None
        self.Y_ext = yc[0] if yc else None
        self.Y_ext_all = yc
        self.X = term_as_num(self.X_ext, True, 'ndarray') if self.X_ext is not None else None
        self.Y = term_as_num(self.Y_ext, True, 'ndarray') if self.Y_ext is not None else None
        adapt = [e for e in self.calls if e.data['callee'] is not None and e.data['callee'].qualname == ADAPT]
        self.adapt_call = adapt[0] if adapt else None
        self.stores: List[StoreFact] = []
        for e in ev.events:
            if e.kind != 'store':
                continue
            loops = [l for l in e.loops]
            idx = e.data['index']
            val = e.data['value']
            vec = self._vector_store(e, idx, val, loops)
            if vec is not None:
                self.stores.append(vec)
                continue
            if not isinstance(idx, Num) or idx.length is not None:
                raise AnalysisError(f"store with a non-scalar index at {e.loc()}: {idx}")
            vnum = val if isinstance(val, Num) else None
            if vnum is None or vnum.length is not None:
                raise AnalysisError(f"store of a non-scalar / non-numeric value at {e.loc()}: {str(val)[:200]}")
            u = has_unsupported(vnum)
            if u and not u.startswith('undefined'):
                # (a value that divides by a zero-width window is kept: it is compared like any other, and matters only where the store's sample
                # range is not empty)
                raise AnalysisError(f"store value at {e.loc()} contains an uninterpreted construct: {u}")
            if len(loops) == 1 and loops[0].kind == 'range':
                # one sample of interval k written directly in the interval loop: a range of one sample
                kctx = loops[0]
                mapping = {_atom(kctx.sym): self.k}
                flat = sym.subst(idx.r, mapping)
                i0 = flat - self.k * self.n
                sf = StoreFact(e, i0, i0 + C(1), flat, sym.subst(vnum.r, mapping), strip_state(e.data['base']), sym.subst(kctx.lo, mapping),
                               sym.subst(kctx.hi, mapping), tuple(g.subst(lambda r: sym.subst(r, mapping)) for g in e.guard))
                sf.single = True
                self.stores.append(sf)
                continue
            if len(loops) != 2 or any(l.kind != 'range' for l in loops):
                raise AnalysisError(f"store at {e.loc()} is not inside the recognised (interval, sample) range loop nest")
            kctx, ictx = loops
            if getattr(kctx, 'stepped', False):
                raise AnalysisError(f"store at {e.loc()}: the interval loop runs over a stepped range (positions, not interval numbers): which interval "
                                    f"a sample belongs to is not read off the loop variable: layout not recognised")
            mapping = {_atom(kctx.sym): self.k, _atom(ictx.sym): self.i}
            ilo, ihi = ictx.lo, ictx.hi
            # the sample loop may count something else than the sample number (e.g. the flat index k*n + i): it is re-parametrised by the
            # sample number i = flat index - k*n when the two differ by a shift that does not depend on the loop variable
            shift = sym.subst(idx.r, {_atom(kctx.sym): self.k}) - (self.k * self.n + ictx.sym)
            whole = shift / self.n
            if not shift.is_zero() and whole.is_const() and whole.const_value().denominator == 1:
                # the interval loop counts from another origin (e.g. over the flat start positions n, 2n, ...): interval number = counter + c
                cshift = C(int(whole.const_value()))
                mapping[_atom(kctx.sym)] = self.k - cshift
                kctx = LoopCtx(kctx.lid, kctx.kind, kctx.var, kctx.sym, kctx.lo + cshift, kctx.hi + cshift, kctx.node) if False else kctx
                klo_, khi_ = kctx.lo + cshift, kctx.hi + cshift
                sf = StoreFact(e, sym.subst(ilo, mapping), sym.subst(ihi, mapping), sym.subst(idx.r, mapping),
                               sym.subst(vnum.r, mapping), strip_state(e.data['base']), klo_, khi_,
                               tuple(g.subst(lambda r: sym.subst(r, mapping)) for g in e.guard))
                self.stores.append(sf)
                continue
            per_interval = (shift / (self.k * self.n))
            if not shift.is_zero() and (_atom(ictx.sym) in set(sym.all_atoms(shift)) or (_atom(self.k) in set(sym.all_atoms(shift)) and not (
                    per_interval.is_const() and per_interval.const_value().denominator == 1))):
                # e.g. loops over flat start positions / flat sample positions: which interval a sample belongs to is not read off the loop variables
                raise AnalysisError(f"store at {e.loc()}: the index written is not (interval loop variable) * n + (sample loop variable) up to a constant "
                                    f"shift: layout not recognised ({sym.show(idx.r)[:80]})")
            if not shift.is_zero() and _atom(ictx.sym) not in set(sym.all_atoms(shift)):
                mapping[_atom(ictx.sym)] = self.i - shift
                ilo, ihi = ictx.lo + shift, ictx.hi + shift
            sf = StoreFact(e, sym.subst(ilo, mapping), sym.subst(ihi, mapping), sym.subst(idx.r, mapping),
                           sym.subst(vnum.r, mapping), strip_state(e.data['base']), sym.subst(kctx.lo, mapping),
                           sym.subst(kctx.hi, mapping), tuple(g.subst(lambda r: sym.subst(r, mapping)) for g in e.guard))
            self.stores.append(sf)

    def _vector_store(self, e, idx, val, loops) -> Optional[StoreFact]:
        """`z[lo:hi] = v` (or `z[lo + arange(m)] = v`) with an element-wise known vector v of hi - lo elements, made once per interval: the same facts as
        `for i in range(lo, hi): z[i] = v[i - lo]`.  A guard `lo < hi` around it is the loop's own emptiness test."""
        if len(loops) != 1 or loops[0].kind != 'range':
            return None
        if isinstance(idx, Term) and idx.head == 'lib:numpy.arange':
            idx = term_as_num(idx, True, 'ndarray')
        if isinstance(idx, Term) and idx.head == 'slice' and len(idx.args) == 3:
            lo, hi, step = idx.args
            if not (isinstance(step, Const) and step.v is None) or not all(isinstance(b, Num) and b.length is None for b in (lo, hi)):
                return None
            lo_r, hi_r = lo.r, hi.r
        elif isinstance(idx, Num) and idx.length is not None:
            lo_r = idx.r - sym.idx()
            if sym.free_idx(lo_r):
                return None
            hi_r = lo_r + idx.length
        else:
            return None
        if not isinstance(val, Num):
            return None
        if val.length is not None and not (val.length == hi_r - lo_r):
            return None
        u = has_unsupported(val)
        if u:
            raise AnalysisError(f"store value at {e.loc()} contains an uninterpreted construct: {u}")
        kctx = loops[0]
        kmap = {_atom(kctx.sym): self.k}
        lo_k, hi_k = sym.subst(lo_r, kmap), sym.subst(hi_r, kmap)
        i0, i1 = lo_k - self.k * self.n, hi_k - self.k * self.n
        v = sym.subst(val.r, kmap)
        v = sym.subst(v, {sym.idx_atom(): self.i - i0})
        guards = []
        for g in e.guard:
            g = g.subst(lambda r: sym.subst(r, kmap))
            if isinstance(g, P) and g.op == '<' and all(isinstance(a_, Num) and a_.length is None for a_ in g.args) and (g.args[1].r - g.args[0].r) == i1 - i0:
                continue            # `if stop <= start: return` in front of the vector store
            guards.append(g)
        return StoreFact(e, i0, i1, self.k * self.n + self.i, v, strip_state(e.data['base']), sym.subst(kctx.lo, kmap), sym.subst(kctx.hi, kmap), tuple(guards))

    def window_tables(self) -> Dict[str, Val]:
        """the three results of get_adaptive_transition_points as seen by rfa()"""
        if self.adapt_call is None:
            return {}
        t = self.adapt_call.data['term']
        return {'AL': Term('item', (t, Const(0))), 'AR': Term('item', (t, Const(1))), 'G': Term('item', (t, Const(2)))}


def _atom(r: Rat) -> int:
    (m, c), = r.n.t.items()
    return m[0][0]


SPEC_PRELUDE = '''
lin = lambda x, p0, p1: p0[1] + (p1[1] - p0[1]) * (x - p0[0]) / (p1[0] - p0[0])
expf = lambda x, p0, p1, a: p0[1] + (p1[1] - p0[1]) * ((x - p0[0]) / (p1[0] - p0[0])) ** a
expxy = lambda x, p0, p1, a: p0[1] + (p1[1] - p0[1]) * (1 - ((p1[0] - x) / (p1[0] - p0[0])) ** a)
elin = lambda x, p0, p1, a: lin(x, p0, p1) * (x - p0[0]) / (p1[0] - p0[0]) + expf(x, p0, p1, a) * (p1[0] - x) / (p1[0] - p0[0])
lexy = lambda x, p0, p1, a: expxy(x, p0, p1, a) * (x - p0[0]) / (p1[0] - p0[0]) + lin(x, p0, p1) * (p1[0] - x) / (p1[0] - p0[0])
'''


class SpecEnv:
    """evaluates specification snippets (assignments / expressions in Python syntax, written in the
    rule files from the documentation) with the same canonicaliser"""

    def __init__(self, prog: Program, env: Dict[str, Val]):
        self.prog = prog
        self.ev = Evaluator(prog)
        self.ev.frames.append(Frame(None, next(iter(prog.modules.values()))))
        self.st = State(dict(env))
        self.exec(SPEC_PRELUDE)

    def exec(self, src: str):
        self.ev.exec_block(ast.parse(src).body, self.st)
        if self.ev.issues:
            raise AnalysisError(f"specification not canonicalisable: {self.ev.issues}")

    def rat(self, src: str) -> Rat:
        v = self.ev.eval(ast.parse(src.strip(), mode='eval').body, self.st)
        if self.ev.issues or not isinstance(v, Num):
            raise AnalysisError(f"specification expression not canonicalisable: {src}: {self.ev.issues} {str(v)[:100]}")
        return v.r

    def val(self, src: str) -> Val:
        return self.ev.eval(ast.parse(src.strip(), mode='eval').body, self.st)
