"""E0: program model - loader, name resolution, callee resolution, inventory."""
from __future__ import annotations

import ast
import os
from dataclasses import dataclass, field
from typing import Dict, List, Optional, Tuple, Union

PKG = 'traffic_weaver'


class AnalysisError(Exception):
    """The checker can no longer see the construct it reasons about (exit 2)."""


@dataclass
class FuncInfo:
    qualname: str                 # module.func or module.Class.method
    module: 'ModuleInfo'
    node: ast.FunctionDef
    cls: Optional['ClassInfo'] = None

    @property
    def name(self):
        return self.node.name

    @property
    def file(self):
        return self.module.relpath

    @property
    def is_static(self):
        return any(isinstance(d, ast.Name) and d.id == 'staticmethod' for d in self.node.decorator_list)

    @property
    def is_classmethod(self):
        return any(isinstance(d, ast.Name) and d.id == 'classmethod' for d in self.node.decorator_list)

    @property
    def is_property(self):
        return any((isinstance(d, ast.Name) and d.id in ('property', 'cached_property')) or (isinstance(d, ast.Attribute) and d.attr in ('cached_property',))
                   for d in self.node.decorator_list)

    def loc(self, node=None):
        n = node if node is not None else self.node
        return f"{self.file}:{getattr(n, 'lineno', self.node.lineno)}"

    def params(self) -> List[str]:
        a = self.node.args
        return [x.arg for x in a.posonlyargs + a.args]

    def body_nodes(self):
        b = self.node.body
        if b and isinstance(b[0], ast.Expr) and isinstance(b[0].value, ast.Constant) and isinstance(b[0].value.value, str):
            return b[1:]
        return b


@dataclass
class ClassInfo:
    qualname: str
    module: 'ModuleInfo'
    node: ast.ClassDef
    methods: Dict[str, FuncInfo] = field(default_factory=dict)
    bases: List[str] = field(default_factory=list)      # resolved qualnames (repo) or dotted names

    @property
    def name(self):
        return self.node.name


@dataclass
class ModuleInfo:
    name: str                    # dotted
    path: str
    relpath: str
    tree: ast.Module
    source: str
    functions: Dict[str, FuncInfo] = field(default_factory=dict)
    classes: Dict[str, ClassInfo] = field(default_factory=dict)
    constants: Dict[str, ast.expr] = field(default_factory=dict)
    imports: Dict[str, Tuple[str, Optional[str]]] = field(default_factory=dict)   # local -> (module, attr|None)
    is_pkg: bool = False


class Program:
    def __init__(self, root: str):
        self.root = os.path.abspath(root)
        self.src = os.path.join(self.root, 'src')
        self.pkgdir = os.path.join(self.src, PKG)
        if not os.path.isdir(self.pkgdir):
            raise AnalysisError(f"package directory not found: {self.pkgdir}")
        self.modules: Dict[str, ModuleInfo] = {}
        self._load()

    # ------------------------------------------------------------------ loading
    def _load(self):
        for dirpath, dirnames, filenames in os.walk(self.pkgdir):
            dirnames[:] = sorted(d for d in dirnames if d != '__pycache__')
            for fn in sorted(filenames):
                if not fn.endswith('.py'):
                    continue
                path = os.path.join(dirpath, fn)
                rel = os.path.relpath(path, self.src)
                parts = rel[:-3].split(os.sep)
                is_pkg = parts[-1] == '__init__'
                if is_pkg:
                    parts = parts[:-1]
                name = '.'.join(parts)
                with open(path, encoding='utf-8') as f:
                    source = f.read()
                try:
                    tree = ast.parse(source, filename=path)
                except SyntaxError as e:
                    raise AnalysisError(f"cannot parse {path}: {e}")
                mi = ModuleInfo(name, path, os.path.relpath(path, self.root), tree, source, is_pkg=is_pkg)
                self.modules[name] = mi
        for mi in self.modules.values():
            self._index(mi)
        for mi in self.modules.values():
            for ci in mi.classes.values():
                ci.bases = [self._resolve_base(mi, b) for b in ci.node.bases]

    def _index(self, mi: ModuleInfo):
        for node in mi.tree.body:
            if isinstance(node, ast.FunctionDef):
                mi.functions[node.name] = FuncInfo(f"{mi.name}.{node.name}", mi, node)
            elif isinstance(node, ast.ClassDef):
                ci = ClassInfo(f"{mi.name}.{node.name}", mi, node)
                for sub in node.body:
                    if isinstance(sub, ast.FunctionDef):
                        # `@name.setter` / `@name.deleter` define the other halves of the property `name`: kept under their own keys, the getter stays
                        role = next((d.attr for d in sub.decorator_list if isinstance(d, ast.Attribute) and d.attr in ('setter', 'deleter', 'getter')
                                     and isinstance(d.value, ast.Name) and d.value.id == sub.name), None)
                        key = sub.name if role in (None, 'getter') else f"{sub.name}.{role}"
                        ci.methods[key] = FuncInfo(f"{ci.qualname}.{key}", mi, sub, ci)
                mi.classes[node.name] = ci
            elif isinstance(node, ast.Assign) and len(node.targets) == 1 and isinstance(node.targets[0], ast.Name):
                mi.constants[node.targets[0].id] = node.value
            elif isinstance(node, ast.AnnAssign) and isinstance(node.target, ast.Name) and node.value is not None:
                mi.constants[node.target.id] = node.value          # `NAME: Type = value`
            elif isinstance(node, (ast.Import, ast.ImportFrom)):
                self._index_import(mi, node)

    def _abs_module(self, mi: ModuleInfo, node: ast.ImportFrom) -> str:
        if node.level == 0:
            return node.module or ''
        base = mi.name.split('.')
        if not mi.is_pkg:
            base = base[:-1]
        if node.level > 1:
            base = base[:-(node.level - 1)]
        return '.'.join(base + ([node.module] if node.module else []))

    def _index_import(self, mi: ModuleInfo, node, table=None):
        table = mi.imports if table is None else table
        if isinstance(node, ast.Import):
            for a in node.names:
                if a.asname:
                    table[a.asname] = (a.name, None)
                else:
                    top = a.name.split('.')[0]
                    table[top] = (top, None)
        else:
            mod = self._abs_module(mi, node)
            for a in node.names:
                if a.name == '*':
                    raise AnalysisError(f"star import in {mi.relpath}:{node.lineno} defeats name resolution")
                table[a.asname or a.name] = (mod, a.name)

    def _resolve_base(self, mi, b: ast.expr) -> str:
        r = self.resolve_expr(mi, b)
        if r is None:
            return ast.unparse(b)
        return r[1]

    # ------------------------------------------------------------------ resolution
    def resolve_dotted(self, dotted: str):
        """dotted name -> ('func', FuncInfo) | ('class', ClassInfo) | ('module', ModuleInfo)
        | ('const', (ModuleInfo, ast.expr)) | ('lib', dotted)"""
        seen = set()
        while True:
            if dotted in seen:
                return ('lib', dotted)
            seen.add(dotted)
            if dotted in self.modules:
                return ('module', self.modules[dotted])
            parts = dotted.split('.')
            # longest module prefix
            for i in range(len(parts) - 1, 0, -1):
                mname = '.'.join(parts[:i])
                if mname in self.modules:
                    mi = self.modules[mname]
                    rest = parts[i:]
                    head = rest[0]
                    if head in mi.functions and len(rest) == 1:
                        return ('func', mi.functions[head])
                    if head in mi.classes:
                        ci = mi.classes[head]
                        if len(rest) == 1:
                            return ('class', ci)
                        m = self.find_method(ci, rest[1])
                        if m is not None and len(rest) == 2:
                            return ('func', m)
                        return ('lib', dotted)
                    if head in mi.constants and len(rest) == 1:
                        return ('const', (mi, mi.constants[head]))
                    if head in mi.constants and len(rest) > 1:
                        return ('constattr', (mi, mi.constants[head], tuple(rest[1:])))
                    if head in mi.imports:
                        mod, attr = mi.imports[head]
                        dotted = '.'.join([mod] + ([attr] if attr else []) + rest[1:])
                        break
                    sub = mname + '.' + head
                    if sub in self.modules:
                        dotted = '.'.join([sub] + rest[1:])
                        break
                    return ('lib', dotted)
            else:
                return ('lib', dotted)

    def dotted_of(self, mi: ModuleInfo, expr: ast.expr, local_imports=None) -> Optional[str]:
        """Name / Attribute chain rooted in an imported or module-level name -> dotted path"""
        chain = []
        e = expr
        while isinstance(e, ast.Attribute):
            chain.append(e.attr)
            e = e.value
        if not isinstance(e, ast.Name):
            return None
        chain.reverse()
        root = e.id
        if local_imports and root in local_imports:
            mod, attr = local_imports[root]
            return '.'.join([mod] + ([attr] if attr else []) + chain)
        if root in mi.imports:
            mod, attr = mi.imports[root]
            return '.'.join([mod] + ([attr] if attr else []) + chain)
        if root in mi.functions or root in mi.classes or root in mi.constants:
            return '.'.join([mi.name, root] + chain)
        return None

    def resolve_expr(self, mi: ModuleInfo, expr: ast.expr, local_imports=None):
        d = self.dotted_of(mi, expr, local_imports)
        if d is None:
            return None
        kind, obj = self.resolve_dotted(d)
        if kind == 'lib':
            return ('lib', canonical_lib(obj))
        if kind == 'func':
            return ('func', obj.qualname, obj)
        if kind == 'class':
            return ('class', obj.qualname, obj)
        if kind == 'module':
            return ('module', obj.name, obj)
        if kind == 'const':
            return ('const', d, obj)
        if kind == 'constattr':
            return ('constattr', d, obj)
        return None

    # ------------------------------------------------------------------ classes
    def class_by_qualname(self, q: str) -> Optional[ClassInfo]:
        mod, _, name = q.rpartition('.')
        mi = self.modules.get(mod)
        return mi.classes.get(name) if mi else None

    def mro(self, ci: ClassInfo) -> List[ClassInfo]:
        out, todo = [], [ci]
        while todo:
            c = todo.pop(0)
            if c in out:
                continue
            out.append(c)
            for b in c.bases:
                bc = self.class_by_qualname(b)
                if bc is not None:
                    todo.append(bc)
        return out

    def find_method(self, ci: ClassInfo, name: str) -> Optional[FuncInfo]:
        for c in self.mro(ci):
            if name in c.methods:
                return c.methods[name]
        return None

    def subclasses(self, ci: ClassInfo) -> List[ClassInfo]:
        out = []
        for mi in self.modules.values():
            for c in mi.classes.values():
                if c is not ci and ci in self.mro(c):
                    out.append(c)
        return out

    def is_abstract(self, ci: ClassInfo) -> bool:
        """a class is abstract if some method found through its MRO is still
        decorated @abstractmethod"""
        seen = set()
        for c in self.mro(ci):
            for name, m in c.methods.items():
                if name in seen:
                    continue
                seen.add(name)
                if any((isinstance(d, ast.Name) and d.id == 'abstractmethod') or
                       (isinstance(d, ast.Attribute) and d.attr == 'abstractmethod') for d in m.node.decorator_list):
                    return True
        return False

    # ------------------------------------------------------------------ lookup helpers
    def func(self, qualname: str) -> FuncInfo:
        kind, obj = self.resolve_dotted(qualname)
        if kind != 'func':
            raise AnalysisError(f"anchor function {qualname} not found in the package")
        return obj

    def cls(self, qualname: str) -> ClassInfo:
        kind, obj = self.resolve_dotted(qualname)
        if kind != 'class':
            raise AnalysisError(f"anchor class {qualname} not found in the package")
        return obj

    def all_functions(self) -> List[FuncInfo]:
        out = []
        for mi in self.modules.values():
            out.extend(mi.functions.values())
            for ci in mi.classes.values():
                out.extend(ci.methods.values())
        return out

    def inventory(self) -> dict:
        nf = sum(len(m.functions) for m in self.modules.values())
        nc = sum(len(m.classes) for m in self.modules.values())
        nm = sum(len(c.methods) for m in self.modules.values() for c in m.classes.values())
        ncalls = sum(1 for m in self.modules.values() for n in ast.walk(m.tree) if isinstance(n, ast.Call))
        return {'modules': len(self.modules), 'functions': nf, 'classes': nc, 'methods': nm, 'call_sites': ncalls}


LIB_ALIASES = {
    'os.path': 'os.path',
}


def canonical_lib(dotted: str) -> str:
    """normalise well-known re-exports so rules can match one name"""
    if dotted.startswith('os.path.') or dotted == 'os.path':
        return dotted
    return dotted


def dynamic_feature_scan(prog: Program) -> List[str]:
    """Dynamic features the resolver does not model (DESIGN section 6): refused, not ignored."""
    bad = []
    for mi in prog.modules.values():
        for n in ast.walk(mi.tree):
            if isinstance(n, ast.Global):
                bad.append(f"{mi.relpath}:{n.lineno} global statement")
            elif isinstance(n, ast.Call) and isinstance(n.func, ast.Name) and n.func.id in ('exec', 'eval', '__import__'):
                bad.append(f"{mi.relpath}:{n.lineno} {n.func.id}()")
            # getattr / setattr with computed names are interpreted by the evaluator when the name is a literal at the call
            # (after inlining); a name it cannot resolve is reported there as an unsupported construct.  The alias analysis
            # treats such a setattr as a store to every field.
    return bad


# --------------------------------------------------------------------------- match statements
def desugar_match(node: 'ast.Match'):
    """`match subject: case ...` over value / singleton / or / wildcard / capture patterns as the equivalent if-elif chain
    (statements; the first one binds the subject when it is not a plain name). None when a pattern is outside that fragment."""
    pre = []
    subj = node.subject
    if not isinstance(subj, (ast.Name, ast.Tuple)):
        tmp = ast.Name(id='__match_subject__', ctx=ast.Store())
        pre.append(ast.copy_location(ast.Assign(targets=[tmp], value=subj, lineno=node.lineno), node))
        subj = ast.Name(id='__match_subject__', ctx=ast.Load())

    def test_of(pat, subj=subj):
        """(test expression or True for irrefutable, captured name or None)"""
        if isinstance(pat, ast.MatchSequence) and isinstance(subj, ast.Tuple) and len(pat.patterns) == len(subj.elts) \
                and not any(isinstance(p_, ast.MatchStar) for p_ in pat.patterns) \
                and all(isinstance(e_, (ast.Name, ast.Constant, ast.Attribute)) for e_ in subj.elts):
            # a tuple display matched against a sequence pattern of the same length: element by element
            tests = []
            for p_, e_ in zip(pat.patterns, subj.elts):
                t_, nm_ = test_of(p_, e_)
                if t_ is None or nm_ is not None:
                    return None, None
                if t_ is not True:
                    tests.append(t_)
            if not tests:
                return True, None
            return (tests[0] if len(tests) == 1 else ast.BoolOp(op=ast.And(), values=tests)), None
        if isinstance(pat, ast.MatchSequence) and isinstance(subj, (ast.Name, ast.Subscript)) and not any(isinstance(p_, ast.MatchStar) for p_ in pat.patterns):
            # a fixed-length sequence pattern against a value: the length test and the element tests (the subject is taken to be a sequence:
            # a str / bytes / mapping subject would not match - the rules that read the result say what the subject is)
            tests = [ast.Compare(left=ast.Call(func=ast.Name(id='len', ctx=ast.Load()), args=[subj], keywords=[]), ops=[ast.Eq()],
                                 comparators=[ast.Constant(value=len(pat.patterns))])]
            for i_, p_ in enumerate(pat.patterns):
                t_, nm_ = test_of(p_, ast.Subscript(value=subj, slice=ast.Constant(value=i_), ctx=ast.Load()))
                if t_ is None or nm_ is not None:
                    return None, None
                if t_ is not True:
                    tests.append(t_)
            return (tests[0] if len(tests) == 1 else ast.BoolOp(op=ast.And(), values=tests)), None
        if isinstance(pat, ast.MatchClass) and not pat.patterns and not pat.kwd_patterns:
            # `case int():` - an instance test
            return ast.Call(func=ast.Name(id='isinstance', ctx=ast.Load()), args=[subj, pat.cls], keywords=[]), None
        if isinstance(pat, ast.MatchValue):
            return ast.Compare(left=subj, ops=[ast.Eq()], comparators=[pat.value]), None
        if isinstance(pat, ast.MatchSingleton):
            return ast.Compare(left=subj, ops=[ast.Is()], comparators=[ast.Constant(value=pat.value)]), None
        if isinstance(pat, ast.MatchAs) and pat.pattern is None:
            return True, pat.name
        if isinstance(pat, ast.MatchAs):
            t, nm = test_of(pat.pattern, subj)
            return (None, None) if (t is None or nm is not None) else (t, pat.name)
        if isinstance(pat, ast.MatchOr):
            ts = [test_of(p_, subj) for p_ in pat.patterns]
            if any(t is None or nm is not None for t, nm in ts):
                return None, None
            if any(t is True for t, _ in ts):
                return True, None
            return ast.BoolOp(op=ast.Or(), values=[t for t, _ in ts]), None
        return None, None

    chain = None
    tail = None
    for case in node.cases:
        t, nm = test_of(case.pattern)
        if t is None:
            return None
        body = list(case.body)
        if nm is not None:
            if case.guard is not None:
                return None
            body = [ast.Assign(targets=[ast.Name(id=nm, ctx=ast.Store())], value=subj, lineno=case.pattern.lineno)] + body
        if case.guard is not None:
            t = case.guard if t is True else ast.BoolOp(op=ast.And(), values=[t, case.guard])
        if t is True:
            if tail is None:
                chain = body
            else:
                tail.orelse = body
            tail = 'closed'
            break
        nif = ast.If(test=t, body=body, orelse=[])
        ast.copy_location(nif, case.pattern)
        if tail is None:
            chain = [nif]
        else:
            tail.orelse = [nif]
        tail = nif
    out = pre + (chain or [])
    for n in out:
        for sub in ast.walk(n):
            if not hasattr(sub, 'lineno') and isinstance(sub, (ast.expr, ast.stmt)):
                ast.copy_location(sub, node)
        ast.fix_missing_locations(n)
    return out
