"""Finite-model evaluation of element-wise closed forms.

A vectorised implementation of the nearest-sample searches evaluates (in the evaluator's element-wise mode) to a closed form over

    cle(X, v) = #{j : X[j] <= v}      clt(X, v) = #{j : X[j] < v}      len(X)      X[<index expression>]      Q[i]

combined by +, -, min, max, int(), and conditionals on comparisons of such terms.  Such a form depends on the data only through the order type of
(X, v) and - for the tie rule - through one comparison of two differences.  It is therefore decided by evaluating the *form* (not the code) on every
sorted X of up to four elements over a small lattice and every query over a slightly wider lattice: all order types, with equal elements, exact
mid-points and both out-of-range sides.  Nothing of the repository is executed.
"""
from fractions import Fraction
from itertools import combinations_with_replacement
from typing import Dict, List, Optional

from . import sym
from .sym import Rat
from .values import Num, Const, P, Gam, Ref, Term, Val


class OutOfRange(Exception):
    """an element read outside the array (IndexError in the real code)"""


class NotClosed(Exception):
    """the form mentions something this evaluator does not interpret"""


class Model:
    def __init__(self, X: List[int], Q: List[int], i: int, lens: Dict[int, str], labels=('X', 'Q')):
        self.X, self.Q, self.i = X, Q, i
        self.lens = lens            # atom id of a length symbol -> 'X' / 'Q'
        self.lx, self.lq = labels

    def arr(self, ref) -> List[int]:
        if isinstance(ref, Ref) and ref.term is None:
            if ref.label == self.lx:
                return self.X
            if ref.label == self.lq:
                return self.Q
        raise NotClosed(f"array {str(ref)[:40]}")

    def rat(self, r: Rat) -> Fraction:
        vals: Dict[int, Fraction] = {}

        def poly(p) -> Fraction:
            tot = Fraction(0)
            for mono, c in p.t.items():
                term = Fraction(c)
                for a, e in mono:
                    if a not in vals:
                        vals[a] = self.atom(a)
                    term *= vals[a] ** e
                tot += term
            return tot
        d = poly(r.d)
        if d == 0:
            raise OutOfRange('division by zero')
        return poly(r.n) / d

    def atom(self, a: int) -> Fraction:
        h, args = sym.ATOMS.head(a), sym.ATOMS.args(a)
        if a == sym.idx_atom():
            return Fraction(self.i)
        if h == 'sym':
            if a in self.lens:
                return Fraction(len(self.X if self.lens[a] == 'X' else self.Q))
            raise NotClosed(f"symbol {sym.show_atom(a)}")
        if h == 'Len' and isinstance(args[0], Ref):
            return Fraction(len(self.arr(args[0])))
        if h == 'el':
            arr = self.arr(args[0])
            ix = self.rat(args[1])
            if ix.denominator != 1:
                raise OutOfRange(f"non-integer index {ix}")
            ix = int(ix)
            if not (-len(arr) <= ix < len(arr)):
                raise OutOfRange(f"index {ix} into an array of {len(arr)}")
            return Fraction(arr[ix])
        if h in ('cle', 'clt'):
            arr = self.arr(args[0])
            v = self.rat(args[1])
            return Fraction(sum(1 for x in arr if (x <= v if h == 'cle' else x < v)))
        if h == 'gamma':
            return self.rat(args[1] if self.pred(args[0]) else args[2])
        if h in ('min2', 'max2'):
            vals = [self.rat(x) for x in args]
            return min(vals) if h == 'min2' else max(vals)
        if h == 'Int':
            import math
            return Fraction(math.trunc(self.rat(args[0])))
        if h == 'FloorDiv':
            d = self.rat(args[1])
            if d == 0:
                raise OutOfRange('division by zero')
            return Fraction(self.rat(args[0]) // d)
        if h == 'Mod':
            d = self.rat(args[1])
            if d == 0:
                raise OutOfRange('division by zero')
            return Fraction(self.rat(args[0]) % d)
        if h == 'Abs':
            return abs(self.rat(args[0]))
        raise NotClosed(f"{h}: {sym.show_atom(a)[:60]}")

    def num(self, v: Val) -> Fraction:
        if isinstance(v, Num):
            return self.rat(v.r)
        if isinstance(v, Gam):
            return self.num(v.a if self.pred(v.pred) else v.b)
        raise NotClosed(str(v)[:60])

    def pred(self, q: Val) -> bool:
        if isinstance(q, Const):
            return bool(q.v)
        if isinstance(q, P):
            if q.op == 'not':
                return not self.pred(q.args[0])
            if q.op == 'and':
                return all(self.pred(a) for a in q.args)
            if q.op == 'or':
                return any(self.pred(a) for a in q.args)
            if q.op in ('<', '<=', '==', '!=', '>', '>='):
                a, b = self.num(q.args[0]), self.num(q.args[1])
                return {'<': a < b, '<=': a <= b, '==': a == b, '!=': a != b, '>': a > b, '>=': a >= b}[q.op]
        if isinstance(q, Term) and q.head == 'mask' and q.args:
            return self.pred(q.args[0])
        raise NotClosed('predicate ' + str(q)[:60])


def sorted_arrays(values=(0, 2, 4, 6), max_len=4):
    for n in range(1, max_len + 1):
        for xs in combinations_with_replacement(values, n):
            yield list(xs)


def spec_index(kind: str, X: List[int], q, fill: bool) -> int:
    """the documented answer, by counting"""
    L = len(X)
    cle = sum(1 for x in X if x <= q)
    clt = sum(1 for x in X if x < q)
    if kind == 'lower':
        return cle - 1 if cle > 0 else (0 if fill else -1)
    if kind == 'higher':
        return clt if clt < L else (L - 1 if fill else L)
    if clt == 0:
        return 0
    if clt == L:
        return L - 1
    return clt - 1 if (q - X[clt - 1]) <= (X[clt] - q) else clt
