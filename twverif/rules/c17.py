"""C17 - array helpers, interval view and block averaging keep their contracts (DESIGN 4.17)

Each helper's result is compared, by value numbering with congruence, against the documented construction written in the
module's own vocabulary (arguments normalised by signature binding).  When a helper is rewritten with a different set of
library calls the idiom is not recognised -> ANALYSIS-ERROR (exit 2), never a violation."""
from __future__ import annotations

import ast
from typing import Dict, List, Optional

from .. import sym
from ..sym import Rat, C
from ..values import Num, Const, Tup, Term, Obj, P, Val, Kw, Gam, veq, walk_vals, arr_param, term_as_num, fresh_serial
from ..model import AnalysisError
from ..symeval import Evaluator, State, Frame
from .common import same_extent, show, REPO_RESULT_KIND, S, ModSpec, same, arr_term, targ, SAU, need_num, run as runf

INTERVAL = 'traffic_weaver.interval.IntervalArray'
PROC = 'traffic_weaver.process.'
SAUMOD = 'traffic_weaver.sorted_array_utils'


def heads(v) -> List[str]:
    return sorted(t.head for t in walk_vals(v) if isinstance(t, Term) and t.head.startswith(('lib:', 'method:')))


def compare(ctx, rule, inst, code: Val, spec: Val, fi, key, strict_idiom=True):
    """value-number comparison with the idiom gate"""
    if same(code, spec) or (isinstance(code, Num) and isinstance(spec, Num) and code.struct_eq(spec)):
        return ctx.ok(rule, inst, '', fi.loc(), fi.qualname, key)
    from .common import expand_linspace
    ce, se = expand_linspace(code), expand_linspace(spec)
    if same(ce, se) or (isinstance(ce, Num) and isinstance(se, Num) and ce.struct_eq(se)):
        return ctx.ok(rule, inst, 'equal element by element with linspace(s, e, k)[i] = s + i*(e - s)/(k - 1)', fi.loc(), fi.qualname, key)
    from .common import resolve_layout
    cl, sl = resolve_layout(code), resolve_layout(spec)
    if (cl is not code or sl is not spec) and (same(cl, sl) or (isinstance(cl, Num) and isinstance(sl, Num) and cl.struct_eq(sl))):
        return ctx.ok(rule, inst, 'equal element by element (two-dimensional layout resolved: flat[i] = M[i // columns, i % columns])', fi.loc(), fi.qualname, key)
    hc, hs = heads(code), heads(spec)
    from .common import tolerance_heads
    tol = [h for h in tolerance_heads(code) if 'lib:' + h not in hs]
    if tol:
        return ctx.fail(rule, inst, f"the construction is selected / altered by a tolerance-based comparison {tol}: with the default absolute and relative tolerances the "
                        f"outcome depends on the scale of the data (the documented construction is exact)\ncode: {show(arr_term(code), 300)}", fi.loc(), fi.qualname, key)
    from .common import VALUE_CHANGING
    vc = sorted(h for h in set(hc) - set(hs) if h in VALUE_CHANGING)
    if vc:
        return ctx.fail(rule, inst, f"the documented construction is post-processed by {vc} (rounding / clamping / re-ordering changes values the construction "
                                    f"keeps exactly, e.g. the original elements)\ncode: {show(arr_term(code), 300)}", fi.loc(), fi.qualname, key)
    if strict_idiom and not (set(hc) <= set(hs)):
        return ctx.unknown(rule, inst, f"construction not recognised: it uses library calls outside the documented construction: {sorted(set(hc) - set(hs))} (documented {sorted(set(hs))})\ncode: {show(arr_term(code), 300)}",
                           fi.loc(), fi.qualname, key)
    from .common import foreign_heads, split_branches
    fh = foreign_heads(code, spec)
    if isinstance(code, Gam) and not isinstance(spec, Gam):
        # a construction chosen by a condition: every branch has to be the documented one.  A differing branch taken under a condition on modelled
        # quantities (lengths, parameters) is reachable - a violation; under a condition on something the rule does not model it is unknown.
        def modelled(p_):
            return not any(isinstance(t, Term) and (t.head in ('attr', 'getattr', 'unbound', 'item') or t.head.startswith(('lib:', 'method:', 'call:')))
                           for t in walk_vals(p_))
        differing = [(pth, val) for pth, val in split_branches(code) if not (same(val, spec) or (isinstance(val, Num) and isinstance(spec, Num) and val.struct_eq(spec)))]
        if not differing:
            return ctx.ok(rule, inst, '', fi.loc(), fi.qualname, key)
        for pth, val in differing:
            if all(modelled(p_) for p_ in pth) and not foreign_heads(val, spec):
                return ctx.fail(rule, inst, f"when {' and '.join(str(p_)[:80] for p_ in pth)}:\ncode: {show(arr_term(val), 300)}\nspec: {show(arr_term(spec), 300)}",
                                fi.loc(), fi.qualname, key)
        fh = fh + ['conditional on a quantity the rule does not model']
    elif any(isinstance(t, Gam) for t in walk_vals(code)) and not any(isinstance(t, Gam) for t in walk_vals(spec)):
        fh = fh + ['conditional on a quantity the rule does not model']
    if strict_idiom and fh:
        return ctx.unknown(rule, inst, f"construction not recognised: the value is built with constructs the documented construction does not use and the canonicaliser "
                                       f"does not resolve: {fh}\ncode: {show(arr_term(code), 300)}", fi.loc(), fi.qualname, key)
    return ctx.fail(rule, inst, f"code: {show(arr_term(code), 400)}\nspec: {show(arr_term(spec), 400)}", fi.loc(), fi.qualname, key)


def lt2(num_sym: Rat):
    def decide_small(p):
        if isinstance(p, P) and p.op == '<' and isinstance(p.args[0], Num) and p.args[0].r == num_sym and p.args[1].is_const() and p.args[1].const() == 2:
            return True
        return None

    def decide_big(p):
        if isinstance(p, P) and p.op == '<' and isinstance(p.args[0], Num) and p.args[0].r == num_sym and p.args[1].is_const() and p.args[1].const() == 2:
            return False
        return None
    return decide_small, decide_big


def check_oversample(ctx):
    ctx.rule('C17.1', 'oversample_linspace(a, k) == append(linspace(a[:-1], a[1:], k+1)[:-1].T.flatten(), a[-1]) (every gap: k points from the left element, '
                      'end point dropped, step axis minor; last element appended) and oversample_piecewise_constant(a, k) == a.repeat(k)[:-k+1]; k < 2 returns '
                      'the input; new points are created by linspace only (endpoint-exact; arange with a float step has a rounding-dependent length)')
    L = sym.sym('L')
    a = arr_param('a', length=L)
    k = S('num')
    small, big = lt2(k.r)
    for name, src in (('oversample_linspace', 'np.append(np.linspace(a[:-1], a[1:], num=num + 1)[:-1].T.flatten(), a[-1])'),
                      ('oversample_piecewise_constant', 'a.repeat(num)[: -num + 1]')):
        fi = ctx.prog.func(SAU + name)
        if fi.params() != ['a', 'num']:
            raise AnalysisError(f"C17.1: {name} signature changed: {fi.params()}")
        ev = Evaluator(ctx.prog, opaque_kind=REPO_RESULT_KIND, decide=big)
        res, st = ev.run_function(fi, args={'a': a, 'num': k})
        if ev.issues:
            raise AnalysisError(f"C17.1: {name} not canonicalisable: {ev.issues[:3]}")
        sp = ModSpec(ctx.prog, SAUMOD, {'a': a, 'num': k})
        compare(ctx, 'C17.1', f"{name}(a, k), k >= 2: documented construction", res, sp.val(src), fi, f"{name}:big")
        ev2 = Evaluator(ctx.prog, opaque_kind=REPO_RESULT_KIND, decide=small)
        res2, _ = ev2.run_function(fi, args={'a': a, 'num': k})
        ctx.check(same(res2, a), 'C17.1', f"{name}(a, k), k < 2: the input is returned", show(res2, 120), fi.loc(), fi.qualname, f"{name}:small")
        # the guard itself is `num < 2`
        guards = [g for e in ev.events + ev2.events for g in e.guard]
        ctx.sample({'rule': 'C17.1', 'helper': name, 'value': show(arr_term(res), 200)})
    no_arange(ctx, [SAU + 'oversample_linspace', SAU + 'extend_linspace'])


def no_arange(ctx, quals):
    for q in quals:
        fi = ctx.prog.func(q)
        from .. import api
        bad = [(c, d) for f, c, d in api.lib_call_sites(ctx.prog, [fi]) if d in ('numpy.arange',)]
        ctx.check(not bad, 'C17.1', f"{fi.name}: grid points are created by linspace, not by arange with a computed step (length would depend on rounding)",
                  f"{[fi.loc(c) for c, d in bad]}", fi.loc(), fi.qualname, f"arange:{fi.name}")


def check_extend(ctx):
    ctx.rule('C17.2', 'extend_linspace / extend_constant: for each direction literal the result is the original with n elements inserted at index 0 (both|left) '
                      'and/or at len(a) (both|right): linspace(lstart, a[0], n+1)[:-1] and linspace(a[-1], rstop, n+1)[1:] (the element adjacent to the '
                      'original excluded), resp. n copies of a[0] / a[-1]; default mirror points lstart = a[0] - (a[n] - a[0]), rstop = a[-1] + (a[-1] - a[-1-n]); '
                      'explicit lstart / rstop (0 included) override only the default; an unknown direction adds nothing')
    L = sym.sym('L')
    a = arr_param('a', length=L)
    n = S('n')
    fi = ctx.prog.func(SAU + 'extend_linspace')
    if fi.params() != ['a', 'n', 'direction', 'lstart', 'rstop']:
        raise AnalysisError(f"C17.2: extend_linspace signature changed: {fi.params()}")
    LEFT = 'a = np.insert(a, 0, np.linspace(LS, a[0], n + 1)[:-1])\n'
    RIGHT = 'a = np.insert(a, len(a), np.linspace(a[-1], RS, n + 1)[1:])\n'
    for direction in ('both', 'left', 'right'):
        for ls_tag, ls in (('default', Const(None)), ('given', S('lstart')), ('zero', Num(C(0)))):
            for rs_tag, rs in (('default', Const(None)), ('given', S('rstop')), ('zero', Num(C(0)))):
                if (direction == 'left' and rs_tag != 'default') or (direction == 'right' and ls_tag != 'default'):
                    continue
                if ls_tag == 'zero' and rs_tag == 'given' or ls_tag == 'given' and rs_tag == 'zero':
                    continue
                ev = Evaluator(ctx.prog, opaque_kind=REPO_RESULT_KIND)
                res, st = ev.run_function(fi, args={'a': a, 'n': n, 'direction': Const(direction), 'lstart': ls, 'rstop': rs})
                if ev.issues:
                    raise AnalysisError(f"C17.2: extend_linspace not canonicalisable: {ev.issues[:3]}")
                sp = ModSpec(ctx.prog, SAUMOD, {'a': a, 'n': n, 'lstart': ls, 'rstop': rs})
                sp.exec('a = np.asarray(a, dtype=float)\n')
                if direction in ('both', 'left'):
                    sp.exec('LS = (a[0] - (a[n] - a[0]))\n' if ls_tag == 'default' else 'LS = lstart\n')
                    sp.exec(LEFT)
                if direction in ('both', 'right'):
                    sp.exec('RS = (a[-1] + (a[-1] - a[-1 - n]))\n' if rs_tag == 'default' else 'RS = rstop\n')
                    sp.exec(RIGHT)
                compare(ctx, 'C17.2', f"extend_linspace(direction={direction}, lstart {ls_tag}, rstop {rs_tag})", res, sp.val('a'), fi,
                        f"extlin:{direction}:{ls_tag}:{rs_tag}")
    ev = Evaluator(ctx.prog, opaque_kind=REPO_RESULT_KIND)
    res, _ = ev.run_function(fi, args={'a': a, 'n': n, 'direction': Const('none'), 'lstart': Const(None), 'rstop': Const(None)})
    compare(ctx, 'C17.2', 'extend_linspace: a direction that is neither both/left/right adds nothing', res, Num(a.r, a.length, 'ndarray'), fi, 'extlin:none')
    a_ = ctx.prog.func(SAU + 'extend_linspace').node.args
    fi2 = ctx.prog.func(SAU + 'extend_constant')
    if fi2.params() != ['a', 'n', 'direction']:
        raise AnalysisError(f"C17.2: extend_constant signature changed: {fi2.params()}")
    for direction in ('both', 'left', 'right'):
        ev = Evaluator(ctx.prog, opaque_kind=REPO_RESULT_KIND)
        res, st = ev.run_function(fi2, args={'a': a, 'n': n, 'direction': Const(direction)})
        if ev.issues:
            raise AnalysisError(f"C17.2: extend_constant not canonicalisable: {ev.issues[:3]}")
        sp = ModSpec(ctx.prog, SAUMOD, {'a': a, 'n': n})
        if direction in ('both', 'left'):
            sp.exec('a = np.insert(a, 0, [a[0]] * n)\n')
        if direction in ('both', 'right'):
            sp.exec('a = np.insert(a, len(a), [a[-1]] * n)\n')
        compare(ctx, 'C17.2', f"extend_constant(direction={direction})", res, sp.val('a'), fi2, f"extconst:{direction}")
    for f in (fi, fi2):
        ar = f.node.args
        ps = f.params()
        d = dict(zip(ps[len(ps) - len(ar.defaults):], ar.defaults)).get('direction')
        ctx.check(isinstance(d, ast.Constant) and d.value == 'both', 'C17.2', f"{f.name}: default direction is 'both'", ast.unparse(d) if d is not None else 'none',
                  f.loc(), f.qualname, f"default-dir:{f.name}")


def check_append(ctx):
    ctx.rule('C17.3', 'append_one_sample: x gains x[-1] + (x[-1] - x[-2]); y gains y[0] when make_periodic else y[-1]; both results have one more element; '
                      'inputs are not written')
    fi = ctx.prog.func(SAU + 'append_one_sample')
    if fi.params() != ['x', 'y', 'make_periodic']:
        raise AnalysisError(f"C17.3: append_one_sample signature changed: {fi.params()}")
    L = sym.sym('L')
    x, y = arr_param('x', length=L), arr_param('y', length=L)
    for mp in (False, True):
        ev = Evaluator(ctx.prog, opaque_kind=REPO_RESULT_KIND)
        res, st = ev.run_function(fi, args={'x': x, 'y': y, 'make_periodic': Const(mp)})
        sp = ModSpec(ctx.prog, SAUMOD, {'x': x, 'y': y})
        wx = sp.val('np.append(x, x[-1] + (x[-1] - x[-2]))')
        wy = sp.val('np.append(y, y[0])' if mp else 'np.append(y, y[-1])')
        ok = isinstance(res, Tup) and len(res.items) == 2
        if ok:
            compare(ctx, 'C17.3', f"append_one_sample (make_periodic={mp}): x continues by its last step", res.items[0], wx, fi, f"append:x:{mp}")
            compare(ctx, 'C17.3', f"append_one_sample (make_periodic={mp}): y gains its {'first' if mp else 'last'} value", res.items[1], wy, fi, f"append:y:{mp}")
        else:
            ctx.fail('C17.3', 'append_one_sample returns (x, y)', show(res, 200), fi.loc(), fi.qualname, f"append:pair:{mp}")
    # the flag is used as a truth value (numpy.bool_, 1, ... count as true): no identity / equality comparison with a literal
    flag = Term('param', (Const('make_periodic'),))
    ev = Evaluator(ctx.prog, opaque_kind=REPO_RESULT_KIND)
    res, st = ev.run_function(fi, args={'x': x, 'y': y, 'make_periodic': flag})
    preds = [t for v in [res] + [g for e in ev.events for g in e.guard] for t in walk_vals(v) if isinstance(t, P) and any(veq(u, flag) for u in walk_vals(t))]
    leaves = [t for t in preds if t.op not in ('not', 'and', 'or')]
    odd = sorted({str(t) for t in leaves if not (t.op == 'truthy' and veq(t.args[0], flag))})
    opaque = not leaves and any(isinstance(t, Term) and t.head in ('stored', 'loopstate', 'loopvar', 'mutated') for t in walk_vals(res))
    ctx.check(None if opaque else (bool(leaves) and not odd), 'C17.3', 'append_one_sample: make_periodic is used as a truth value (any true value selects the periodic continuation)',
              f"tests on the flag: {odd or [str(t) for t in leaves][:3]}", fi.loc(), fi.qualname, 'append:truthy')
    ar = fi.node.args
    d = dict(zip(fi.params()[len(fi.params()) - len(ar.defaults):], ar.defaults)).get('make_periodic')
    ctx.check(isinstance(d, ast.Constant) and d.value is False, 'C17.3', 'append_one_sample: make_periodic defaults to False', '', fi.loc(), fi.qualname, 'append:default')


def interval_obj(ctx, arr: Val, n: Val):
    icls = ctx.prog.cls(INTERVAL)
    o = Obj(icls, fresh_serial())
    return o, {o.oid: {'a': arr, 'n': n}}, icls


def check_interval(ctx):
    ctx.rule('C17.4', 'IntervalArray: __getitem__ and __setitem__ compute the same flat index interval*n + element for pairs and the plain index for ints; '
                      'the constructor wraps asarray(a) with interval size n; to_2d_array pads NaN at the tail up to ceil(size/n)*n and reshapes row-major; '
                      'to_2d_array_closed_intervals appends the first element of the next row and drops the last row by default; nr_of_full_intervals = len // n; '
                      'extend_* delegate with self.n; oversample multiplies the interval size by num; len() is the element count')
    L = sym.sym('L')
    A = arr_param('A', length=L)
    n = S('n')
    obj, heap, icls = interval_obj(ctx, A, n)
    k, i = S('k'), S('i')
    # index map
    for meth in ('__getitem__', '__setitem__'):
        if prog_method(ctx, icls, meth) is None:
            raise AnalysisError(f"C17.4: IntervalArray.{meth} not found")
    ev = Evaluator(ctx.prog, opaque_kind=REPO_RESULT_KIND)
    g_pair, _ = ev.run_function(prog_method(ctx, icls, '__getitem__'), pos=[Tup([k, i])], self_val=obj, heap={o: dict(f) for o, f in heap.items()})
    g_int, _ = ev.run_function(prog_method(ctx, icls, '__getitem__'), pos=[k], self_val=obj, heap={o: dict(f) for o, f in heap.items()})
    if ev.issues:
        raise AnalysisError(f"C17.4: IntervalArray.__getitem__ not canonicalisable: {ev.issues[:3]}")
    ctx.check(isinstance(g_pair, Num) and g_pair.r == A.at(k.r * n.r + i.r).r, 'C17.4', 'IntervalArray[k, i] reads flat element k*n + i', show(g_pair, 120),
              prog_method(ctx, icls, '__getitem__').loc(), INTERVAL + '.__getitem__', 'get:pair')
    ctx.check(isinstance(g_int, Num) and g_int.r == A.at(k.r).r, 'C17.4', 'IntervalArray[j] reads flat element j', show(g_int, 120),
              prog_method(ctx, icls, '__getitem__').loc(), INTERVAL + '.__getitem__', 'get:int')
    for key, want, tag in ((Tup([k, i]), k.r * n.r + i.r, 'pair'), (k, k.r, 'int')):
        ev = Evaluator(ctx.prog, opaque_kind=REPO_RESULT_KIND)
        v = S('v')
        ev.run_function(prog_method(ctx, icls, '__setitem__'), pos=[key, v], self_val=obj, heap={o: dict(f) for o, f in heap.items()})
        st = [e for e in ev.events if e.kind == 'store']
        ok = len(st) == 1 and isinstance(st[0].data['index'], Num) and st[0].data['index'].r == want and veq(st[0].data['value'], v) and same(st[0].data['base'], A)
        ctx.check(ok, 'C17.4', f"IntervalArray[{tag}] = v writes the same flat element the getter reads", f"{[(show(e.data['index'], 60), show(e.data['value'], 40)) for e in st]}",
                  prog_method(ctx, icls, '__setitem__').loc(), INTERVAL + '.__setitem__', f"set:{tag}")
    for meth, tag in (('__getitem__', 'get'), ('__setitem__', 'set')):
        ev = Evaluator(ctx.prog, opaque_kind=REPO_RESULT_KIND)
        args = [Tup([k, i, k])] + ([S('v')] if meth == '__setitem__' else [])
        ev.run_function(prog_method(ctx, icls, meth), pos=args, self_val=obj, heap={o: dict(f) for o, f in heap.items()})
        ctx.check(any(e.kind == 'raise' and e.data.get('exc') == 'IndexError' for e in ev.events) and not any(e.kind == 'store' for e in ev.events), 'C17.4',
                  f"IntervalArray {tag} with three indices raises IndexError", '', prog_method(ctx, icls, meth).loc(), INTERVAL + '.' + meth, f"{tag}:three")
    # constructor
    ev = Evaluator(ctx.prog, opaque_kind=REPO_RESULT_KIND)
    o2 = Obj(icls, fresh_serial())
    res, st = ev.run_function(prog_method(ctx, icls, '__init__'), pos=[A, n], self_val=o2, heap={o2.oid: {}})
    f = st.heap.get(o2.oid, {})
    ctx.check(isinstance(f.get('a'), Num) and f['a'].r == A.r and veq(f.get('n'), n), 'C17.4', 'IntervalArray(a, n) wraps the values of a with interval size n',
              f"{ {k_: show(v_, 60) for k_, v_ in f.items()} }", prog_method(ctx, icls, '__init__').loc(), INTERVAL + '.__init__', 'ctor')
    # simple methods
    ev = Evaluator(ctx.prog, opaque_kind=REPO_RESULT_KIND)
    r, _ = ev.run_function(prog_method(ctx, icls, 'nr_of_full_intervals'), self_val=obj, heap={o: dict(f_) for o, f_ in heap.items()})
    ctx.check(isinstance(r, Num) and r.r == sym.A('FloorDiv', L, n.r), 'C17.4', 'nr_of_full_intervals == len(a) // n', show(r, 80),
              prog_method(ctx, icls, 'nr_of_full_intervals').loc(), INTERVAL + '.nr_of_full_intervals', 'nfull')
    r, _ = Evaluator(ctx.prog, opaque_kind=REPO_RESULT_KIND).run_function(prog_method(ctx, icls, '__len__'), self_val=obj, heap={o: dict(f_) for o, f_ in heap.items()})
    ctx.check(isinstance(r, Num) and r.r == L, 'C17.4', 'len(IntervalArray) == number of elements', show(r, 80), prog_method(ctx, icls, '__len__').loc(), INTERVAL + '.__len__', 'len')
    # delegations
    for meth, target in (('extend_linspace', 'extend_linspace'), ('extend_constant', 'extend_constant')):
        ev = Evaluator(ctx.prog, inline=lambda f_: not f_.qualname.startswith(SAU), opaque_kind=REPO_RESULT_KIND)
        d = Term('param', (Const('direction'),), kind='str')
        o3 = Obj(icls, fresh_serial())
        res, st = ev.run_function(prog_method(ctx, icls, meth), args={'direction': d}, self_val=o3, heap={o3.oid: {'a': A, 'n': n}})
        newa = arr_term(st.heap[o3.oid].get('a'))
        ok = isinstance(newa, Term) and newa.head == 'call:' + SAU + target and same(newa.kw('a'), A) and veq(newa.kw('n'), n) and veq(newa.kw('direction'), d)
        if ok and target == 'extend_linspace':
            ok = veq(newa.kw('lstart'), Const(None)) and veq(newa.kw('rstop'), Const(None))
        ctx.check(ok, 'C17.4', f"IntervalArray.{meth}(direction) replaces the array by {target}(self.a, self.n, direction)", show(newa, 200),
                  prog_method(ctx, icls, meth).loc(), INTERVAL + '.' + meth, f"delegate:{meth}")
    for meth, target in (('oversample_linspace', 'oversample_linspace'), ('oversample_piecewise', 'oversample_piecewise_constant')):
        ev = Evaluator(ctx.prog, inline=lambda f_: not f_.qualname.startswith(SAU), opaque_kind=REPO_RESULT_KIND)
        num = S('num')
        o3 = Obj(icls, fresh_serial())
        res, st = ev.run_function(prog_method(ctx, icls, meth), args={'num': num}, self_val=o3, heap={o3.oid: {'a': A, 'n': n}})
        ok = isinstance(res, Obj) and res.oid != o3.oid
        if ok:
            f = st.heap.get(res.oid, {})
            na = arr_term(f.get('a'))
            ok = isinstance(na, Term) and na.head == 'call:' + SAU + target and same(na.kw('a'), A) and veq(na.kw('num'), num) and \
                isinstance(f.get('n'), Num) and f['n'].r == n.r * num.r
        ctx.check(ok, 'C17.4', f"IntervalArray.{meth}(num) returns a new view of {target}(self.a, num) with interval size n*num", show(res, 80),
                  prog_method(ctx, icls, meth).loc(), INTERVAL + '.' + meth, f"oversample:{meth}")
    # 2-D views: congruence with the documented construction
    tfi = prog_method(ctx, icls, 'to_2d_array')
    ev = Evaluator(ctx.prog, opaque_kind=REPO_RESULT_KIND)
    res, _ = ev.run_function(tfi, self_val=obj, heap={o: dict(f_) for o, f_ in heap.items()})
    sp = ModSpec(ctx.prog, 'traffic_weaver.interval', {'A': A, 'n': n})
    sp.exec('m = A.size // n\nif A.size % n != 0:\n    m = m + 1\n')
    want = sp.val('np.pad(A.astype(float), (0, m * n - A.size), mode="constant", constant_values=np.nan).reshape(m, n)')
    compare(ctx, 'C17.4', 'to_2d_array: NaN padding at the tail up to ceil(size/n)*n, row-major reshape (rows = intervals)', res, want, tfi, '2d')
    cfi = prog_method(ctx, icls, 'to_2d_array_closed_intervals')
    for drop in (True, False):
        ev = Evaluator(ctx.prog, inline=lambda f_: f_.name != 'to_2d_array', opaque_kind=REPO_RESULT_KIND)
        res, _ = ev.run_function(cfi, args={'drop_last': Const(drop)}, self_val=obj, heap={o: dict(f_) for o, f_ in heap.items()})
        calls = [e for e in ev.events if e.kind == 'call' and e.data['callee'].name == 'to_2d_array']
        if len(calls) != 1:
            ctx.unknown('C17.4', 'closed-interval view', 'does not build on to_2d_array()', cfi.loc(), cfi.qualname, f"closed:{drop}")
            continue
        sp = ModSpec(ctx.prog, 'traffic_weaver.interval', {'interv': calls[0].data['term']})
        sp.exec('res = np.concatenate([interv, np.concatenate([interv[1:, :1], [[np.nan]]])], axis=1)\n')
        want = sp.val('res[:-1]' if drop else 'res')
        compare(ctx, 'C17.4', f"to_2d_array_closed_intervals(drop_last={drop}): each row ends with the first value of the next row", res, want, cfi, f"closed:{drop}")
    ar = cfi.node.args
    d = dict(zip(cfi.params()[len(cfi.params()) - len(ar.defaults):], ar.defaults)).get('drop_last')
    ctx.check(isinstance(d, ast.Constant) and d.value is True, 'C17.4', 'closed-interval view drops the (padded) last row by default', '', cfi.loc(), cfi.qualname, 'closed:default')
    decs = [ast.unparse(x) for m_ in icls.methods.values() for x in m_.node.decorator_list if 'cache' in ast.unparse(x) or 'lru' in ast.unparse(x)]
    cached = [k_ for m_ in icls.methods.values() for n_ in ast.walk(m_.node) if isinstance(n_, ast.Attribute) and isinstance(n_.ctx, ast.Store)
              and isinstance(n_.value, ast.Name) and n_.value.id == 'self' for k_ in [n_.attr] if k_ not in ('a', 'n')]
    ctx.check(not decs and not cached, 'C17.4', 'the views are recomputed from the wrapped array on every call (no cached state besides a and n)',
              f"decorators {decs}; extra fields {sorted(set(cached))}", icls.node.lineno and prog_method(ctx, icls, 'to_2d_array').loc(), INTERVAL, 'nocache')


def prog_method(ctx, cls, name):
    return ctx.prog.find_method(cls, name)


def check_rules(ctx):
    ctx.rule('C17.5', 'rectangle_integral == y[:-1] * diff(x); trapezoid_integral == (y[:-1] + y[1:]) / 2 * diff(x) (element-wise canonical forms, extent len-1); '
                      'sum_over_indices sums a[start:stop] over consecutive index pairs (C01.4)')
    L = sym.sym('L')
    x, y = arr_param('x', length=L), arr_param('y', length=L)
    xi, xj = x.r, sym.subst(x.r, {sym.idx_atom(): sym.idx() + C(1)})
    yi, yj = y.r, sym.subst(y.r, {sym.idx_atom(): sym.idx() + C(1)})
    for name, want in (('rectangle_integral', yi * (xj - xi)), ('trapezoid_integral', (yi + yj) / C(2) * (xj - xi))):
        res, ev, st, fi = runf(ctx.prog, SAU + name, pos=[x, y])
        if ev.issues:
            raise AnalysisError(f"C17.5: {name} not canonicalisable: {ev.issues[:3]}")
        r = need_num(ctx, 'C17.5', name, res, fi)
        ctx.check(r.length is not None and r.r == want and r.length == L - C(1), 'C17.5', f"{name}: documented rule, one value per gap",
                  f"code: {show(r, 200)}\nspec: {sym.show(want)[:200]}", fi.loc(), fi.qualname, name)
    from .c01 import check_interval_loop
    # range sums
    sfi = ctx.prog.func(SAU + 'sum_over_indices')
    J = sym.sym('J')
    a = arr_param('a', length=L)
    ind = arr_param('ind', length=J + C(1))
    r, sev, _, sfi = runf(ctx.prog, SAU + 'sum_over_indices', pos=[a, ind])
    r = need_num(ctx, 'C17.5', 'sum_over_indices', r, sfi)
    # element j of the documented result: the sum runs over its own (bound) index, j is the element index - built with j as a separate symbol first,
    # then renamed, so that the two are not confused
    jj = sym.sym('$outer_j')
    lo_j, hi_j = ind.at(jj).r, ind.at(jj + C(1)).r
    want = sym.subst(sym.mk_sum(a.at(sym.idx() + lo_j).r, hi_j - lo_j), {next(iter(jj.atoms())): sym.idx()})
    lo, hi = ind.at(sym.idx()).r, ind.at(sym.idx() + C(1)).r
    from .common import foreign_heads
    fh = foreign_heads(r, Num(want, J))
    if not (r.length is not None and r.r == want and same_extent(r.length, J)) and fh:
        ctx.unknown('C17.5', 'sum_over_indices: element j = sum of a[ind[j]:ind[j+1]]', f"construction not recognised (uses {fh}): {show(r, 200)}", sfi.loc(), sfi.qualname,
                    'range-sums')
    else:
        ctx.check(r.length is not None and r.r == want and same_extent(r.length, J), 'C17.5', 'sum_over_indices: element j = sum of a[ind[j]:ind[j+1]]', show(r, 200), sfi.loc(),
                  sfi.qualname, 'range-sums')


def check_average(ctx):
    ctx.rule('C17.6', 'process.average(x, y, n) == (IntervalArray(x, n).to_2d_array()[:, 0], nanmean(IntervalArray(y, n).to_2d_array(), axis=1)): each row\'s mean '
                      'ignoring the padding, with each row\'s first abscissa')
    fi = ctx.prog.func(PROC + 'average')
    if fi.params() != ['x', 'y', 'interval']:
        raise AnalysisError(f"C17.6: average signature changed: {fi.params()}")
    L = sym.sym('L')
    x, y = arr_param('x', length=L), arr_param('y', length=L)
    n = S('interval')
    from .common import inline_except
    inl = inline_except('traffic_weaver.interval.IntervalArray.to_2d_array')      # the specification is phrased in the interval view; helpers around it are transparent
    ev = Evaluator(ctx.prog, inline=inl, opaque_kind=REPO_RESULT_KIND)
    res, st = ev.run_function(fi, args={'x': x, 'y': y, 'interval': n})
    if ev.issues:
        raise AnalysisError(f"C17.6: average not canonicalisable: {ev.issues[:3]}")
    views = [e for e in ev.events if e.kind == 'call' and e.data['callee'].name == 'to_2d_array']
    ok = isinstance(res, Tup) and len(res.items) == 2 and len(views) >= 1
    detail = show(res, 300)
    if ok:
        # which view wraps which array: look at the heap of the receiver objects
        heap = ev.top_state.heap
        recs = {}
        for e in views:
            # receiver = the Obj created just before
            news = [n_ for n_ in ev.events if n_.kind == 'new' and n_.seq < e.seq]
            o = news[-1].data['obj']
            f = heap.get(o.oid, {})
            recs[e.seq] = (f.get('a'), f.get('n'), e.data['term'])
        vx = [t for a_, n_, t in recs.values() if isinstance(a_, Num) and a_.r == x.r and veq(n_, n)]
        vy = [t for a_, n_, t in recs.values() if isinstance(a_, Num) and a_.r == y.r and veq(n_, n)]
        rx, ry = arr_term(res.items[0]), arr_term(res.items[1])
        # x: first column of the interval view of x, or (the same elements) every interval-th sample of x
        okx = len(vx) == 1 and isinstance(rx, Term) and rx.head in ('col', 'item', 'index') and any(veq(t, vx[0]) for t in walk_vals(rx)) and \
            any(isinstance(t, Num) and t.is_const() and t.const() == 0 for t in walk_vals(rx))
        if not okx and isinstance(rx, Term) and rx.head == 'slice_of' and len(rx.args) == 2 and same(rx.args[0], x):
            sl = rx.args[1]
            if isinstance(sl, Term) and sl.head == 'slice' and len(sl.args) == 3:
                lo, hi, step = sl.args
                okx = (isinstance(lo, Const) and lo.v is None or isinstance(lo, Num) and lo.is_const() and lo.const() == 0) and isinstance(hi, Const) \
                    and hi.v is None and veq(step, n)
        rxn = res.items[0]
        if not okx and isinstance(rxn, Num) and rxn.length is not None and isinstance(n, Num) and rxn.r == x.at(sym.idx() * n.r).r:
            okx = True          # x[::interval] as an element-wise form: every interval-th sample of x
        oky = len(vy) == 1 and isinstance(ry, Term) and ry.head == 'lib:numpy.nanmean' and veq(targ(ry, 'a', 0), vy[0]) and isinstance(targ(ry, 'axis', 1), Num) \
            and targ(ry, 'axis', 1).is_const() and targ(ry, 'axis', 1).const() in (1, -1)       # the view is two-dimensional (C17.4): its last axis is axis 1
        ok = okx and oky
        detail = f"x: {show(rx, 160)}\ny: {show(ry, 160)}"
    ctx.check(ok, 'C17.6', 'average: row means (NaN-ignoring, axis=1) of the interval view of y; first column of the interval view of x', detail, fi.loc(), fi.qualname, 'average')


def run(ctx):
    check_oversample(ctx)
    check_extend(ctx)
    check_append(ctx)
    check_interval(ctx)
    check_rules(ctx)
    check_average(ctx)
    ctx.notes.append('Derived remark (not machine-checked): averaging an n-fold piecewise-constant oversampling returns the input, because every full row of the '
                     'view is n copies of one average (C17.1 + C17.4 + C17.6).')
    ctx.trust('NumPy semantics of linspace / insert / append / repeat / pad / reshape / concatenate / nanmean are not interpreted: code and documented construction '
              'are compared as the same uninterpreted terms (arguments normalised by signature binding)', 'numpy.linspace(a, b, k)[0] == a exactly')
