"""C13 - interpolation honours the data and the requested grid (DESIGN 4.13)"""
from __future__ import annotations

import ast

from .. import sym, api
from ..sym import Rat, C
from ..values import Num, Const, Tup, Term, Obj, P, Val, Kw, veq, walk_vals, arr_param, term_as_num, gamma, p_not
from ..model import AnalysisError
from ..symeval import Evaluator
from ..weaver_model import WeaverModel
from .common import show, REPO_RESULT_KIND, S, ModSpec, same, arr_term, targ, SAU, inline_except, SCANS
from .c08 import model, last_stores
from .c20 import dispatch_fallthrough

PROC = 'traffic_weaver.process.'
INTERP = PROC + 'interpolate'
PWC = PROC + '_piecewise_constant_interpolate'

METHOD_SPECS = {
    'linear': 'np.interp(new_x, x, y, **kwargs)',
    'constant': '_piecewise_constant_interpolate(x, y, new_x, **kwargs)',
    'cubic': 'CubicSpline(x, y, **kwargs)(new_x)',
    'spline': 'BSpline(*splrep(x, y, **kwargs))(new_x)',
}


def check_dispatch(ctx):
    ctx.rule('C13.1', "process.interpolate maps 'linear' -> np.interp binding (x <- new_x, xp <- x, fp <- y), 'constant' -> the piecewise-constant evaluator, "
                      "'cubic' -> CubicSpline(x, y)(new_x), 'spline' -> BSpline(*splrep(x, y))(new_x): the returned value is canonically equal to the "
                      "documented call (arguments normalised by signature binding); an unknown method raises ValueError; no path falls off the end")
    fi = ctx.prog.func(INTERP)
    if fi.params()[:4] != ['x', 'y', 'new_x', 'method']:
        raise AnalysisError(f"C13.1: process.interpolate signature changed: {fi.params()}")
    lits = dispatch_fallthrough(ctx, INTERP, 'method', 'interpolation method', list(METHOD_SPECS))
    ctx.check(sorted(lits) == sorted(METHOD_SPECS), 'C13.1', 'the dispatched method names are the four documented ones', f"{lits}", fi.loc(), fi.qualname, 'names')
    L, Ln = sym.sym('L'), sym.sym('Ln')
    x, y, nx = arr_param('x', length=L), arr_param('y', length=L), arr_param('new_x', length=Ln)
    kw = Term('param', (Const('**kwargs'),), kind='dict')
    for m, src in METHOD_SPECS.items():
        ev = Evaluator(ctx.prog, inline=inline_except(PWC, *SCANS), opaque_kind=REPO_RESULT_KIND)
        res, st = ev.run_function(fi, args={'x': x, 'y': y, 'new_x': nx, 'method': Const(m)}, star_kwargs=kw)
        if ev.issues:
            raise AnalysisError(f"C13.1: interpolate not canonicalisable for '{m}': {ev.issues[:3]}")
        sp = ModSpec(ctx.prog, 'traffic_weaver.process', {'x': x, 'y': y, 'new_x': nx, 'kwargs': Kw({}, kw)}, inline=inline_except(PWC, *SCANS))
        want = sp.val(src)
        ctx.check(same(res, want), 'C13.1', f"method '{m}' evaluates the documented interpolant on the new grid",
                  f"code: {show(arr_term(res), 300)}\nspec: {show(arr_term(want), 300)}", fi.loc(), fi.qualname, f"method:{m}")
        ctx.sample({'rule': 'C13.1', 'method': m, 'value': show(arr_term(res), 160)})
    from .. import callgraph
    funcs = [f for f in callgraph.reachable(ctx.prog, [fi]) if f.module.name.endswith('.process')]
    api.check_api(ctx, 'C13.1', funcs, floor=6)


def check_constant(ctx):
    ctx.rule('C13.2', "piecewise-constant evaluation: indices come from the 'lower' neighbour search (with filling); points >= x[0] take y[index], points "
                      "< x[0] take `left` or y[0]; the two masks are complementary comparisons of the same operands; the result is a fresh array of len(new_x)")
    fi = ctx.prog.func(PWC)
    L, Ln = sym.sym('L'), sym.sym('Ln')
    x, y, nx = arr_param('x', length=L), arr_param('y', length=L), arr_param('new_x', length=Ln)
    for tag, left in (('left omitted', Const(None)), ('left given', S('left'))):
        # element-wise reading first: whatever the order of gathers, masks and stores, point i gets y[index[i]] when new_x[i] >= x[0] and the left value otherwise
        eev = Evaluator(ctx.prog, inline=inline_except(*SCANS), opaque_kind=REPO_RESULT_KIND, elementwise=True)
        try:
            eres, _ = eev.run_function(fi, args={'x': x, 'y': y, 'new_x': nx, 'left': left})
        except AnalysisError:
            eres = None
        if eres is not None and not eev.issues and isinstance(eres, Num) and eres.length is not None:
            calls_ = [e for e in eev.events if e.kind == 'call' and e.data['callee'] is not None and e.data['callee'].qualname == SCANS[0]]
            if len(calls_) == 1:
                b_ = calls_[0].data['bound']
                fillv = b_.get('fill_not_valid')
                ok_call = same(b_.get('x'), x) and same(b_.get('lookup'), nx) and (fillv is None or (isinstance(fillv, Const) and fillv.v is True))
                idx_i = term_as_num(calls_[0].data['term'], True, 'ndarray').at(sym.idx())
                lv = left.r if isinstance(left, Num) else y.at(C(0)).r
                want_i = gamma(p_not(P('<', nx, Num(x.at(C(0)).r))), Num(y.at(idx_i.r).r, Ln, 'ndarray'), Num(lv, Ln, 'ndarray'))
                if ok_call and isinstance(want_i, Num) and eres.r == want_i.r and eres.length == Ln:
                    ctx.ok('C13.2', f"{tag}: point i takes y[lower(new_x)[i]] when new_x[i] >= x[0], otherwise the left value (element-wise closed form)",
                           show(eres, 200), fi.loc(), fi.qualname, f"closed:{tag}")
                    from .. import dtypes as _dt
                    ctx.check(_dt.dtype_of(eres) != _dt.INT, 'C13.2', f"{tag}: the result is not an integer buffer", f"{_dt.dtype_of(eres)}", fi.loc(), fi.qualname, f"fresh:{tag}")
                    continue
        ev = Evaluator(ctx.prog, inline=inline_except(*SCANS), opaque_kind=REPO_RESULT_KIND)
        res, st = ev.run_function(fi, args={'x': x, 'y': y, 'new_x': nx, 'left': left})
        if ev.issues:
            raise AnalysisError(f"C13.2: _piecewise_constant_interpolate not canonicalisable: {ev.issues[:3]}")
        sp = ModSpec(ctx.prog, 'traffic_weaver.process', {'x': x, 'y': y, 'new_x': nx, 'left': left}, inline=inline_except(*SCANS))
        sp.exec('idx = find_closest_lower_equal_element_indices_to_values(x, new_x)\nge = new_x >= x[0]\nlt = new_x < x[0]\n')
        stores = [e for e in ev.events if e.kind == 'store']
        if not stores:
            from .common import foreign_heads
            fh_ = foreign_heads(res, Num(y.r, Ln, 'ndarray')) if isinstance(res, Val) else []
            if fh_:
                ctx.unknown('C13.2', f"{tag}: piecewise-constant evaluation", f"built without the two masked stores, from {fh_}: construction not recognised\n"
                                                                           f"code: {show(arr_term(res), 240)}", fi.loc(), fi.qualname, f"n:{tag}")
                continue
        ctx.check(len(stores) == 2, 'C13.2', f"{tag}: two masked stores", f"{len(stores)} stores", fi.loc(), fi.qualname, f"n:{tag}")
        want = [(sp.val('ge'), sp.val('y[idx[ge]]')), (sp.val('lt'), sp.val('left if left is not None else y[0]'))]
        seen = set()
        for e in stores:
            hit = None
            for j, (wi, wv) in enumerate(want):
                if veq(e.data['index'], wi) and same(e.data['value'], wv):
                    hit = j
            seen.add(hit)
            ctx.check(hit is not None, 'C13.2', f"{tag}: store at {e.loc()} is one of the two documented assignments",
                      f"index {show(e.data['index'], 160)}\nvalue {show(arr_term(e.data['value']), 200)}", e.loc(), fi.qualname, f"store:{tag}:{e.loc().split(':')[-1]}")
        ctx.check(seen == {0, 1}, 'C13.2', f"{tag}: both regions (at/after the first sample, before it) are assigned", f"{seen}", fi.loc(), fi.qualname, f"both:{tag}")
        # result: the array created with len(new_x)
        from ..rfa_model import strip_state
        root = strip_state(res) if isinstance(res, (Num, Term)) else res
        root = arr_term(root)
        ok = isinstance(root, Term) and root.head in ('lib:numpy.zeros', 'lib:numpy.empty', 'lib:numpy.full', 'lib:numpy.zeros_like', 'lib:numpy.empty_like')
        if ok and root.head in ('lib:numpy.zeros', 'lib:numpy.empty', 'lib:numpy.full'):
            shp = targ(root, 'shape', 0)
            ok = isinstance(shp, Num) and shp.r == Ln
        ctx.check(ok, 'C13.2', f"{tag}: the result is a fresh array with one element per new point", show(root, 120), fi.loc(), fi.qualname, f"fresh:{tag}")


def check_weaver(ctx, wm: WeaverModel):
    ctx.rule('C13.3', 'Weaver.interpolate(n) builds np.linspace(self.x[0], self.x[-1], n) (nothing else: n points over the current range); an explicit grid is '
                      'converted with np.asarray and used as is; self.y receives process.interpolate(self.x, self.y, <the grid self.x receives>, method, **kwargs)')
    it = wm.cls.methods.get('interpolate')
    if it is None:
        raise AnalysisError('C13.3: Weaver.interpolate not found')
    for tag, mf in (('n given', wm.evaluate(it, overrides={'new_x': Const(None)})), ('grid given', wm.methods['interpolate'])):
        if mf.issues:
            raise AnalysisError(f"C13.3: Weaver.interpolate not canonicalisable: {mf.issues[:3]}")
        ls = last_stores(mf)
        ctx.check(sorted(ls) == ['x', 'y'], 'C13.3', f"{tag}: interpolate writes x and y only", f"writes {sorted(ls)}", mf.fi.loc(), mf.fi.qualname, f"frame:{tag}")
        if 'x' not in ls or 'y' not in ls:
            continue
        gx = ls['x'][-1].data['value']
        if tag == 'n given':
            sp = ModSpec(ctx.prog, 'traffic_weaver.weaver', {'X': wm.fields['x'], 'n': mf.params['n']})
            want = sp.val('np.linspace(X[0], X[-1], n)')
            ctx.check(same(gx, want), 'C13.3', 'interpolate(n): the new abscissae are exactly np.linspace(x[0], x[-1], n)',
                      f"code: {show(arr_term(gx), 240)}\nspec: {show(arr_term(want), 240)}", ls['x'][-1].loc(), mf.fi.qualname, 'grid-n')
        else:
            nx = mf.params['new_x']
            ok = isinstance(gx, Num) and gx.length is not None and gx.r == nx.r and gx.length == nx.length
            ctx.check(ok, 'C13.3', 'interpolate(new_x): the given grid becomes the new abscissae unchanged', show(gx, 160), ls['x'][-1].loc(), mf.fi.qualname, 'grid-given')
        vy = arr_term(ls['y'][-1].data['value'])
        ok = isinstance(vy, Term) and vy.head == 'call:' + INTERP and same(vy.kw('x'), wm.fields['x']) and same(vy.kw('y'), wm.fields['y']) \
            and same(vy.kw('new_x'), gx) and veq(vy.kw('method'), mf.params.get('method'))
        kwv = vy.kw('kwargs') if isinstance(vy, Term) else None
        ok = ok and isinstance(kwv, Kw) and not kwv.items and kwv.rest is not None
        ctx.check(ok, 'C13.3', f"{tag}: y <- process.interpolate(self.x, self.y, <the new abscissae>, method=method, **kwargs)", show(vy, 300),
                  ls['y'][-1].loc(), mf.fi.qualname, f"y:{tag}")
        ctx.sample({'rule': 'C13.3', 'case': tag, 'x': show(arr_term(gx), 120)})


def run(ctx):
    wm = model(ctx)
    check_dispatch(ctx)
    check_constant(ctx)
    check_weaver(ctx, wm)
    from . import c20
    ctx.rule('C13.6', 'a grid given explicitly must share both end points with the series: refused with ValueError unless the first AND the last element are equal')
    c20.check_grid_guard(ctx, wm, rule='C13.6')
    from .common import dt_function, dt_weaver, DT_RULE
    ctx.rule('C13.5', DT_RULE)
    n_ = 0
    for meth in ('linear', 'constant', 'cubic', 'spline'):
        n_ += dt_function(ctx, 'C13.5', PROC + 'interpolate', {'x': 'x', 'y': 'x', 'new_x': 'new'}, consts={'method': Const(meth)}, what=f"interpolate[{meth}]")
    n_ += dt_weaver(ctx, 'C13.5', wm, ['interpolate'])
    ctx.floor('C13.5', n_, 1, 'in-place stores with a known buffer element type in interpolate')
    from . import c10
    c10.check_scans(ctx, kinds=('lower',), fill_true_only=True)      # the 'constant' method is built on the lower-neighbour scan
    ctx.notes.append('NOT DECIDED: every numerical clause (exactness at the knots, reproduction of affine data, spline values): NumPy/SciPy contracts.')
    ctx.trust('numpy.interp(x, xp, fp) interpolates (xp, fp) at x; CubicSpline / BSpline(*splrep) interpolate their data (library contracts)',
              'the neighbour search returns the defined neighbour (C10)')
