"""C02 - recreate + match preserves every original average (DESIGN 4.2)

A composition of C04 (grid), C01 (matching) and C17 (averaging); specific to C02 is the wiring of the pipeline in Weaver."""
from __future__ import annotations

import ast

from .. import sym
from ..values import Num, Const, Tup, Term, Obj, P, Val, Kw, veq, walk_vals
from ..model import AnalysisError
from ..weaver_model import WeaverModel
from .common import show, same, arr_term
from .c08 import model, last_stores
from . import c01, c03, c04, c17, c10

MATCH = 'traffic_weaver.match.integral_matching_reference_stretch'
RFA = 'traffic_weaver.rfa.'


def check_wiring(ctx, wm: WeaverModel, recreate=True):
    ctx.rule('C02.1', 'Weaver.integral_match binds x <- self.x, y <- self.y, x_ref <- self.reference_x, y_ref <- self.reference_y, forwards both rule parameters '
                      'to the like-named parameters and stores the result to y only')
    ctx.rule('C02.2', 'Weaver.recreate_from_average instantiates rfa_class(self.x, self.y, n, **kwargs), stores both results of .rfa() to (x, y) in that order and '
                      'touches neither the reference nor the original; the default strategy is a concrete subclass of AbstractRFA')
    mf = wm.methods.get('integral_match')
    if mf is None:
        raise AnalysisError('C02.1: Weaver.integral_match not found')
    ls = last_stores(mf)
    ctx.check(list(ls) == ['y'], 'C02.1', 'integral_match stores only y', f"stores {list(ls)}", mf.fi.loc(), mf.fi.qualname, 'match-frame')
    v = arr_term(ls['y'][-1].data['value']) if 'y' in ls else None
    ok = isinstance(v, Term) and v.head == 'call:' + MATCH
    if ok:
        ok = same(v.kw('x'), wm.fields['x']) and same(v.kw('y'), wm.fields['y']) and same(v.kw('x_ref'), wm.fields['reference_x']) \
            and same(v.kw('y_ref'), wm.fields['reference_y'])
    ctx.check(ok, 'C02.1', 'integral_match: working series is the target, reference series is the reference', show(v, 400), mf.fi.loc(), mf.fi.qualname, 'match-series')
    if isinstance(v, Term):
        for p in ('target_function_integral_method', 'reference_function_integral_method'):
            ctx.check(veq(v.kw(p), mf.params.get(p)), 'C02.1', f"integral_match forwards {p} to the like-named parameter", show(v.kw(p), 80), mf.fi.loc(),
                      mf.fi.qualname, f"match-fwd:{p}")
        for p in ('alpha', 's', 'fixed_points_in_x', 'fixed_points_indices_in_x', 'fixed_points_finding_strategy'):
            val = v.kw(p)
            ok = isinstance(val, Term) and val.head == 'kwget' and veq(val.args[1], Const(p))
            ctx.check(ok, 'C02.1', f"integral_match leaves {p} to **kwargs / the callee default", show(val, 80), mf.fi.loc(), mf.fi.qualname, f"match-kw:{p}")
    # defaults of the two rules: target trapezoid, reference rectangle (the reference is the piecewise-constant original)
    a = mf.fi.node.args
    ps = mf.fi.params()
    d = dict(zip(ps[len(ps) - len(a.defaults):], a.defaults))
    ctx.check(isinstance(d.get('reference_function_integral_method'), ast.Constant) and d['reference_function_integral_method'].value == 'rectangle', 'C02.1',
              "integral_match: the reference rule defaults to 'rectangle' (averages are exact rectangle integrals)", '', mf.fi.loc(), mf.fi.qualname, 'match-default')
    if recreate:
        check_recreate_wiring(ctx, wm)


def check_recreate_wiring(ctx, wm: WeaverModel, rule='C02.2'):
    ctx.rule(rule, 'Weaver.recreate_from_average instantiates rfa_class(self.x, self.y, n, **kwargs) with the caller\'s options unfiltered, stores both results of '
                   '.rfa() to (x, y) in that order and touches neither the reference nor the original; the default strategy is a concrete subclass of AbstractRFA')
    mr = wm.methods.get('recreate_from_average')
    if mr is None:
        raise AnalysisError(f"{rule}: Weaver.recreate_from_average not found")
    ls = last_stores(mr)
    ctx.check(sorted(ls) == ['x', 'y'], rule, 'recreate_from_average stores x and y only', f"stores {sorted(ls)}", mr.fi.loc(), mr.fi.qualname, 'rfa-frame')
    if 'x' in ls and 'y' in ls:
        vx, vy = ls['x'][-1].data['value'], ls['y'][-1].data['value']
        ok = isinstance(vx, Term) and vx.head == 'item' and isinstance(vy, Term) and vy.head == 'item' and veq(vx.args[0], vy.args[0]) \
            and veq(vx.args[1], Const(0)) and veq(vy.args[1], Const(1))
        if ok:
            call = vx.args[0]          # apply(attr(apply(rfa_class, ...), 'rfa'))
            ok = isinstance(call, Term) and call.head == 'apply' and len(call.args) == 1 and not call.kwargs
            inst = call.args[0].args[0] if ok and isinstance(call.args[0], Term) and call.args[0].head == 'attr' and veq(call.args[0].args[1], Const('rfa')) else None
            ok = ok and isinstance(inst, Term) and inst.head == 'apply' and len(inst.args) == 4 and veq(inst.args[0], mr.params.get('rfa_class')) \
                and same(inst.args[1], wm.fields['x']) and same(inst.args[2], wm.fields['y']) and veq(inst.args[3], mr.params.get('n')) \
                and [k for k, _ in inst.kwargs] == ['**'] and isinstance(inst.kwargs[0][1], Term) and inst.kwargs[0][1].head == 'param' \
                and veq(inst.kwargs[0][1].args[0], Const('**kwargs'))       # the caller's options, unfiltered
        ctx.check(ok, rule, 'recreate_from_average: (x, y) <- rfa_class(self.x, self.y, n, **kwargs).rfa()', f"x = {show(vx, 240)}", mr.fi.loc(), mr.fi.qualname, 'rfa-call')
        cond = [str(g)[:100] for e_ in (ls['x'][-1], ls['y'][-1]) for g in e_.guard]
        ctx.check(not cond, rule, 'recreate_from_average: the strategy is instantiated and run on every call (its own argument checks - n < 2 - are the '
                                  'Weaver\'s; no shortcut returns without it)', f"only when {cond[:3]}", mr.fi.loc(), mr.fi.qualname, 'rfa-always')
    a = mr.fi.node.args
    ps = mr.fi.params()
    dflt = dict(zip(ps[len(ps) - len(a.defaults):], a.defaults)).get('rfa_class')
    r = ctx.prog.resolve_expr(mr.fi.module, dflt) if dflt is not None else None
    okd = r is not None and r[0] == 'class' and not ctx.prog.is_abstract(r[2]) and ctx.prog.cls(RFA + 'AbstractRFA') in ctx.prog.mro(r[2])
    ctx.check(okd, rule, 'the default strategy is a concrete recreate-from-average class', ast.unparse(dflt) if dflt is not None else 'none', mr.fi.loc(), mr.fi.qualname,
              'rfa-default')


def run(ctx):
    wm = model(ctx)
    check_wiring(ctx, wm)
    # C02.3 grid alignment: every strategy returns the n-fold grid whose every n-th abscissa is an original one (C04)
    ctx.rule('C02.3', 'grid alignment (C04 rules on every concrete strategy): each reference abscissa is a sample of the recreated x, so the default closest '
                      'search selects it at distance 0')
    c04.run(ctx)
    # the matching core (C01.3 / C01.4 / C01.6) and the default search
    lits = c01.check_tables(ctx)
    c01.check_kernel(ctx, lits)
    c01.check_interval_loop(ctx)
    c01.check_public(ctx, lits)
    ctx.rule('C01.6', 'the kernel displacement vanishes at both window ends')
    c03.check_profile(ctx, rule_prefix='C01', only_ends=True)
    c10.check_scans(ctx, kinds=('closest',), fill_true_only=True)
    # C02.4 averaging
    ctx.rule('C02.4', 'averaging view (C17.4 / C17.6): row means ignoring the tail padding, first column of the same row-major view of x')
    c17.check_average(ctx)
    c17.check_rules(ctx)
    ctx.notes.append('NOT DECIDED: the numerical equality of the averages (it follows over the reals from the C01 / C04 / C17 clauses; not re-derived); datasets as inputs.')
