"""C15 - noise is purely additive and obeys the signal-to-noise definition (DESIGN 4.15)"""
from __future__ import annotations

import ast

from .. import sym, api
from ..sym import Rat, C
from ..values import Num, Const, Tup, Term, Obj, P, Val, veq, walk_vals, arr_param, term_as_num
from ..model import AnalysisError
from ..symeval import Evaluator
from ..weaver_model import WeaverModel
from .common import show, REPO_RESULT_KIND, S, ModSpec, same, arr_term, unused_params, targ
from .c08 import model, alias, last_stores

# library calls whose result may have another shape / fewer elements than their argument
EXTENT_CHANGING = ('lib:numpy.squeeze', 'method:squeeze', 'lib:numpy.unique', 'lib:numpy.compress', 'lib:numpy.trim_zeros', 'lib:numpy.extract', 'lib:numpy.delete',
                   'lib:numpy.atleast_2d', 'lib:numpy.expand_dims')
PROC = 'traffic_weaver.process.'
NOISE = PROC + 'noise_gauss'


def check_scale(ctx):
    ctx.rule('C15.1', 'the value bound to numpy.random.normal\'s `scale` (signature binding) is sqrt(mean(a^2)/10^(snr/10)) for decibel input, '
                      'sqrt(mean(a^2)/snr) for linear input - element-wise when snr is an array - and the std parameter when snr is None')
    ctx.rule('C15.2', 'loc is 0, size is a.shape, the function returns a + noise and does not write a')
    fi = ctx.prog.func(NOISE)
    need = ['a', 'snr', 'snr_in_db', 'std']
    if [p for p in need if p not in fi.params()]:
        raise AnalysisError(f"C15: noise_gauss signature changed: {fi.params()}")
    L = sym.sym('L')
    a = arr_param('a', length=L)
    cases = [('snr=None', Const(None), Const(True), None),
             ('decibel scalar snr', S('snr'), Const(True), '(np.mean(a**2) / (10 ** (snr / 10))) ** 0.5'),
             ('linear scalar snr', S('snr'), Const(False), '(np.mean(a**2) / snr) ** 0.5'),
             ('decibel per-sample snr', arr_param('snr', kind='list', length=L), Const(True), '(np.mean(a**2) / (10 ** (snr / 10))) ** 0.5'),
             ('linear per-sample snr', arr_param('snr', kind='list', length=L), Const(False), '(np.mean(a**2) / snr) ** 0.5')]
    std = S('std')
    n = 0
    for tag, snr, db, spec_src in cases:
        ev = Evaluator(ctx.prog, opaque_kind=REPO_RESULT_KIND)
        res, st = ev.run_function(fi, args={'a': a, 'snr': snr, 'snr_in_db': db, 'std': std})
        if ev.issues:
            raise AnalysisError(f"C15.1: noise_gauss not canonicalisable ({tag}): {ev.issues[:3]}")
        draws = [e for e in ev.events if e.kind == 'lib' and e.data['name'].startswith('numpy.random.')]
        ctx.check(len(draws) == 1 and draws[0].data['name'] == 'numpy.random.normal', 'C15.1', f"{tag}: exactly one draw, from numpy.random.normal",
                  f"draws: {[e.data['name'] for e in draws]}", fi.loc(), fi.qualname, f"draw:{tag}")
        if len(draws) != 1:
            continue
        e = draws[0]
        t = e.data['result']
        n += 1
        scale, loc, size = targ(t, 'scale', 1), targ(t, 'loc', 0), targ(t, 'size', 2)
        if spec_src is None:
            want = std
        else:
            sp = ModSpec(ctx.prog, 'traffic_weaver.process', {'a': a, 'snr': snr})
            want = sp.val(spec_src)
        ok = isinstance(scale, Num) and isinstance(want, Num) and scale.r == want.r and \
            ((scale.length is None and want.length is None) or (scale.length is not None and want.length is not None and scale.length == want.length))
        from .common import foreign_heads, value_changing_heads
        fh = foreign_heads(scale, want) if (not ok and isinstance(scale, Val) and isinstance(want, Val)) else []
        if fh and not value_changing_heads(scale, want):
            ctx.unknown('C15.1', f"{tag}: noise standard deviation", f"construction not recognised (uses {fh})\ncode:  {show(scale, 300)}\nspec:  {show(want, 300)}",
                        e.loc(), fi.qualname, f"scale:{tag}")
        else:
            ctx.check(ok, 'C15.1', f"{tag}: noise standard deviation", f"code:  {show(scale, 300)}\nspec:  {show(want, 300)}", e.loc(), fi.qualname, f"scale:{tag}")
        ctx.check(loc is None or (isinstance(loc, Num) and loc.is_const() and loc.const() == 0), 'C15.2', f"{tag}: zero-mean noise (loc = 0)", show(loc, 60),
                  e.loc(), fi.qualname, f"loc:{tag}")
        ok_size = isinstance(size, Tup) and len(size.items) == 1 and isinstance(size.items[0], Num) and size.items[0].r == L
        ok_size = ok_size or (isinstance(size, Num) and size.length is None and size.r == L)
        def unread(v_):
            """constructs in a value that the evaluator carries along without interpreting them (reflection, opaque applications, ...)"""
            return sorted({t_.head for t_ in walk_vals(v_) if isinstance(t_, Term) and (t_.head in ('apply', 'star', 'attr', 'getattr', 'item', 'unsupported')
                                                                                        or t_.head.startswith(('lib:inspect.', 'lib:functools.')))}) \
                if isinstance(v_, Val) else []
        reshaped = sorted({t_.head for t_ in walk_vals(size) if isinstance(t_, Term) and t_.head in EXTENT_CHANGING}) if isinstance(size, Val) else []
        if not ok_size and reshaped:
            ctx.fail('C15.2', f"{tag}: one noise sample per signal sample (size = a.shape)",
                     f"the size is the shape of a copy whose extent {reshaped} may change (squeeze turns a one-sample series into a 0-d value; "
                     f"unique / compress / trim drop samples): {show(size, 120)}", e.loc(), fi.qualname, f"size:{tag}")
        elif not ok_size and unread(size):
            ctx.unknown('C15.2', f"{tag}: one noise sample per signal sample (size = a.shape)", f"the size argument is built with {unread(size)}: not followed\n"
                                                                                             f"{show(size, 120)}", e.loc(), fi.qualname, f"size:{tag}")
        else:
            ctx.check(ok_size, 'C15.2', f"{tag}: one noise sample per signal sample (size = a.shape)", show(size, 80), e.loc(), fi.qualname, f"size:{tag}")
        noise = term_as_num(t, True, 'ndarray')
        want_res = a.r + sym.subst(noise.r, {})
        ok_res = isinstance(res, Num) and res.length is not None and res.r == want_res
        if not ok_res and unread(res):
            ctx.unknown('C15.2', f"{tag}: result == a + noise", f"the result is built with {unread(res)}: not followed\n{show(res, 160)}", fi.loc(), fi.qualname,
                        f"result:{tag}")
        else:
            ctx.check(ok_res, 'C15.2', f"{tag}: result == a + noise", show(res, 200), fi.loc(), fi.qualname, f"result:{tag}")
        ctx.sample({'rule': 'C15.1', 'case': tag, 'scale': show(scale, 160)})
    ctx.floor('C15.1', n, 5, 'noise cases')
    aa = alias(ctx)
    s = aa.summ.get(NOISE)
    ctx.check(s is not None and not s.mutates and not (s.returns - set()), 'C15.2', 'noise_gauss neither writes nor returns its input array',
              f"mutates {sorted(s.mutates) if s else None}; may return alias of {sorted(s.returns) if s else None}", fi.loc(), fi.qualname, 'pure')


def check_weaver(ctx, wm: WeaverModel):
    ctx.rule('C15.3', 'Weaver.noise stores only y = noise_gauss(self.y, snr=snr, ...); every parameter of the method reaches the callee; **kwargs is forwarded')
    mf = wm.methods.get('noise')
    if mf is None:
        raise AnalysisError('C15.3: Weaver.noise not found')
    ls = last_stores(mf)
    ctx.check(list(ls) == ['y'], 'C15.3', 'Weaver.noise writes only y', f"writes {list(ls)}", mf.fi.loc(), mf.fi.qualname, 'frame')
    v = arr_term(ls['y'][-1].data['value']) if 'y' in ls else None
    ok = isinstance(v, Term) and v.head == 'call:' + NOISE and same(v.kw('a'), wm.fields['y']) and veq(v.kw('snr'), mf.params.get('snr'))
    ctx.check(ok, 'C15.3', 'Weaver.noise: y <- noise_gauss(self.y, snr=snr, ...)', show(v, 300), mf.fi.loc(), mf.fi.qualname, 'call')
    if ok:
        fi = ctx.prog.func(NOISE)
        for p in fi.params():
            if p in ('a', 'snr'):
                continue
            val = v.kw(p)
            passed = any(veq(val, mv) for mv in mf.params.values())
            fwd = isinstance(val, Term) and val.head == 'kwget' and isinstance(val.args[0], Term) and val.args[0].head == 'param' and veq(val.args[1], Const(p))
            ctx.check(passed or fwd, 'C15.3', f"Weaver.noise: {p} reaches noise_gauss from the caller (explicit parameter or **kwargs)", show(val, 120),
                      mf.fi.loc(), mf.fi.qualname, f"fwd:{p}")
    dropped = unused_params(mf)
    ctx.check(not dropped, 'C15.3', 'Weaver.noise: no parameter is accepted and then ignored', f"unused: {dropped}", mf.fi.loc(), mf.fi.qualname, 'dropped')


def check_entropy(ctx):
    ctx.rule('C15.4', 'the only randomness reachable in the package is numpy.random.normal on NumPy\'s global generator (so numpy.random.seed reproduces results): '
                      'no random / secrets / os.urandom / private Generator / time-seeded state')
    funcs = ctx.prog.all_functions()
    n = 0
    # references, not only call sites: `functools.partial(np.random.normal, ...)` draws as well
    sites, seen_ = [], set()
    for fi, node, dotted in list(api.lib_call_sites(ctx.prog, funcs)) + list(api.lib_refs(ctx.prog, funcs)):
        ref = node.func if isinstance(node, ast.Call) else node
        k_ = (fi.qualname, getattr(ref, 'lineno', 0), getattr(ref, 'col_offset', 0), dotted)
        if k_ not in seen_:
            seen_.add(k_)
            sites.append((fi, node, dotted))
    for fi, call, dotted in sites:
        if dotted.startswith(('numpy.random', 'random.', 'secrets.', 'os.urandom', 'uuid.')) or dotted in ('random', 'os.urandom'):
            n += 1
            ctx.check(dotted == 'numpy.random.normal', 'C15.4', f"{fi.name}: random source {dotted}", 'not the global-generator normal draw', fi.loc(call),
                      fi.qualname, f"rng:{dotted}")
    for mi in ctx.prog.modules.values():
        for name, (mod, attr) in mi.imports.items():
            full = mod + ('.' + attr if attr else '')
            if full.split('.')[0] in ('random', 'secrets') or full.startswith('numpy.random'):
                ctx.fail('C15.4', f"{mi.name} imports {full}", 'a second entropy source is imported', mi.relpath, mi.name, f"import:{full}")
    ctx.floor('C15.4', n, 1, 'random draws in the package')


def run(ctx):
    wm = model(ctx)
    check_scale(ctx)
    check_weaver(ctx, wm)
    check_entropy(ctx)
    from .common import dt_function, dt_weaver, DT_RULE
    ctx.rule('C15.5', DT_RULE)
    dt_function(ctx, 'C15.5', NOISE, {'a': 'a'})
    dt_function(ctx, 'C15.5', NOISE, {'a': 'a', 'snr': 'a'}, what='noise_gauss[per-sample snr]')
    dt_weaver(ctx, 'C15.5', wm, ['noise'])
    ctx.notes.append('NOT DECIDED: the statistical clause (empirical SNR of a long series).')
    ctx.trust('numpy.random.normal(loc, scale, size) draws N(loc, scale^2) from the global generator (library contract)',
              'signature binding by inspect.signature of the installed NumPy')
