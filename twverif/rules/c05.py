"""C05 - window strategies keep a plateau at the average, reproduce constants (DESIGN 4.5)

Boundedness and monotonicity are inequalities over the reals: not decided (see DESIGN 1.2)."""
from __future__ import annotations

import ast
from typing import Dict

from .. import sym
from ..sym import Rat, C
from ..values import Num, Const, Tup, Term, Obj, P, Val, Fn, arr_param, veq, walk_vals, Ref
from ..model import AnalysisError
from ..rfa_model import Strategy, strategy, SpecEnv, RFA, ADAPT, strip_state
from ..symeval import Evaluator
from .common import S, run as runf, need_num, show, REPO_RESULT_KIND, no_sau, SAU, targ
from . import c06

WINDOW = [('LinearFixedRFA', False, False), ('ExpFixedRFA', False, True), ('LinearAdaptiveRFA', True, False),
          ('ExpAdaptiveRFA', True, True)]


def call_is(t: Val, suffix: str) -> bool:
    return isinstance(t, Term) and t.head == 'call:' + SAU + suffix


def unwrap(v: Val) -> Val:
    from .c01 import _arr
    return _arr(v)


def check_initial(ctx, st: Strategy, clsname: str, with_x: bool = True):
    """the result array starts as the piecewise-constant oversampling of the averages, extended by constants"""
    y = st.Y_ext
    if y is None:
        # the strategy does not keep its result in an extended copy of the oversampled averages: another layout, which the window rules are not read from
        ctx.unknown('C05.1', f"{clsname}: result array initialised as extend_constant(oversample_piecewise_constant(self.y, n), n, 'both')",
                    'the strategy builds no extended result array: layout not recognised', st.rfa.loc(), st.rfa.qualname, 'init-z')
        ok = None
    ok = call_is(y, 'extend_constant') if y is not None else False
    inner = unwrap(y.kw('a')) if ok else None
    ok = ok and call_is(inner, 'oversample_piecewise_constant') and veq(unwrap(inner.kw('a')), unwrap(st.Y0)) \
        and isinstance(inner.kw('num'), Num) and inner.kw('num').r == st.n and isinstance(y.kw('n'), Num) and y.kw('n').r == st.n \
        and veq(y.kw('direction'), Const('both'))
    if y is not None:
        ctx.check(ok, 'C05.1', f"{clsname}: result array initialised as extend_constant(oversample_piecewise_constant(self.y, n), n, 'both')",
                  show(y, 300), st.rfa.loc(), st.rfa.qualname, 'init-z')
    if not with_x:
        return
    x = st.X_ext
    okx = call_is(x, 'extend_linspace')
    innerx = unwrap(x.kw('a')) if okx else None
    okx = okx and call_is(innerx, 'oversample_linspace') and veq(unwrap(innerx.kw('a')), unwrap(st.X0)) \
        and isinstance(innerx.kw('num'), Num) and innerx.kw('num').r == st.n and isinstance(x.kw('n'), Num) and x.kw('n').r == st.n \
        and veq(x.kw('direction'), Const('both')) and veq(x.kw('lstart'), Const(None)) and veq(x.kw('rstop'), Const(None))
    ctx.check(okx, 'C05.1', f"{clsname}: abscissa grid is extend_linspace(oversample_linspace(self.x, n), n, 'both') with default mirror points",
              show(x, 300), st.rfa.loc(), st.rfa.qualname, 'init-x')


def check_plateau(ctx, st: Strategy, clsname: str, adaptive: bool, exp: bool):
    sp = c06.build_spec(ctx, st, adaptive, exp)
    aL, aR = sp.rat('aL'), sp.rat('aR')
    n = st.n
    left_hi = aL
    right_lo = n - aR
    ctx.floor('C05.1', len(st.stores), 2, f"in-place stores in {clsname}.rfa")
    for sf in st.stores:
        inst = f"{clsname}: store at {sf.loc()} over samples [{sym.show(sf.lo)}, {sym.show(sf.hi)})"
        ok_root = any(veq(sf.root, y) for y in st.Y_ext_all)
        ctx.check(ok_root and sf.index == st.k * n + (sf.lo if sf.single else st.i), 'C05.1', inst + ' writes sample i of the same interval k of the result array',
                  f"index {sym.show(sf.index)}; root {show(sf.root, 120)}", sf.loc(), st.rfa.qualname, f"same-interval:{sym.show(sf.lo)}")
    # chains of sub-ranges that meet exactly (a.hi == b.lo): each chain must be the left window [0, a_l)
    # or the right window [n - a_r (+1), n (+1)) - equalities only, no inequality reasoning
    chains = []
    for sf in sorted(st.stores, key=lambda s: s.event.seq):
        if chains and chains[-1][-1].hi == sf.lo:
            chains[-1].append(sf)
        else:
            chains.append([sf])
    sides = []
    for ch in chains:
        lo, hi = ch[0].lo, ch[-1].hi
        rng = f"[{sym.show(lo)}, {sym.show(hi)})"
        is_left = lo == C(0) and hi == left_hi
        is_right = (lo == right_lo or lo == right_lo + C(1)) and (hi == n or hi == n + C(1))
        sides.append('left' if is_left else 'right' if is_right else '?')
        ctx.check(is_left or is_right, 'C05.1',
                  f"{clsname}: stores at {[s.loc().split(':')[-1] for s in ch]} cover exactly the left window [0, a_l) or the right window [n - a_r, n]",
                  f"chain of sub-ranges {[f'[{sym.show(s.lo)},{sym.show(s.hi)})' for s in ch]} = {rng}; left window [0, {sym.show(left_hi)}), "
                  f"right window from {sym.show(right_lo)}", ch[0].loc(), st.rfa.qualname, f"window:{rng}")
    ctx.check(sorted(sides) == ['left', 'right'], 'C05.1', f"{clsname}: exactly one left and one right transition per interval",
              f"chains: {sides}", st.rfa.loc(), st.rfa.qualname, 'sides')
    ctx.sample({'rule': 'C05.1', 'strategy': clsname, 'chains': [[f"[{sym.show(s.lo)},{sym.show(s.hi)})" for s in ch] for ch in chains],
                'plateau': f"[{sym.show(left_hi)}, {sym.show(right_lo)}) untouched"})


def check_borders(ctx, st: Strategy, clsname: str, adaptive: bool, exp: bool):
    """C05.6: one border value per border, equal to the documented interpolation between the plateau ends; pieces reach the plateau"""
    sp = c06.build_spec(ctx, st, adaptive, exp)
    z0, z1, yk = sp.rat('z0'), sp.rat('z1'), sp.rat('Y[k*n]')
    aL, aR = sp.rat('aL'), sp.rat('aR')
    ia = c06._a(st.i)
    stores = sorted(st.stores, key=lambda s: s.event.seq)
    lefts = [s for s in stores if s.lo == C(0)]
    rights = [s for s in stores if s.hi == st.n or s.hi == st.n + C(1)]
    if not lefts or not rights:
        raise AnalysisError(f"C05.6: {clsname}: cannot find the pieces adjacent to the borders")
    lf, rt = lefts[0], rights[-1]
    v0 = sym.subst(lf.value, {ia: C(0)})
    ctx.check(v0 == z0, 'C05.6', f"{clsname}: the left piece starts (i = 0) at the documented border value",
              f"piece at i=0: {sym.show(v0)[:300]}\nborder value: {sym.show(z0)[:300]}", lf.loc(), st.rfa.qualname, 'border-left')
    vn = sym.subst(rt.value, {ia: st.n})
    ctx.check(vn == z1, 'C05.6', f"{clsname}: the right piece ends (i = n) at the border value of the next interval",
              f"piece at i=n: {sym.show(vn)[:300]}\nnext border value: {sym.show(z1)[:300]}", rt.loc(), st.rfa.qualname, 'border-right')
    # plateau anchors
    lp = [s for s in stores if s.hi == aL]
    rp = [s for s in stores if s.lo == st.n - aR or s.lo == st.n - aR + C(1)]
    if lp:
        v = sym.subst(lp[-1].value, {ia: aL})
        ctx.check(v == yk, 'C05.6', f"{clsname}: the left transition reaches the interval average at sample a_l", sym.show(v)[:300],
                  lp[-1].loc(), st.rfa.qualname, 'plateau-left')
    if rp:
        v = sym.subst(rp[0].value, {ia: st.n - aR})
        ctx.check(v == yk, 'C05.6', f"{clsname}: the right transition leaves the interval average at sample n - a_r", sym.show(v)[:300],
                  rp[0].loc(), st.rfa.qualname, 'plateau-right')
    # consecutive sub-pieces agree where they meet
    for a, b in zip(stores, stores[1:]):
        if a.hi == b.lo:
            va, vb = sym.subst(a.value, {ia: a.hi}), sym.subst(b.value, {ia: a.hi})
            ctx.check(va == vb, 'C05.6', f"{clsname}: sub-pieces meeting at sample {sym.show(a.hi)} agree there", '',
                      b.loc(), st.rfa.qualname, f"join:{sym.show(a.hi)}")


def check_adaptive_sum(ctx):
    """C05.2: before clipping the two adaptive windows add up to a (so at most a-1 samples leave the plateau)"""
    from ..values import fresh_serial
    fi = ctx.prog.func(ADAPT)
    icls = ctx.prog.cls('traffic_weaver.interval.IntervalArray')
    n, L = sym.sym('n'), sym.sym('L')
    Y, X = arr_param('Yext', length=L), arr_param('Xext', length=L)
    ox, oy = Obj(icls, fresh_serial()), Obj(icls, fresh_serial())
    heap = {ox.oid: {'a': X, 'n': Num(n)}, oy.oid: {'a': Y, 'n': Num(n)}}
    a, s = S('a'), S('adaptive_smooth')
    ev = Evaluator(ctx.prog, inline=no_sau, opaque_kind=REPO_RESULT_KIND)
    res_, _st = ev.run_function(fi, pos=[ox, oy, a, s], heap=heap)
    if ev.issues:
        raise AnalysisError(f"C05.2: {fi.qualname} not canonicalisable: {ev.issues[:3]}")
    from .common import result_positions
    pos_of = result_positions(ev, res_)
    if not pos_of:
        raise AnalysisError('C05.2: window tables are not returned as a tuple')
    general = {}
    for e in ev.events:
        if e.kind != 'append' or not e.loops:
            continue
        recv = e.node.func.value
        side = pos_of.get(recv.id) if isinstance(recv, ast.Name) else None
        v = e.data['value']
        if side in (0, 1) and isinstance(v, Num) and not v.r.is_const() and sym.atoms_with_head(v.r, 'Abs'):
            general[side] = (v, e)
    if set(general) != {0, 1}:
        raise AnalysisError('C05.2: cannot find the general-case entries of both window tables')
    pre = {}
    for side, (v, e) in general.items():
        # documented clipping: int(min(max(p, 1), a))
        p = None
        for m2 in sym.atoms_with_head(v.r, 'max2'):
            args = sym.ATOMS.args(m2)
            others = [r for r in args if not (r.is_const() and r.const_value() == 1)]
            if len(others) == 1 and len(args) == 2:
                p = others[0]
        if p is None:
            raise AnalysisError(f"C05.2: window entry at {e.loc()} is not of the documented clipped form int(min(max(p, 1), a)): {show(v, 200)}")
        pre[side] = p
    ctx.check(pre[0] + pre[1] == a.r, 'C05.2', 'adaptive split: left + right window shares add up to a before clipping (any adaptive_smooth)',
              f"left share {sym.show(pre[0])[:200]}\nright share {sym.show(pre[1])[:200]}\nsum - a = {sym.show(pre[0] + pre[1] - a.r)[:300]}",
              general[1][1].loc(), fi.qualname, 'split-sum')


def _difference_const(a: Rat, b: Rat):
    d = b - a
    return d.const_value() if d.is_const() else None


def _le(a: Rat, b: Rat) -> bool:
    """a <= b decided only when b - a is a non-negative constant or obviously a window quantity >= 0 (Int(.) atoms, b)"""
    d = b - a
    if d.is_const():
        return d.const_value() >= 0
    # a sum of window quantities with non-negative coefficients (all window sizes are >= 0 by construction: int of non-negative)
    if d.d.is_const() and d.d.const_value() > 0:
        return all(c >= 0 for c in d.n.t.values()) and all(_nonneg_mono(m) for m in d.n.t)
    return False


def _nonneg_mono(m) -> bool:
    for a, e in m:
        h = sym.ATOMS.head(a)
        if h == 'sym':
            nm = str(sym.ATOMS.args(a)[0])
            if not (nm.startswith('self.') or nm in ('n',)):
                return False
        elif h in ('el', 'Int', 'val'):
            continue
        else:
            return False
    return True


def _ge0(a: Rat) -> bool:
    return _le(C(0), a)


def check_constants(ctx, clsname: str):
    """C05.3: every stored value reproduces constants: substitute all averages := c -> value == c, tie branches included"""
    cls = ctx.prog.cls(RFA + clsname)
    st = strategy(ctx.prog, clsname)
    c = sym.sym('c')
    n_checked = 0
    if st.Y_ext is None:
        raise AnalysisError(f"C05.3: {clsname}.rfa keeps no extended copy of the averages (layout not recognised): which reads are averages is not known")
    for sf in st.stores:
        yat = {a: c for a in sym.direct_atoms(sf.value) if sym.ATOMS.head(a) == 'el' and _is_y(sym.ATOMS.args(a)[0], st)}
        v = sym.subst(sf.value, yat)
        n_checked += 1
        ctx.check(v == c, 'C05.3', f"{clsname}: store at {sf.loc()} [{sym.show(sf.lo)},{sym.show(sf.hi)}) yields c when every average is c",
                  f"value with averages := c: {sym.show(v)[:400]}", sf.loc(), st.rfa.qualname, f"const:{sym.show(sf.lo)}")
    # tie branches: evaluate again without deciding the window-zero tests
    st2 = StrategyNoDecide(ctx.prog, cls)
    for sf in st2.stores:
        yat = {a: c for a in sym.direct_atoms(sf.value) if sym.ATOMS.head(a) == 'el' and _is_y(sym.ATOMS.args(a)[0], st2)}
        v = sym.subst(sf.value, yat)
        n_checked += 1
        ctx.check(v == c, 'C05.3', f"{clsname} (tie branches kept): store at {sf.loc()} yields c when every average is c",
                  f"value with averages := c: {sym.show(v)[:400]}", sf.loc(), st2.rfa.qualname, f"const-ties:{sym.show(sf.lo)}")
    return n_checked


class StrategyNoDecide(Strategy):
    def _decide_window_zero(self, p):
        return None


def _is_y(ref, st: Strategy) -> bool:
    return isinstance(ref, Ref) and ref.term is not None and any(veq(ref.term, y) for y in st.Y_ext_all)


def check_window_sizes(ctx, rule='C05.2'):
    ctx.rule(rule, 'window sizes: a = int(alpha*n) unless a is given (then int(a)), floored at 2; fixed strategies a_l = a_r = int(a/2); '
                      'b = int(beta*a_l); compared as canonical expressions (conditional floor == max)')
    for clsname, adaptive, exp in WINDOW:
        for a_given in (False, True):
            st = strategy(ctx.prog, clsname, a_given=a_given)
            if st.issues:
                raise AnalysisError(f"{rule}: {clsname}.__init__ not canonicalisable: {st.issues[:3]}")
            env = {'n': Num(st.n)}
            for p, s in st.param_syms.items():
                env[p] = Num(s)
            need = ['alpha'] + (['beta'] if exp else [])
            for p in need:
                if p not in st.param_syms:
                    raise AnalysisError(f"{rule}: {clsname}.__init__ has no {p} parameter")
            sp = SpecEnv(ctx.prog, env)
            if a_given:
                if 'a' not in st.param_syms:
                    raise AnalysisError(f"{rule}: {clsname}.__init__ has no a parameter")
                sp.exec('a0 = int(a)\n')
            else:
                sp.exec('a0 = int(alpha * n)\n')
            sp.exec('A = max(a0, 2)\nAL = int(A / 2)\n')
            tag = f"{clsname}({'a given' if a_given else 'a from alpha'})"
            fa = st.init_fields.get('a')
            ctx.check(isinstance(fa, Num) and fa.r == sp.rat('A'), rule, f"{tag}: window a", f"code {show(fa, 200)}; spec {sym.show(sp.rat('A'))}",
                      st.init.loc(), st.init.qualname, f"a:{a_given}")
            if not adaptive:
                for f in ('a_l', 'a_r'):
                    fv = st.init_fields.get(f)
                    ctx.check(isinstance(fv, Num) and fv.r == sp.rat('AL'), rule, f"{tag}: {f} = int(a/2)",
                              f"code {show(fv, 200)}; spec {sym.show(sp.rat('AL'))}", st.init.loc(), st.init.qualname, f"{f}:{a_given}")
                if exp:
                    sp.exec('B = int(beta * AL)\n')
                    fv = st.init_fields.get('b')
                    ctx.check(isinstance(fv, Num) and fv.r == sp.rat('B'), rule, f"{tag}: b = int(beta*a_l)",
                              f"code {show(fv, 200)}; spec {sym.show(sp.rat('B'))}", st.init.loc(), st.init.qualname, f"b:{a_given}")
            elif exp:
                fv = st.init_fields.get('beta')
                ctx.check(isinstance(fv, Num) and fv.r == st.param_syms.get('beta'), rule, f"{tag}: beta stored unchanged",
                          show(fv, 100), st.init.loc(), st.init.qualname, f"beta:{a_given}")


def _is_nfold_grid(rx: Num, st: Strategy) -> bool:
    """the grid is oversample_linspace(self.x, n), possibly computed relative to an offset s: s + oversample_linspace(self.x - s, n)
    (the helper is affine-equivariant in its array argument, so every n-th point is an original abscissa over the reals)"""
    els = [a for a in rx.r.atoms() if sym.ATOMS.head(a) == 'el' and isinstance(sym.ATOMS.args(a)[0], Ref) and call_is(sym.ATOMS.args(a)[0].term, 'oversample_linspace')]
    if len(els) != 1 or not (sym.ATOMS.args(els[0])[1] == sym.idx()):
        return False
    call = sym.ATOMS.args(els[0])[0].term
    shift = rx.r - Rat.atom(els[0])
    if sym.free_idx(shift):
        return False
    arg = call.kw('a')
    return isinstance(arg, Num) and arg.length is not None and arg.r == st.X0.r - shift and isinstance(call.kw('num'), Num) and call.kw('num').r == st.n


def check_other_strategies(ctx):
    ctx.rule('C05.4', 'PiecewiseConstantRFA.rfa returns the initial oversampling unchanged: (oversample_linspace(x, n), oversample_piecewise_constant(y, n))')
    ctx.rule('C05.5', 'CubicSplineRFA samples CubicSpline(self.x, self.y) on the oversampled grid (every n-th grid point is an original abscissa, C04.2); '
                      'interpolation at the knots is SciPy\'s contract (trusted)')
    st = strategy(ctx.prog, 'PiecewiseConstantRFA')
    res = st.result
    ok = isinstance(res, Tup) and len(res.items) == 2
    if ok:
        ry = unwrap(res.items[1])
        ok = call_is(ry, 'oversample_piecewise_constant') and veq(unwrap(ry.kw('a')), unwrap(st.Y0)) and ry.kw('num').r == st.n
    ctx.check(ok and not st.stores, 'C05.4', 'PiecewiseConstantRFA reproduces each average exactly (values are the piecewise-constant oversampling, never written)',
              show(res, 300), st.rfa.loc(), st.rfa.qualname, 'pc')
    st = strategy(ctx.prog, 'CubicSplineRFA')
    res = st.result
    ok = isinstance(res, Tup) and len(res.items) == 2
    detail = show(res, 400)
    if ok:
        rx, ry = res.items
        if not isinstance(rx, Num):
            from ..values import term_as_num as _tn
            rx = _tn(rx, True, 'ndarray')
        apps = [t for t in walk_vals(ry) if isinstance(t, Term) and t.head == 'apply' and len(t.args) == 2]
        okv = False
        for t in apps:
            f = t.args[0]
            if isinstance(f, Term) and f.head == 'lib:scipy.interpolate.CubicSpline' and targ(f, 'x', 0) is not None and targ(f, 'y', 1) is not None and \
                    veq(unwrap(targ(f, 'x', 0)), unwrap(st.X0)) and veq(unwrap(targ(f, 'y', 1)), unwrap(st.Y0)):
                g = t.args[1]
                if not isinstance(g, Num) and isinstance(g, Term):
                    from ..values import term_as_num as _tn
                    g = _tn(g, True, 'ndarray')
                okv = okv or (isinstance(g, Num) and g.r == rx.r)
        ok = okv and _is_nfold_grid(rx, st)
    ctx.check(ok, 'C05.5', 'CubicSplineRFA: y = CubicSpline(self.x, self.y) evaluated (point by point or at once) on the returned n-fold grid, which contains every original abscissa', detail,
              st.rfa.loc(), st.rfa.qualname, 'cubic')
    # SciPy builds a periodic spline only for a series whose first and last value are identical (it raises ValueError otherwise): the strategy
    # is defined for every series only if periodic boundary conditions are requested under exactly that test
    for t in apps if ok else []:
        f = t.args[0]
        if not (isinstance(f, Term) and f.head == 'lib:scipy.interpolate.CubicSpline'):
            continue
        bc = targ(f, 'bc_type', 3)
        if bc is None:
            continue
        conds = _when_equal(bc, 'periodic')
        inst = 'CubicSplineRFA: periodic boundary conditions are requested only for a series whose end values are identical (SciPy refuses any other)'
        if conds is None:
            ctx.unknown('C05.5', inst, f"bc_type = {show(bc, 160)}: not a selection between literal options", st.rfa.loc(), st.rfa.qualname, 'cubic-bc')
            continue
        y0 = unwrap(st.Y0)
        bad = []
        for c in conds:
            parts = list(c.args) if isinstance(c, P) and c.op == 'and' else [c]
            exact = any(isinstance(q, P) and q.op == '==' and len(q.args) == 2 and all(isinstance(a_, Num) and a_.length is None for a_ in q.args)
                        and _ends_of(q.args, y0) for q in parts)
            if not exact:
                bad.append(str(c)[:160])
        ctx.check(not bad, 'C05.5', inst, f"periodic when {bad[:2]}", st.rfa.loc(), st.rfa.qualname, 'cubic-bc')
    ctx.trust('scipy.interpolate.CubicSpline interpolates its knots')


def _when_equal(v, lit):
    """conditions under which a selection between literal values yields `lit`; None when the value is not such a selection"""
    from ..values import Gam, Const as _C, TRUE
    if isinstance(v, _C):
        return [TRUE] if v.v == lit else []
    if isinstance(v, Gam):
        a, b = _when_equal(v.a, lit), _when_equal(v.b, lit)
        if a is None or b is None:
            return None
        def conj(p, q):
            return p if (isinstance(q, _C) and q.v is True) else P('and', p, q)
        from ..values import p_not
        return [conj(v.pred, q) for q in a] + [conj(p_not(v.pred), q) for q in b]
    return None


def _ends_of(args, y0) -> bool:
    """the two compared values are the first and the last element of the series"""
    idx = []
    for a in args:
        ats = list(a.r.atoms())
        if len(ats) != 1 or not (a.r == Rat.atom(ats[0])) or sym.ATOMS.head(ats[0]) != 'el':
            return False
        ref, ix = sym.ATOMS.args(ats[0])
        t_ = ref.term if hasattr(ref, 'term') and ref.term is not None else ref
        if not (veq(unwrap(t_), y0) if isinstance(t_, Val) else False):
            yn = y0 if isinstance(y0, Num) else None
            if yn is None or not any(sym.ATOMS.head(b_) == 'el' and sym.ATOMS.args(b_)[0] is ref for b_ in sym.all_atoms(yn.r)):
                return False
        idx.append(ix)
    ln = y0.length if isinstance(y0, Num) else None
    if ln is None:
        return False
    want = {sym.show(C(0)), sym.show(ln - C(1))}
    return {sym.show(i_) for i_ in idx} == want


def run(ctx):
    ctx.rule('C05.1', 'plateau = never-written samples: the result array starts as the piecewise-constant oversampling; every in-place store hits '
                      'sample i of the interval k of the enclosing loop, with i confined by its range to the left window [0, a_l) or the right '
                      'window [n - a_r, n]; sub-ranges of a side tile exactly; hence samples a_l .. n-a_r-1 keep the average')
    ctx.rule('C05.6', 'one border value per border: the left piece at i=0 equals the documented interpolation between the plateau ends of the '
                      'adjacent intervals and the right piece at i=n equals the next interval\'s; transitions meet the plateau at a_l / n-a_r; '
                      'sub-pieces agree where they meet (the mechanism behind "monotonically from each border value to the plateau")')
    ctx.rule('C05.3', 'constants are reproduced: substituting every average by one symbol c in any stored value yields c (all branches, tie branches included)')
    total = 0
    for clsname, adaptive, exp in WINDOW:
        st = strategy(ctx.prog, clsname)
        if st.issues:
            raise AnalysisError(f"C05: {clsname} not canonicalisable: {st.issues[:3]}")
        if st.X_ext is None or st.Y_ext is None:
            raise AnalysisError(f"C05: {clsname}.rfa does not build its arrays through extend_linspace / extend_constant")
        check_initial(ctx, st, clsname, with_x=False)      # the abscissa grid is C04's obligation
        check_plateau(ctx, st, clsname, adaptive, exp)
        check_borders(ctx, st, clsname, adaptive, exp)
        total += check_constants(ctx, clsname)
    ctx.floor('C05.3', total, 24, 'stored values checked for constant reproduction')
    check_window_sizes(ctx)
    check_adaptive_sum(ctx)
    from . import c06
    ctx.rule('C05.7', 'the adaptive split is computed from the constructor\'s window size a (and smoothing) and the extended averages: the bound "at most a - 1 samples differ" refers to that a')
    c06.check_adaptive_forwarding(ctx, 'C05.7')
    ctx.rule('C05.8', 'tie cases (equal neighbouring averages: a window, or its linear part, of zero samples), one scenario at a time: every store has an '
                      'empty sample range, stores the documented shape with the zero windows substituted, or re-writes the plateau value - so a flat stretch '
                      'stays flat and no placeholder value of a tie branch reaches a sample')
    n_t = c06.check_ties(ctx, 'LinearAdaptiveRFA', False, rule='C05.8') + c06.check_ties(ctx, 'ExpAdaptiveRFA', True, rule='C05.8')
    ctx.floor('C05.8', n_t, 40, 'stores examined under tie scenarios')
    check_other_strategies(ctx)
    from . import c17
    c17.check_oversample(ctx)
    ctx.notes.append('Derived by hand from C05.1 + C05.2 + C06.2 (not machine-checked): at most a_l + a_r - 1 <= a - 1 samples of an interval '
                     'differ from its average, because sample 0 of the left piece and the plateau-side anchors equal the documented end values.')
    ctx.notes.append('NOT DECIDED (inequalities over the reals): values lie between neighbouring averages; monotone approach to the plateau; non-overshoot.')
    ctx.trust('window sizes are non-negative integers (int() of non-negative quantities) when ranges are compared',
              'array helpers uninterpreted (C17)')
    ctx.assume('parameters in the documented ranges')
