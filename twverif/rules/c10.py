"""C10 - nearest-sample search returns the defined neighbour (DESIGN 4.10)

The scans are loops over runtime data; their full correctness needs a loop-invariant proof (outside this family).
Decided: the dispatcher, that values are used only through comparisons, and the strictness / tie / fill table of the
recognised two-pointer skeleton.  An unrecognised skeleton is an ANALYSIS-ERROR, not a violation."""
from __future__ import annotations

import ast
from typing import Dict, List, Optional, Tuple

from .. import sym
from ..values import Num, Const, Tup, Term, Val, P, veq, arr_param
from ..model import AnalysisError, FuncInfo
from ..symeval import Evaluator
from .common import show, REPO_RESULT_KIND, SAU, same, inline_except, SCANS
from .c20 import dispatch_fallthrough

LOWER = SAU + 'find_closest_lower_equal_element_indices_to_values'
HIGHER = SAU + 'find_closest_higher_equal_element_indices_to_values'
CLOSEST = SAU + 'find_closest_lower_or_higher_element_indices_to_values'
DISPATCH = SAU + 'find_closest_element_indices_to_values'

FLIP = {'Lt': 'Gt', 'Gt': 'Lt', 'LtE': 'GtE', 'GtE': 'LtE', 'Eq': 'Eq', 'NotEq': 'NotEq'}
SYM = {'Lt': '<', 'LtE': '<=', 'Gt': '>', 'GtE': '>='}


class Skeleton:
    """roles of the local variables and the recognised statements of one scan function"""

    def __init__(self, fi: FuncInfo):
        self.fi = fi
        self.roles: Dict[str, str] = {}
        self.errors: List[str] = []
        self.facts: Dict[str, object] = {}
        self._recognise()

    def err(self, msg):
        self.errors.append(msg)

    # ---- helpers
    def role(self, node) -> Optional[str]:
        if isinstance(node, ast.Name):
            return self.roles.get(node.id)
        return None

    def conjuncts(self, test) -> List[ast.expr]:
        if isinstance(test, ast.BoolOp) and isinstance(test.op, ast.And):
            out = []
            for v in test.values:
                out += self.conjuncts(v)
            return out
        return [test]

    def classify(self, c) -> Tuple[str, tuple]:
        """('notnone', role) | ('isnone', role) | ('cmp', (role_left, op, role_right)) | ('cmpdiff', ...) | ('truthy', role) | ('other', src)"""
        if isinstance(c, ast.Compare) and len(c.ops) == 1:
            op, l, r = c.ops[0], c.left, c.comparators[0]
            if isinstance(op, (ast.Is, ast.IsNot)) and isinstance(r, ast.Constant) and r.value is None and self.role(l):
                return ('isnone' if isinstance(op, ast.Is) else 'notnone', (self.role(l),))
            if isinstance(op, (ast.Eq, ast.NotEq)) and isinstance(r, ast.Constant) and r.value is None and self.role(l):
                return ('other', (f"== None comparison of {self.role(l)} (element-wise for arrays; identity test expected)",))
            if type(op).__name__ in SYM and self.role(l) and self.role(r):
                return ('cmp', (self.role(l), type(op).__name__, self.role(r)))
            if type(op).__name__ in SYM and isinstance(l, ast.BinOp) and isinstance(r, ast.BinOp) and isinstance(l.op, ast.Sub) and isinstance(r.op, ast.Sub):
                return ('cmpdiff', ((self.role(l.left), self.role(l.right)), type(op).__name__, (self.role(r.left), self.role(r.right))))
        if isinstance(c, ast.Name) and self.role(c):
            return ('truthy', (self.role(c),))
        if isinstance(c, ast.UnaryOp) and isinstance(c.op, ast.Not) and isinstance(c.operand, ast.Name) and self.role(c.operand):
            return ('falsy', (self.role(c.operand),))
        return ('other', (ast.unparse(c),))

    @staticmethod
    def norm_cmp(t):
        """normalise a value comparison to (lookup, op, x-side) orientation"""
        l, op, r = t
        if l in ('x_val', 'x_next') and r == 'lookup':
            return ('lookup', FLIP[op], l)
        return (l, op, r)

    # ---- recognition
    def _recognise(self):
        fi = self.fi
        params = fi.params()
        if len(params) < 2:
            return self.err('expected (x, lookup, ...) parameters')
        px, pl = params[0], params[1]
        self.fill = params[2] if len(params) > 2 else None
        body = fi.body_nodes()
        # role assignment from the initialisation statements
        loops = []
        for st in body:
            if isinstance(st, ast.Assign) and len(st.targets) == 1 and isinstance(st.targets[0], ast.Name):
                t, v = st.targets[0].id, st.value
                if isinstance(v, ast.Call) and isinstance(v.func, ast.Name) and v.func.id == 'iter' and len(v.args) == 1 and isinstance(v.args[0], ast.Name):
                    self.roles[t] = 'x_it' if v.args[0].id == px else ('lookup_it' if v.args[0].id == pl else 'it?')
                elif isinstance(v, ast.Call) and isinstance(v.func, ast.Name) and v.func.id == 'next' and v.args and isinstance(v.args[0], ast.Name):
                    it = self.roles.get(v.args[0].id)
                    if it == 'x_it':
                        self.roles[t] = 'x_val' if 'x_val' not in self.roles.values() else 'x_next'
                        if self.roles[t] == 'x_next' and not (len(v.args) == 2 and isinstance(v.args[1], ast.Constant) and v.args[1].value is None):
                            self.err('the look-ahead element is not fetched with a None sentinel')
                    elif it == 'lookup_it':
                        self.roles[t] = 'lookup'
                elif isinstance(v, ast.Constant) and v.value == 0 and not isinstance(v.value, bool):
                    self.roles[t] = 'x_idx' if 'x_idx' not in self.roles.values() else 'lookup_idx'
                elif isinstance(v, ast.Call) and ast.unparse(v.func) in ('np.zeros', 'np.empty', 'numpy.zeros', 'np.full'):
                    self.roles[t] = 'indices'
            elif isinstance(st, ast.While):
                loops.append(st)
        need = {'x_it', 'lookup_it', 'x_val', 'x_next', 'lookup', 'x_idx', 'lookup_idx', 'indices'}
        have = set(self.roles.values())
        if not need <= have:
            return self.err(f"initialisation not recognised (missing roles {sorted(need - have)})")
        # counters: which zero-initialised variable indexes x?  decided by use: the one stored into `indices[...] = ...` value side
        if len(loops) != 2:
            return self.err(f"expected the prefix loop and the main loop, found {len(loops)} top-level while loops")
        prefix, main = loops
        self._fix_counters(prefix, main)
        self._prefix(prefix)
        self._main(main)
        ret = [s for s in body if isinstance(s, ast.Return)]
        if not (len(ret) == 1 and self.role(ret[0].value) == 'indices'):
            self.err('the function does not return the index array')

    def _fix_counters(self, prefix, main):
        """x_idx is the counter that is advanced inside the inner loop; lookup_idx the one used as store index"""
        stores = [n for n in ast.walk(main) if isinstance(n, ast.Subscript) and isinstance(n.ctx, ast.Store) and self.role(n.value) == 'indices']
        idx_names = {n.slice.id for n in stores if isinstance(n.slice, ast.Name)}
        zero = [k for k, v in self.roles.items() if v in ('x_idx', 'lookup_idx')]
        for k in zero:
            self.roles[k] = 'lookup_idx' if k in idx_names else 'x_idx'
        if sorted(self.roles[k] for k in zero) != ['lookup_idx', 'x_idx']:
            self.err('cannot tell the two counters apart')

    def _advance_lookup(self, stmts) -> bool:
        """`lookup = next(lookup_it, None)` and `lookup_idx += 1` present, after the stores"""
        nxt = [s for s in stmts if isinstance(s, ast.Assign) and self.role(s.targets[0]) == 'lookup' and isinstance(s.value, ast.Call)
               and getattr(s.value.func, 'id', '') == 'next' and len(s.value.args) == 2 and self.role(s.value.args[0]) == 'lookup_it'
               and isinstance(s.value.args[1], ast.Constant) and s.value.args[1].value is None]
        inc = [s for s in stmts if isinstance(s, ast.AugAssign) and self.role(s.target) == 'lookup_idx' and isinstance(s.op, ast.Add)
               and isinstance(s.value, ast.Constant) and s.value.value == 1]
        return len(nxt) == 1 and len(inc) == 1

    def value_of(self, e) -> str:
        """normal form of a stored index expression"""
        if isinstance(e, ast.IfExp):
            t = self.classify(e.test)
            fl = ast.unparse(e.test)
            if isinstance(e.test, ast.Name) and e.test.id == self.fill:
                return f"fill?{self.value_of(e.body)}:{self.value_of(e.orelse)}"
            if isinstance(e.test, ast.UnaryOp) and isinstance(e.test.op, ast.Not) and isinstance(e.test.operand, ast.Name) and e.test.operand.id == self.fill:
                return f"fill?{self.value_of(e.orelse)}:{self.value_of(e.body)}"
            return f"({fl})?{self.value_of(e.body)}:{self.value_of(e.orelse)}"
        if self.role(e):
            return self.role(e)
        if isinstance(e, ast.BinOp) and isinstance(e.op, ast.Add) and self.role(e.left) == 'x_idx' and isinstance(e.right, ast.Constant) and e.right.value == 1:
            return 'x_idx+1'
        if isinstance(e, ast.BinOp) and isinstance(e.op, ast.Add) and self.role(e.right) == 'x_idx' and isinstance(e.left, ast.Constant) and e.left.value == 1:
            return 'x_idx+1'
        if isinstance(e, ast.Constant):
            return repr(e.value)
        if isinstance(e, ast.UnaryOp) and isinstance(e.op, ast.USub) and isinstance(e.operand, ast.Constant):
            return repr(-e.operand.value)
        if isinstance(e, ast.Call) and getattr(e.func, 'id', '') == 'len' and len(e.args) == 1 and isinstance(e.args[0], ast.Name) and e.args[0].id == self.fi.params()[0]:
            return 'len(x)'
        return 'expr:' + ast.unparse(e)

    def _store(self, s) -> Optional[str]:
        if isinstance(s, ast.Assign) and len(s.targets) == 1 and isinstance(s.targets[0], ast.Subscript) and self.role(s.targets[0].value) == 'indices':
            if self.role(s.targets[0].slice) != 'lookup_idx':
                self.err(f"result stored at {ast.unparse(s.targets[0].slice)} instead of the query counter")
            return self.value_of(s.value)
        return None

    def _prefix(self, lp: ast.While):
        cs = [self.classify(c) for c in self.conjuncts(lp.test)]
        self.facts['prefix_cond'] = cs
        vals = [self._store(s) for s in lp.body]
        vals = [v for v in vals if v is not None]
        self.facts['prefix_value'] = vals[0] if len(vals) == 1 else vals
        if not self._advance_lookup(lp.body):
            self.err('prefix loop does not advance to the next query exactly once')
        extra = [s for s in lp.body if not (self._store(s) is not None) and not isinstance(s, (ast.Assign, ast.AugAssign))]
        if extra:
            self.err(f"unexpected statement in the prefix loop: {ast.unparse(extra[0])[:60]}")

    def _main(self, lp: ast.While):
        self.facts['main_cond'] = [self.classify(c) for c in self.conjuncts(lp.test)]
        inner = [s for s in lp.body if isinstance(s, ast.While)]
        if len(inner) != 1:
            return self.err('main loop: expected exactly one inner advance loop')
        adv = inner[0]
        self.facts['advance_cond'] = [self.classify(c) for c in self.conjuncts(adv.test)]
        # body of the advance loop
        carried = False
        ok_next = ok_inc = False
        for s in adv.body:
            if isinstance(s, ast.Assign) and self.role(s.targets[0]) == 'x_val' and self.role(s.value) == 'x_next':
                carried = True
            elif isinstance(s, ast.Assign) and self.role(s.targets[0]) == 'x_next' and isinstance(s.value, ast.Call) and getattr(s.value.func, 'id', '') == 'next' \
                    and len(s.value.args) == 2 and self.role(s.value.args[0]) == 'x_it' and isinstance(s.value.args[1], ast.Constant) and s.value.args[1].value is None:
                ok_next = True
            elif isinstance(s, ast.AugAssign) and self.role(s.target) == 'x_idx' and isinstance(s.op, ast.Add) and isinstance(s.value, ast.Constant) and s.value.value == 1:
                ok_inc = True
            elif isinstance(s, ast.If) and all(isinstance(b, ast.Break) for b in s.body) and not s.orelse:
                c = self.classify(s.test)
                if c != ('isnone', ('x_next',)):
                    self.err(f"advance loop: early exit on {c}")
            else:
                self.err(f"unexpected statement in the advance loop: {ast.unparse(s)[:60]}")
        if not (ok_next and ok_inc):
            self.err('advance loop does not step the element and its index together')
        self.facts['carries_x_val'] = carried
        # result assignment after the inner loop
        after = lp.body[lp.body.index(adv) + 1:]
        before = lp.body[:lp.body.index(adv)]
        if any(not isinstance(s, ast.Expr) for s in before):
            self.err('statements before the advance loop in the main loop')
        self.facts['result'] = self._result(after)
        if not self._advance_lookup(after):
            self.err('main loop does not advance to the next query exactly once')

    def _result(self, stmts):
        out = []
        for s in stmts:
            v = self._store(s)
            if v is not None:
                out.append(('always', v))
            elif isinstance(s, ast.If):
                out.append(('if', self.classify(s.test), self._result(s.body), self._result(s.orelse)))
        return out


TABLE = {
    'lower': {
        'prefix_cond': [('notnone', ('lookup',)), ('cmp', ('lookup', 'Lt', 'x_val'))],
        'prefix_value': 'fill?x_idx:-1',
        'main_cond': [('notnone', ('lookup',))],
        'advance_cond': [('notnone', ('x_next',)), ('cmp', ('lookup', 'GtE', 'x_next'))],
        'result': [('always', 'x_idx')],
    },
    'higher': {
        'prefix_cond': [('notnone', ('lookup',)), ('cmp', ('lookup', 'LtE', 'x_val'))],
        'prefix_value': 'x_idx',
        'main_cond': [('notnone', ('lookup',))],
        'advance_cond': [('notnone', ('x_next',)), ('cmp', ('lookup', 'Gt', 'x_next'))],
        'result': [('if', ('isnone', ('x_next',)), [('always', 'fill?x_idx:len(x)')], [('always', 'x_idx+1')])],
    },
    'closest': {
        'prefix_cond': [('notnone', ('lookup',)), ('cmp', ('lookup', 'LtE', 'x_val'))],
        'prefix_value': 'x_idx',
        'main_cond': [('notnone', ('lookup',))],
        'advance_cond': [('notnone', ('x_next',)), ('cmp', ('lookup', 'Gt', 'x_next'))],
        'result': [('if', ('isnone', ('x_next',)), [('always', 'x_idx')],
                    [('if', ('cmpdiff', (('lookup', 'x_val'), 'LtE', ('x_next', 'lookup'))), [('always', 'x_idx')], [('always', 'x_idx+1')])])],
        'carries_x_val': True,
    },
}
WHY = {
    'prefix_cond': 'queries below the first element (strictness decides a query equal to the first element)',
    'prefix_value': 'value for queries outside the range on the low side (fill_not_valid selection)',
    'main_cond': 'the main loop runs until the queries are exhausted (sentinel compared by identity)',
    'advance_cond': 'advance while the next element is still <= / < the query (strictness decides a query equal to an element)',
    'result': 'index written for the query (exhausted array, fill_not_valid selection, tie -> lower)',
    'carries_x_val': 'the current element value is carried along for the distance comparison',
}


def _fill_branch(res):
    """the part of a result table that matters when fill_not_valid is True"""
    out = []
    for item in res or []:
        if item[0] == 'always':
            v = item[1]
            out.append(('always', v[5:].split(':')[0] if isinstance(v, str) and v.startswith('fill?') else v))
        elif item[0] == 'if':
            out.append(('if', item[1], _fill_branch(item[2]), _fill_branch(item[3])))
    return out


def norm(facts):
    out = dict(facts)
    for k in ('prefix_cond', 'advance_cond', 'main_cond'):
        out[k] = [(c[0], Skeleton.norm_cmp(c[1])) if c[0] == 'cmp' else c for c in facts.get(k, [])]
    return out


def check_scans(ctx, kinds=('lower', 'higher', 'closest'), fill_true_only=False):
    ctx.rule('C10.3', 'tie / strictness table of the recognised two-pointer skeleton: lower - prefix <, advance <=, result x_idx, invalid prefix value 0 / -1 by '
                      'fill_not_valid; higher - prefix <=, advance <, result x_idx+1, or x_idx / len(x) when x is exhausted; closest - prefix <=, advance < with the '
                      'current value carried, tie <= -> lower; sentinels (None) are tested by identity, never by truthiness; no extra condition weakens a comparison')
    ctx.rule('C10.2', 'element values of x and lookup are used only in comparisons (and, for closest, in the two differences that are compared); every stored '
                      'result is built from integer counters, len(x), 0, -1')
    for kind, q in (('lower', LOWER), ('higher', HIGHER), ('closest', CLOSEST)):
        if kind not in kinds:
            continue
        fi = ctx.prog.func(q)
        sk = Skeleton(fi)
        if sk.errors:
            # distinguish "different algorithm" from "recognised skeleton with a deviating statement"
            fatal = [e for e in sk.errors if 'not recognised' in e or 'expected the prefix loop' in e or 'expected (x, lookup' in e or 'expected exactly one inner' in e]
            if fatal:
                raise AnalysisError(f"C10.3: {fi.name}: two-pointer skeleton not recognised: {fatal[0]}")
            for e in sk.errors:
                ctx.fail('C10.3', f"{kind}: skeleton statement", e, fi.loc(), fi.qualname, f"{kind}:skeleton:{e[:40]}")
        facts = norm(sk.facts)
        want = TABLE[kind]
        for key, expected in want.items():
            got = facts.get(key)
            if fill_true_only and kind == 'lower' and key == 'prefix_cond':
                # with filling on, a query equal to the first element gets index 0 from the prefix loop as well as from the main loop
                if got in (expected, [('notnone', ('lookup',)), ('cmp', ('lookup', 'LtE', 'x_val'))]):
                    got = expected
            if fill_true_only and isinstance(got, str) and got.startswith('fill?') and isinstance(expected, str) and expected.startswith('fill?'):
                got, expected = got[5:].split(':')[0], expected[5:].split(':')[0]
            if fill_true_only and key == 'result':
                got, expected = _fill_branch(got), _fill_branch(expected)
            ctx.check(got == expected, 'C10.3', f"{kind}: {WHY[key]}", f"code:     {got}\nexpected: {expected}", fi.loc(), fi.qualname, f"{kind}:{key}")
        ctx.sample({'rule': 'C10.3', 'scan': kind, 'prefix': str(facts.get('prefix_cond')), 'advance': str(facts.get('advance_cond')), 'result': str(facts.get('result'))[:200]})
        # C10.2 taint: value roles only inside Compare nodes / role-to-role copies
        value_names = {k for k, v in sk.roles.items() if v in ('x_val', 'x_next', 'lookup')}
        parents = {}
        for n in ast.walk(fi.node):
            for c in ast.iter_child_nodes(n):
                parents[c] = n
        bad = []
        for n in ast.walk(fi.node):
            if isinstance(n, ast.Name) and n.id in value_names and isinstance(n.ctx, ast.Load):
                p = parents.get(n)
                okp = isinstance(p, ast.Compare) or (isinstance(p, ast.BinOp) and isinstance(p.op, ast.Sub) and isinstance(parents.get(p), ast.Compare)) \
                    or (isinstance(p, ast.Assign) and isinstance(p.targets[0], ast.Name) and p.targets[0].id in value_names) \
                    or (isinstance(p, ast.BoolOp)) or (isinstance(p, ast.UnaryOp) and isinstance(p.op, ast.Not)) or isinstance(p, (ast.While, ast.If))
                if not okp:
                    bad.append(f"{n.id} at line {n.lineno} in {type(p).__name__}")
        ctx.check(not bad, 'C10.2', f"{kind}: element values flow only into comparisons", f"{bad[:4]}", fi.loc(), fi.qualname, f"{kind}:taint")
        stored = []
        for n in ast.walk(fi.node):
            if isinstance(n, ast.Assign) and isinstance(n.targets[0], ast.Subscript) and sk.role(n.targets[0].value) == 'indices':
                stored.append(sk.value_of(n.value))
        okv = all(all(part in ('x_idx', 'x_idx+1', 'len(x)', '0', '-1') for part in v.replace('fill?', '').split(':')) for v in stored)
        ctx.check(okv and stored, 'C10.2', f"{kind}: every stored index is built from counters only", f"{stored}", fi.loc(), fi.qualname, f"{kind}:values")
        # sentinel rule: truthiness tests on value roles are forbidden (0.0 is a legitimate element)
        truthy = [c for key in ('prefix_cond', 'advance_cond', 'main_cond') for c in facts.get(key, []) if c[0] in ('truthy', 'falsy')]
        for n in ast.walk(fi.node):
            if isinstance(n, (ast.If, ast.While, ast.IfExp)):
                for c in sk.conjuncts(n.test):
                    cl = sk.classify(c)
                    if cl[0] in ('truthy', 'falsy') and cl[1][0] in ('x_val', 'x_next', 'lookup'):
                        truthy.append(cl)
        ctx.check(not truthy, 'C10.3', f"{kind}: the None sentinel is tested by identity, not by truthiness (an element equal to 0 is a legitimate value)",
                  f"{truthy[:3]}", fi.loc(), fi.qualname, f"{kind}:sentinel")


def check_dispatcher(ctx):
    ctx.rule('C10.1', "the dispatcher maps exactly 'closest', 'lower', 'higher' to the three scans, forwards (x, lookup) in order and fill_not_valid to the two "
                      "one-sided scans; any other strategy raises ValueError")
    fi = ctx.prog.func(DISPATCH)
    lits = dispatch_fallthrough(ctx, DISPATCH, 'strategy', 'search strategy', ['closest', 'lower', 'higher'])
    ctx.check(sorted(lits) == ['closest', 'higher', 'lower'], 'C10.1', 'dispatched names', f"{lits}", fi.loc(), fi.qualname, 'names')
    L, Q = sym.sym('L'), sym.sym('Q')
    x, lk = arr_param('x', length=L), arr_param('lookup', length=Q)
    fill = Term('param', (Const('fill_not_valid'),))
    for lit, target, fwd in (('closest', CLOSEST, False), ('lower', LOWER, True), ('higher', HIGHER, True)):
        ev = Evaluator(ctx.prog, inline=inline_except(*SCANS), opaque_kind=REPO_RESULT_KIND)
        res, st = ev.run_function(fi, args={'x': x, 'lookup': lk, 'strategy': Const(lit), 'fill_not_valid': fill})
        calls = [e for e in ev.events if e.kind == 'call']
        ok = len(calls) == 1 and calls[0].data['callee'].qualname == target and same(res, calls[0].data['term'])
        if ok:
            b = calls[0].data['bound']
            tp = ctx.prog.func(target).params()
            ok = same(b.get(tp[0]), x) and same(b.get(tp[1]), lk) and (not fwd or veq(b.get(tp[2]), fill))
        ctx.check(ok, 'C10.1', f"'{lit}' -> {target.rsplit('.', 1)[1]}(x, lookup{', fill_not_valid' if fwd else ''})",
                  f"{[(c.data['callee'].name, {k: show(v, 40) for k, v in c.data['bound'].items()}) for c in calls]}", fi.loc(), fi.qualname, f"dispatch:{lit}")
    # defaults
    for q in (LOWER, HIGHER, DISPATCH):
        f = ctx.prog.func(q)
        a = f.node.args
        ps = f.params()
        d = dict(zip(ps[len(ps) - len(a.defaults):], a.defaults)).get('fill_not_valid')
        ctx.check(isinstance(d, ast.Constant) and d.value is True, 'C10.1', f"{f.name}: fill_not_valid defaults to True (out-of-range queries yield the first / last index)",
                  ast.unparse(d) if d is not None else 'none', f.loc(), f.qualname, f"default:{f.name}")


def run(ctx):
    check_dispatcher(ctx)
    check_scans(ctx)
    ctx.notes.append('NOT DECIDED: that the skeleton with the right table is correct for every input (termination, pointer invariants, duplicate queries): needs a '
                     'loop-invariant proof or execution - outside static analysis as practised here.')
    ctx.trust('each table entry is a necessary condition: a query equal to an element, exactly half-way, or outside the range distinguishes it')
