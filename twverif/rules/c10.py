"""C10 - nearest-sample search returns the defined neighbour (DESIGN 4.10)

The scans are loops over runtime data; their full correctness needs a loop-invariant proof (outside this family).
Decided: the dispatcher, that values are used only through comparisons, and the strictness / tie / fill table of the
two-pointer scans, read off the evaluated loops (scanmodel.py) and compared through finite decision tables over the
orderings of the compared values (truth.py).  A scan of another shape is an ANALYSIS-ERROR, not a violation."""
from __future__ import annotations

import ast
from typing import Dict, List, Optional, Tuple

from .. import sym
from ..sym import C, Rat
from ..values import Num, Const, Tup, Term, Val, P, Gam, veq, arr_param, gamma, p_not, walk_vals, term_as_num
from ..model import AnalysisError, FuncInfo
from ..symeval import Evaluator
from ..scanmodel import ScanModel, Unrecognised, p_and, roots
from ..truth import Universe, equivalent
from .common import show, REPO_RESULT_KIND, SAU, same, inline_except, SCANS
from .c20 import dispatch_fallthrough

LOWER = SAU + 'find_closest_lower_equal_element_indices_to_values'
HIGHER = SAU + 'find_closest_higher_equal_element_indices_to_values'
CLOSEST = SAU + 'find_closest_lower_or_higher_element_indices_to_values'
DISPATCH = SAU + 'find_closest_element_indices_to_values'

WHY = {
    'prefix_cond': 'queries below the first element (strictness decides a query equal to the first element)',
    'prefix_value': 'value for queries outside the range on the low side (fill_not_valid selection)',
    'main_cond': 'the main loop runs until the queries are exhausted (sentinel compared by identity)',
    'advance_cond': 'advance while the next element is still <= / < the query (strictness decides a query equal to an element)',
    'result': 'index written for the query (exhausted array, fill_not_valid selection, tie -> lower)',
    'updates': 'every iteration advances its sequence exactly once: value and counter together',
}
def _decide_table(ctx, m: ScanModel, loop, expected: Val, rule, label, fi, construct, fixed=None, allowed_terms=()):
    """the value stored for the current query, as a decision table over the orderings / flags the code tests, against the
    documented value"""
    stores = m.stores(loop)
    if not stores:
        if m.result_stores_outside_loops():
            return ctx.unknown(rule, label, 'the result for these queries is not written in this loop but by a slice / vectorised store outside the loops: '
                                            'not a shape the table is read from', fi.loc(), fi.qualname, construct)
        return ctx.fail(rule, label, 'no result is stored for the query in this loop', fi.loc(), fi.qualname, construct)
    u = Universe()
    u.collect(expected)
    nf, nb = len(u.forms), len(u.bools)
    guards = [m.guard_in(loop, e) for e in stores]
    for g, e in zip(guards, stores):
        u.collect(g)
        u.collect(e.data['value'])
    extra = [sym.show(f) + ' ? 0' for f in u.forms[nf:]] + u.bools[nb:]
    fx = {('b', k): v for k, v in (fixed or {}).items() if k in u.bool_vals}
    n = 0
    for asg in u.assignments(fx):
        n += 1
        live = [e for g, e in zip(guards, stores) if u.pred(g, asg)]
        want = u.value(expected, asg)
        if not live:
            if extra:
                return ctx.unknown(rule, label, f"no store when {u.show(asg)} (conditions outside the documented vocabulary: {extra[:3]})", fi.loc(), fi.qualname, construct)
            if m.result_stores_outside_loops():
                return ctx.unknown(rule, label, f"no store in this loop when {u.show(asg)}; part of the result is written by slice / vectorised stores outside the loops",
                                   fi.loc(), fi.qualname, construct)
            return ctx.fail(rule, label, f"nothing is stored when {u.show(asg)}", fi.loc(), fi.qualname, construct)
        got = u.value(live[-1].data['value'], asg)
        if not (isinstance(got, Rat) and isinstance(want, Rat) and got == want):
            if extra:
                return ctx.unknown(rule, label, f"differs when {u.show(asg)}, under conditions outside the documented vocabulary {extra[:3]}", fi.loc(), fi.qualname, construct)
            return ctx.fail(rule, label, f"when {u.show(asg)}: code stores {show(got, 80) if not isinstance(got, Rat) else sym.show(got)}, "
                            f"documented {sym.show(want) if isinstance(want, Rat) else want}", f"{fi.file}:{getattr(live[-1].node, 'lineno', fi.node.lineno)}",
                            fi.qualname, construct)
    return ctx.ok(rule, label, f"{len(stores)} guarded store(s), {n} cases over {len(u.forms)} orderings and {len(u.bools)} flags", fi.loc(), fi.qualname, construct)


def _cond(ctx, got: Val, expected: List[Val], rule, label, fi, construct):
    last = None
    for exp in expected:
        verdict, detail = equivalent(got, exp)
        if verdict:
            return ctx.ok(rule, label, f"{got}  ==  {exp}  ({detail})", fi.loc(), fi.qualname, construct)
        last = (verdict, detail, exp)
    verdict, detail, exp = last
    if verdict is None:
        return ctx.unknown(rule, label, f"code: {got}\nexpected: {exp}\n{detail}", fi.loc(), fi.qualname, construct)
    return ctx.fail(rule, label, f"code:     {got}\nexpected: {exp}\n{detail}", fi.loc(), fi.qualname, construct)


def _sentinel_tests(vals) -> List[str]:
    """truthiness / equality tests on an element value (0.0 is a legitimate element; only identity with None is a sentinel test)"""
    out = []
    for v in vals:
        for t in walk_vals(v):
            if isinstance(t, P) and t.op == 'truthy' and not (isinstance(t.args[0], Term) and t.args[0].head == 'param'):
                out.append(str(t))
            if isinstance(t, P) and t.op.startswith('cmp:') and any(isinstance(a, Const) and a.v is None for a in t.args):
                out.append(str(t))
    return out


def _element_truthiness(conds, ev) -> set:
    """truthiness tests whose operand is an element / query value: the result of next(...), or a loop-carried name that held one before its loop"""
    out = set()
    pre_of = {}
    for l in ev.loop_log:
        for nm in l.get('names', ()):
            v = ScanModel.flat(l['pre']).get(nm) if hasattr(l.get('pre'), 'env') else None
            pre_of[(l['lid'], nm)] = v

    def is_element(v) -> bool:
        if isinstance(v, Num):
            v = _single(v) or v
        if isinstance(v, Term) and v.head == 'lib:next':
            return True
        if isinstance(v, Term) and v.head == 'loopvar':
            return is_element(pre_of.get((v.uid, v.args[0].v)))
        if isinstance(v, Num) and v.length is None:
            return any(sym.ATOMS.head(a) == 'el' for a in sym.all_atoms(v.r))
        return False
    for c in conds:
        for t in walk_vals(c):
            if isinstance(t, P) and t.op == 'truthy' and is_element(t.args[0]):
                out.add(str(t))
    return out


def check_scans(ctx, kinds=('lower', 'higher', 'closest'), fill_true_only=False, prove=False):
    ctx.rule('C10.3', 'strictness / tie / fill table of the two-pointer scans, decided on the evaluated loops (not their text): lower - prefix <, advance <=, result '
                      'x_idx, invalid prefix value 0 / -1 by fill_not_valid; higher - prefix <=, advance <, result x_idx+1, or x_idx / len(x) when x is exhausted; '
                      'closest - prefix <=, advance < with the current value carried, tie <= -> lower; each condition and stored value is compared with the '
                      'documented one under every ordering of the compared values; every iteration advances value and counter together; sentinels (None) are '
                      'tested by identity, never by truthiness')
    ctx.rule('C10.2', 'element values of x and lookup are used only in comparisons (and, for closest, in the two differences that are compared); every stored '
                      'result is built from the array counter, len(x), 0, -1; the result has one slot per query')
    for kind, qn in (('lower', LOWER), ('higher', HIGHER), ('closest', CLOSEST)):
        if kind not in kinds:
            continue
        fi = ctx.prog.func(qn)
        try:
            m = ScanModel(ctx.prog, fi, opaque_kind=REPO_RESULT_KIND)
            lids_ = {m.prefix['lid'], m.main['lid'], m.adv['lid']}
            others = sorted({ast.unparse(e.data['target_expr']) for e in m.foreign_stores() if e.kind == 'store' and any(l.lid in lids_ for l in e.loops)
                             and e.data.get('target_expr') is not None})
            if others:
                raise Unrecognised(f"{fi.name}: the scan loops fill more than one array ({others[:3]}): the result is assembled from them afterwards")
        except Unrecognised as ex:
            why = check_closed_form(ctx, kind, fi, fill_true_only)
            if why is None:
                continue
            # whatever the shape of the scan: an element or a query value used as a truth value (0 is a legitimate value; the end of the data is None,
            # tested by identity) is decided on the evaluated conditions alone
            try:
                gev = Evaluator(ctx.prog, inline=lambda f: True, opaque_kind=REPO_RESULT_KIND)
                ps_ = fi.params()
                gargs = {ps_[0]: arr_param('x', length=sym.sym('L')), ps_[1]: arr_param('lookup', length=sym.sym('Q'))}
                if len(ps_) > 2:
                    gargs[ps_[2]] = Term('param', (Const(ps_[2]),))
                gev.run_function(fi, args=gargs)
                conds = [l['cond'] for l in gev.loop_log] + [g for e in gev.events for g in e.guard]
                truthy = sorted(_element_truthiness(conds, gev))
                if truthy:
                    ctx.fail('C10.3', f"{kind}: the None sentinel is tested by identity, not by truthiness (an element equal to 0 is a legitimate value)",
                             f"{truthy[:3]}", fi.loc(), fi.qualname, f"{kind}:sentinel")
            except AnalysisError:
                pass
            raise AnalysisError(f"C10.3: {fi.name}: two-pointer scan not recognised: {ex}; nor is it an element-wise closed form: {why}")
        for msg in m.issues:
            ctx.fail('C10.3', f"{kind}: initialisation", msg, fi.loc(), fi.qualname, f"{kind}:init:{msg[:30]}")
        Pf, Mn, Ad = m.prefix, m.main, m.adv
        one = Num(C(1))
        fixed = {str(m.fill_true()): True} if (fill_true_only and m.fill is not None) else None
        # ---------------- prefix loop
        lk = m.entry(Pf, m.lkn)
        strict = [m.lt(lk, m.X0)] if kind == 'lower' else [m.le(lk, m.X0)]
        if kind == 'lower' and fill_true_only:
            strict.append(m.le(lk, m.X0))       # with filling on, a query equal to the first element gets index 0 from either loop
        _cond(ctx, Pf['cond'], [p_and(m.notnone(lk), s_) for s_ in strict], 'C10.3', f"{kind}: {WHY['prefix_cond']}", fi, f"{kind}:prefix_cond")
        zero, minus1 = Num(C(0)), Num(C(-1))
        pv = gamma(m.fill_true(), zero, minus1) if kind == 'lower' else zero
        _decide_table(ctx, m, Pf, pv, 'C10.3', f"{kind}: {WHY['prefix_value']}", fi, f"{kind}:prefix_value", fixed)
        # ---------------- main loop and its advance loop
        lkm = m.entry(Mn, m.lkn)
        _cond(ctx, Mn['cond'], [m.notnone(lkm)], 'C10.3', f"{kind}: {WHY['main_cond']}", fi, f"{kind}:main_cond")
        nx = m.entry(Ad, m.nxt)
        lka = m.entry(Ad, m.lkn)
        adv = m.le(nx, lka) if kind == 'lower' else m.lt(nx, lka)
        _cond(ctx, Ad['cond'], [p_and(m.notnone(nx), adv)], 'C10.3', f"{kind}: {WHY['advance_cond']}", fi, f"{kind}:advance_cond")
        n_out, p_out = m.end(Mn, m.nxt), m.num(m.end(Mn, m.p))
        if kind == 'lower':
            rv = p_out
        elif kind == 'higher':
            rv = gamma(m.isnone(n_out), gamma(m.fill_true(), p_out, Num(m.Lx)), Num(p_out.r + C(1)))
        else:
            if m.cur is None:
                ctx.fail('C10.3', f"{kind}: the current element value is carried along for the distance comparison",
                         f"names holding the first element: {m.n_cur}; none is re-assigned in the advance loop", fi.loc(), fi.qualname, f"{kind}:carries_x_val")
                rv = None
            else:
                c_out = m.num(m.end(Mn, m.cur))
                lkn_, nn = m.num(lkm), m.num(n_out)
                tie = p_not(P('<', Num(nn.r - lkn_.r), Num(lkn_.r - c_out.r)))       # lookup - x_val <= x_next - lookup
                rv = gamma(m.isnone(n_out), p_out, gamma(tie, p_out, Num(p_out.r + C(1))))
        if rv is not None:
            _decide_table(ctx, m, Mn, rv, 'C10.3', f"{kind}: {WHY['result']}", fi, f"{kind}:result", fixed)
        # ---------------- updates
        problems = []

        def is_next(v, it, was=None) -> bool:
            if isinstance(v, Gam) and was is not None:
                # `next(it, None) if <the value so far> is not None else None`: an exhausted iterator is not asked again - the same value either way
                none_first = veq(v.pred, P('isnone', was))
                if none_first or veq(v.pred, p_not(P('isnone', was))):
                    keep, fetch = (v.a, v.b) if none_first else (v.b, v.a)
                    return isinstance(keep, Const) and keep.v is None and is_next(fetch, it)
                return False
            return isinstance(v, Term) and v.head == 'lib:next' and len(v.args) == 2 and veq(v.args[0], it) and isinstance(v.args[1], Const) and v.args[1].v is None

        def plus_one(loop, name) -> bool:
            a, b = m.ev.as_num(m.end(loop, name)), m.ev.as_num(m.entry(loop, name))
            return a is not None and b is not None and a.r == b.r + C(1)
        for loop, lname in ((Pf, 'prefix loop'), (Mn, 'main loop')):
            if m.lk_next is not None:
                # query stream with one element of look-ahead: query <- look-ahead query <- next(iterator, None)
                if not veq(m.end(loop, m.lkn), m.entry(loop, m.lk_next)):
                    problems.append(f"{lname}: the query is not replaced by the look-ahead query: {show(m.end(loop, m.lkn), 60)}")
                if not is_next(m.end(loop, m.lk_next), m.l_it, m.entry(loop, m.lk_next)):
                    problems.append(f"{lname}: the look-ahead query is not replaced by the next one (with a None sentinel): {show(m.end(loop, m.lk_next), 60)}")
            elif not is_next(m.end(loop, m.lkn), m.l_it):
                problems.append(f"{lname}: the query is not replaced by the next one (with a None sentinel): {show(m.end(loop, m.lkn), 60)}")
            if not plus_one(loop, m.q):
                problems.append(f"{lname}: the query counter does not advance by one: {show(m.end(loop, m.q), 60)}")
            for e in m.stores(loop):
                if not veq(m.ev.as_num(e.data['index']), m.ev.as_num(m.entry(loop, m.q))):
                    problems.append(f"{lname}: result stored at {show(e.data['index'], 40)} instead of the query counter")
        for nm in (m.nxt, m.p) + ((m.cur,) if m.cur else ()):
            if nm in Pf['names']:
                problems.append(f"prefix loop modifies {nm}")
        if not is_next(m.end(Ad, m.nxt), m.x_it, m.entry(Ad, m.nxt)):
            problems.append(f"advance loop: the look-ahead element is not replaced by the next one (with a None sentinel): {show(m.end(Ad, m.nxt), 60)}")
        if not plus_one(Ad, m.p):
            problems.append(f"advance loop: the array counter does not advance by one: {show(m.end(Ad, m.p), 60)}")
        if kind == 'closest' and m.cur is not None and not veq(m.end(Ad, m.cur), m.entry(Ad, m.nxt)):
            problems.append(f"advance loop: the current element does not become the previous look-ahead element: {show(m.end(Ad, m.cur), 60)}")
        if m.lkn in Ad['names'] or m.q in Ad['names'] or (m.lk_next is not None and m.lk_next in Ad['names']):
            problems.append('advance loop modifies the query or its counter')
        # nothing changes the pointers between the start of a main iteration and the advance loop, or after it
        for nm in (m.nxt, m.p, m.lkn, m.q) + ((m.cur,) if m.cur else ()) + ((m.lk_next,) if m.lk_next else ()):
            if not veq(m.pre(Ad, nm), m.entry(Mn, nm)):
                problems.append(f"main loop: {nm} is modified before the advance loop")
        for nm in (m.nxt, m.p) + ((m.cur,) if m.cur else ()):
            v = m.end(Mn, nm)
            t = v if isinstance(v, Term) else _single(v)
            if not (isinstance(t, Term) and t.head == 'loopvar' and t.uid == Ad['lid'] and t.args[0].v == nm and t.args[1].v == 'out'):
                problems.append(f"main loop: {nm} is modified after the advance loop: {show(v, 60)}")
        if m.stores(Ad):
            problems.append('advance loop stores into the result')
        # breaks: only where the loop would stop anyway, and after both updates
        for e in m.events_in(Ad, ('break', 'continue')) + m.events_in(Pf, ('break', 'continue')) + m.events_in(Mn, ('break', 'continue')):
            loop = Ad if e.loops[-1].lid == Ad['lid'] else None
            if loop is None or e.kind != 'break':
                raise AnalysisError(f"C10.3: {fi.name}: {e.kind} outside the advance loop at line {getattr(e.node, 'lineno', '?')}: scan not recognised")
            g = m.guard_in(Ad, e)
            dead, _ = equivalent(p_and(g, Ad['cond']), Const(False))
            if dead:
                continue
            env = e.data.get('env', {})
            done = all(veq(env.get(nm), m.end(Ad, nm)) for nm in (m.nxt, m.p) + ((m.cur,) if m.cur else ()))
            stops, why = equivalent(p_and(g, m.next_state(Ad, Ad['cond'])), Const(False))
            if not done:
                problems.append(f"advance loop: break at line {getattr(e.node, 'lineno', '?')} before value and counter are both advanced")
            elif stops is None:
                ctx.unknown('C10.3', f"{kind}: early exit of the advance loop", f"break when {g}: {why}", fi.loc(), fi.qualname, f"{kind}:break")
            elif not stops:
                problems.append(f"advance loop: break when {g}, where the loop would have continued ({why})")
        ctx.check(not problems, 'C10.3', f"{kind}: {WHY['updates']}", '; '.join(problems[:4]), fi.loc(), fi.qualname, f"{kind}:updates")
        # ---------------- result array, returned value, sentinels, taint
        alloc = m.result_alloc()
        alen = term_as_num(alloc, True).length if isinstance(alloc, Term) else None
        ctx.check(alen is not None and alen == m.Lq, 'C10.2', f"{kind}: one result slot per query", f"{alloc}", fi.loc(), fi.qualname, f"{kind}:alloc")
        ctx.check(not m.resized, 'C10.2', f"{kind}: the scan runs over every element of x and every query (no de-duplication / filtering in front of it)",
                  f"{m.resized}", fi.loc(), fi.qualname, f"{kind}:resized")
        ctx.check(isinstance(alloc, Term) and all(veq(r, alloc) for r in roots(m.result)), 'C10.3', f"{kind}: the function returns the index array", show(m.result, 80), fi.loc(), fi.qualname, f"{kind}:return")
        conds = [Pf['cond'], Mn['cond'], Ad['cond']] + [g for e in m.ev.events for g in e.guard]
        # (truthiness of an element / a query / a look-ahead value, or an equality test against None - not the truthiness of an unrelated flag or of
        # a whole-array validation such as `np.isnan(x).any()`)
        truthy = sorted(set(t_ for t_ in _sentinel_tests(conds) if not t_.startswith('truthy(')) | _element_truthiness(conds, m.ev))
        ctx.check(not truthy, 'C10.3', f"{kind}: the None sentinel is tested by identity, not by truthiness (an element equal to 0 is a legitimate value)",
                  f"{truthy[:3]}", fi.loc(), fi.qualname, f"{kind}:sentinel")
        bad = []
        allowed = {str(t) for t in (m.end(Mn, m.p), m.entry(Pf, m.p) if m.p in Pf['entry'] else None) if t is not None}
        for e in m.stores(Pf) + m.stores(Mn):
            for t in walk_vals(e.data['value']):
                if isinstance(t, P):
                    break
                if isinstance(t, Term) and t.head in ('lib:next', 'loopvar') and not (t.head == 'loopvar' and t.args[0].v == m.p):
                    if not _inside_pred(e.data['value'], t):
                        bad.append(f"{show(t, 40)} in the value stored at line {getattr(e.node, 'lineno', '?')}")
        for e in m.ev.events:
            if e.kind in ('lib', 'call', 'method', 'apply') and e.loops and e.data.get('name') not in ('builtins.next', 'builtins.len') + COMPARISON_FUNCTIONS:
                bad.append(f"{e.data.get('name') or getattr(e.data.get('callee'), 'name', e.kind)} called inside the scan at line {getattr(e.node, 'lineno', '?')}")
        ctx.check(not bad, 'C10.2', f"{kind}: element values flow only into comparisons; stored indices are built from counters only", f"{bad[:4]}",
                  fi.loc(), fi.qualname, f"{kind}:taint")
        from .. import dtypes
        dtypes.check_events(ctx, m.ev, 'C10.2', f"{kind} scan", fi)      # queries / elements are compared as given: no cast to a borrowed element type
        if prove:
            prove_scan(ctx, m, kind, fi)
        ctx.sample({'rule': 'C10.3', 'scan': kind, 'prefix': str(Pf['cond']), 'advance': str(Ad['cond']),
                    'result': [f"{m.guard_in(Mn, e)} -> {show(e.data['value'], 50)}" for e in m.stores(Mn)][:4],
                    'roles': {'query': m.lkn, 'look-ahead': m.nxt, 'current': m.cur, 'array counter': m.p, 'query counter': m.q, 'result': m.ind}})


# operator.lt(a, b) is the comparison a < b (the evaluator folds it to the same predicate): a use in a comparison, not a leak of the element value
COMPARISON_FUNCTIONS = ('operator.lt', 'operator.le', 'operator.gt', 'operator.ge', 'operator.eq', 'operator.ne')


def check_closed_form(ctx, kind: str, fi, fill_true_only=False) -> Optional[str]:
    """A vectorised implementation (binary search / counting instead of the two-pointer scan): its element-wise closed form is compared with the
    documented answer on every order type (closedform.py).  Returns None when the function was decided this way (obligations recorded), otherwise the
    reason why it is not such a form."""
    ps = fi.params()
    if len(ps) < 2:
        return 'expected (x, lookup, ...) parameters'
    Lx, Lq = sym.sym('Lx'), sym.sym('Lq')
    X, Q = arr_param('X', length=Lx), arr_param('Q', length=Lq)
    lens = {_atom_of(Lx): 'X', _atom_of(Lq): 'Q'}
    has_fill = len(ps) > 2
    fills = (True,) if (fill_true_only or not has_fill) else (True, False)
    forms = {}
    from .common import count_semantics
    others = tuple(q_ for q_ in (LOWER, HIGHER) if q_ != fi.qualname)
    for fill in fills:
        # the other one-sided searches, where this one is built on them, stand for what C10.4 proves of them (counts); everything else is inlined
        ev = Evaluator(ctx.prog, inline=inline_except(*others) if kind == 'closest' else (lambda f: True), opaque_kind=REPO_RESULT_KIND, elementwise=True)
        args = {ps[0]: X, ps[1]: Q}
        if has_fill:
            args[ps[2]] = Const(fill)
        try:
            res, _ = ev.run_function(fi, args=args)
        except AnalysisError as ex:
            return str(ex)[:200]
        if ev.issues:
            return ev.issues[0]
        if not (isinstance(res, Num) and res.length is not None):
            return f"result is not an element-wise array value: {show(res, 160)}"
        res = count_semantics(res)
        if any(sym.ATOMS.head(a_) not in ('sym',) for a_ in sym.all_atoms(res.length)):
            return f"the extent of the result is not derivable: {sym.show(res.length)[:120]}"
        carried = [t for t in walk_vals(res) if isinstance(t, Term) and t.head in ('loopvar', 'loopstate', 'stored', 'mutated')]
        if carried:
            return f"the result depends on loop-carried state ({show(carried[0], 60)}): a scan, not an element-wise form"
        forms[fill] = (res, ev)
    label = f"{kind} (vectorised implementation)"
    ctx.rule('C10.5', 'a vectorised implementation of a search (counting / binary search instead of the scan) is decided on its element-wise closed form: on every '
                      'strictly increasing x of 1..4 elements over a lattice (the precondition of the property) and every query over a wider lattice (below, equal to, between - '
                      'mid-points included - and above the elements) the form evaluates to the documented index; every element read it makes is in range; '
                      'the index does not change when all values are mapped by v -> 3v + 7')
    for fill, (res, ev) in forms.items():
        ctx.check(res.length == Lq, 'C10.2', f"{label}: one result slot per query", f"extent {sym.show(res.length)[:80]}", fi.loc(), fi.qualname, f"{kind}:alloc:{fill}")
        bad, n_cases, undecided = decide_form(kind, fill, res, [e for e in ev.events if e.kind == 'gather'], lens, strict_x=True)
        if undecided is not None:
            ctx.unknown('C10.5', f"{label}, fill_not_valid={fill}", f"the closed form mentions a construct the finite-model evaluation does not interpret: {undecided}\n"
                                                                    f"form: {show(res, 300)}", fi.loc(), fi.qualname, f"{kind}:closed:{fill}")
            continue
        ctx.check(bad is None, 'C10.5', f"{label}, fill_not_valid={fill}: documented index on every order type ({n_cases} cases)",
                  f"{bad}\nform: {show(res, 300)}", fi.loc(), fi.qualname, f"{kind}:closed:{fill}")
        from .. import dtypes
        tag = dtypes.dtype_of(res)
        ctx.check(tag != dtypes.FLOAT, 'C10.2', f"{label}: the result is an integer index array", f"element type {tag}", fi.loc(), fi.qualname, f"{kind}:dtype:{fill}")
        dtypes.check_events(ctx, ev, 'C10.2', f"{kind} search", fi)
    ctx.sample({'rule': 'C10.5', 'search': kind, 'form': show(forms[True][0], 200)})
    return None


def decide_form(kind: str, fill: bool, res: Num, gathers, lens, strict_x=False):
    """(first counterexample or None, number of cases, reason why undecided or None) for one element-wise closed form of a search"""
    from ..closedform import Model, OutOfRange, NotClosed, sorted_arrays, spec_index
    bad, n_cases = None, 0
    try:
        for xs in sorted_arrays():
            if strict_x and any(a_ >= b_ for a_, b_ in zip(xs, xs[1:])):
                continue
            for q in range(-1, 8):
                for scale, shift in ((1, 0), (3, 7)):
                    xs_, q_ = [scale * x + shift for x in xs], scale * q + shift
                    mdl = Model(xs_, [q_], 0, lens)
                    n_cases += 1
                    want = spec_index(kind, xs_, q_, fill)
                    try:
                        for g in gathers:
                            if g.data.get('mask') is None or mdl.pred(g.data['mask']):
                                ix = mdl.rat(g.data['index'].r)
                                ln = len(mdl.arr(_ref_of(g.data['base'])))
                                if ix.denominator != 1 or not (-ln <= ix < ln):
                                    raise OutOfRange(f"index array element {ix} into an array of {ln} at line {getattr(g.node, 'lineno', '?')}")
                        got = mdl.rat(res.r)
                    except OutOfRange as ex:
                        bad = bad or f"x = {xs_}, query = {q_}, fill_not_valid = {fill}: {ex} (IndexError)"
                        continue
                    if got != want:
                        bad = bad or f"x = {xs_}, query = {q_}, fill_not_valid = {fill}: the form gives {got}, documented {want}"
    except NotClosed as ex:
        return None, n_cases, str(ex)
    return bad, n_cases, None


def _atom_of(r: Rat) -> int:
    (mm, c), = r.n.t.items()
    return mm[0][0]


def _ref_of(v):
    if isinstance(v, Num):
        for a in v.r.atoms():
            if sym.ATOMS.head(a) == 'el':
                return sym.ATOMS.args(a)[0]
    return None


def _single(v):
    from ..scanmodel import _single_val_term
    return _single_val_term(v) if isinstance(v, Num) else None


def _inside_pred(value, term) -> bool:
    """does `term` occur in `value` only inside the condition of a conditional (where it is compared, not stored)?"""
    def outside(x) -> bool:
        if x is term or (isinstance(x, Term) and veq(x, term)):
            return True
        if isinstance(x, Gam):
            return outside(x.a) or outside(x.b)
        if isinstance(x, Num):
            for a in x.r.atoms():
                if atom_outside(a):
                    return True
            return False
        if isinstance(x, Term):
            return any(outside(a) for a in x.args if isinstance(a, Val))
        return False

    def atom_outside(a) -> bool:
        head, args = sym.ATOMS.head(a), sym.ATOMS.args(a)
        if head == 'gamma':
            return any(atom_outside(b) for r in args[1:] for b in r.atoms())
        for arg in args:
            if isinstance(arg, Val) and outside(arg):
                return True
            if isinstance(arg, Rat) and any(atom_outside(b) for b in arg.atoms()):
                return True
        return False
    return not outside(value)


def check_dispatcher(ctx):
    ctx.rule('C10.1', "the dispatcher maps exactly 'closest', 'lower', 'higher' to the three scans, forwards (x, lookup) in order and fill_not_valid to the two "
                      "one-sided scans; any other strategy raises ValueError")
    fi = ctx.prog.func(DISPATCH)
    lits = dispatch_fallthrough(ctx, DISPATCH, 'strategy', 'search strategy', ['closest', 'lower', 'higher'])
    ctx.check(sorted(lits) == ['closest', 'higher', 'lower'], 'C10.1', 'dispatched names', f"{lits}", fi.loc(), fi.qualname, 'names')
    L, Q = sym.sym('L'), sym.sym('Q')
    x, lk = arr_param('x', length=L), arr_param('lookup', length=Q)
    fill = Term('param', (Const('fill_not_valid'),))
    for lit, target, fwd in (('closest', CLOSEST, False), ('lower', LOWER, True), ('higher', HIGHER, True)):
        ev = Evaluator(ctx.prog, inline=inline_except(*SCANS), opaque_kind=REPO_RESULT_KIND)
        res, st = ev.run_function(fi, args={'x': x, 'lookup': lk, 'strategy': Const(lit), 'fill_not_valid': fill})
        calls = [e for e in ev.events if e.kind == 'call']
        ok = len(calls) == 1 and calls[0].data['callee'].qualname == target and same(res, calls[0].data['term'])
        if ok:
            b = calls[0].data['bound']
            tp = ctx.prog.func(target).params()
            ok = same(b.get(tp[0]), x) and same(b.get(tp[1]), lk) and (not fwd or veq(b.get(tp[2]), fill))
        if not ok and calls:
            from .common import foreign_heads
            fh_ = foreign_heads(res, calls[0].data['term'])
            if fh_ and any(c.data['callee'].qualname == target for c in calls):
                ok = _dispatch_branches(ctx, fi, lit, target, fwd)      # a fast path next to the documented call: decided branch by branch, or not at all (None)
        ctx.check(ok, 'C10.1', f"'{lit}' -> {target.rsplit('.', 1)[1]}(x, lookup{', fill_not_valid' if fwd else ''})",
                  f"{[(c.data['callee'].name, {k: show(v, 40) for k, v in c.data['bound'].items()}) for c in calls]}", fi.loc(), fi.qualname, f"dispatch:{lit}")
    # defaults
    for q in (LOWER, HIGHER, DISPATCH):
        f = ctx.prog.func(q)
        a = f.node.args
        ps = f.params()
        d = dict(zip(ps[len(ps) - len(a.defaults):], a.defaults)).get('fill_not_valid')
        ctx.check(isinstance(d, ast.Constant) and d.value is True, 'C10.1', f"{f.name}: fill_not_valid defaults to True (out-of-range queries yield the first / last index)",
                  ast.unparse(d) if d is not None else 'none', f.loc(), f.qualname, f"default:{f.name}")


def _dispatch_branches(ctx, fi, lit: str, target: str, fwd: bool) -> Optional[bool]:
    """the dispatcher returns different constructions under a condition (a vectorised fast path for plain arrays, the scan otherwise): every branch
    is either the documented call or an element-wise closed form that the finite-model evaluation decides (C10.5).  None: not decided."""
    from .common import split_branches
    Lx, Lq = sym.sym('Lx'), sym.sym('Lq')
    X, Q = arr_param('X', length=Lx), arr_param('Q', length=Lq)
    lens = {_atom_of(Lx): 'X', _atom_of(Lq): 'Q'}
    kind = lit
    verdict = True
    for fill in ((True, False) if fwd else (True,)):
        ev = Evaluator(ctx.prog, inline=inline_except(*SCANS), opaque_kind=REPO_RESULT_KIND, elementwise=True)
        res, _ = ev.run_function(fi, args={'x': X, 'lookup': Q, 'strategy': Const(lit), 'fill_not_valid': Const(fill)})
        if ev.issues:
            return None
        calls = {id(c.data['term']): c for c in ev.events if e_is_call(c)}
        gathers = [e for e in ev.events if e.kind == 'gather']
        for pth, val in split_branches(res):
            c = next((c_ for c_ in calls.values() if same(val, c_.data['term'])), None)
            if c is not None:
                b = c.data['bound']
                tp = ctx.prog.func(target).params()
                if not (c.data['callee'].qualname == target and same(b.get(tp[0]), X) and same(b.get(tp[1]), Q) and (not fwd or veq(b.get(tp[2]), Const(fill)))):
                    return False
                continue
            if not (isinstance(val, Num) and val.length is not None and val.length == Lq):
                return None
            bad, n_cases, undecided = decide_form(kind, fill, val, gathers, lens, strict_x=True)
            if undecided is not None:
                return None
            ctx.check(bad is None, 'C10.5', f"'{lit}' fast path of the dispatcher (taken when {' and '.join(str(p_)[:60] for p_ in pth)[:200]}), fill_not_valid={fill}: "
                                            f"documented index on every order type ({n_cases} cases)", f"{bad}\nform: {show(val, 300)}", fi.loc(), fi.qualname, f"fast:{lit}:{fill}")
            if bad is not None:
                verdict = False
    return verdict


def e_is_call(e) -> bool:
    return e.kind == 'call' and e.data.get('callee') is not None


def run(ctx):
    check_dispatcher(ctx)
    ctx.rule('C10.4', 'inductive correctness argument, on the code\'s own loop conditions and stored values (not the documented table): with the invariant '
                      'X[p] <= q (lower) / X[p] < q (higher, closest) at the loop heads - (VC1) every index stored by the prefix loop is the specified answer, (VC2) the exit '
                      'of the prefix loop establishes the invariant at p = 0, (VC3) an advance step happens only when a further element exists and preserves it, (VC4) at '
                      'the exit of the advance loop the stored index is the specified answer (largest <=, smallest >=, nearest with ties to the lower, fill rules), (VC5) '
                      'the invariant survives the step to the next, not smaller, query, (VC6) the main loop runs exactly as long as a query is left.  The verification conditions are decided by enumerating valuations of the entities '
                      'they mention over a small integer lattice (complete for comparisons; wide enough for the one linear form of the tie rule); the representation '
                      'invariant (which name holds X[p], X[p+1], the query; value and counter advance together) is C10.3\'s')
    check_scans(ctx, prove=True)
    ctx.notes.append('NOT DECIDED: that the skeleton with the right table is correct for every input (termination, pointer invariants, duplicate queries): needs a '
                     'loop-invariant proof or execution - outside static analysis as practised here.')
    ctx.trust('each table entry is a necessary condition: a query equal to an element, exactly half-way, or outside the range distinguishes it')


# --------------------------------------------------------------------------- C10.4: inductive correctness argument over orderings
def _ceval(v, env, fill: bool, Lval):
    """value of a symbolic predicate / index expression of the scan under a valuation of its entities (env: list of (Val, value)): the loop
    summaries are evaluated, the loop is not run.  The canonical form of a conditional value may mention the absent (None) look-ahead element in
    a part that cancels; it is evaluated with two different stand-ins and has to give the same result."""
    if any(val is None for _, val in env):
        a = _ceval1(v, env, fill, Lval, 10 ** 6)
        b = _ceval1(v, env, fill, Lval, 2 * 10 ** 6 + 7)
        if a != b:
            raise KeyError('None used as a number')
        return a
    return _ceval1(v, env, fill, Lval, None)


def _ceval1(v, env, fill: bool, Lval, none_as):
    from fractions import Fraction

    def look(t):
        for k_, val in env:
            if isinstance(k_, Num):
                k_ = _single(k_) or k_
            if veq(k_, t):
                return val
        raise KeyError(str(t)[:80])

    def rat(r: Rat):
        mapping = {}
        for a in r.atoms():
            h, args = sym.ATOMS.head(a), sym.ATOMS.args(a)
            if h == 'gamma':
                mapping[a] = rat(args[1] if pred(args[0]) else args[2])
            elif h == 'val':
                t = args[0].term if hasattr(args[0], 'term') and args[0].term is not None else args[0]
                x_ = look(t)
                if x_ is None:
                    if none_as is None:
                        raise KeyError('None used as a number')
                    x_ = none_as
                mapping[a] = C(x_)
            elif h == 'sym':
                mapping[a] = C(Lval)
            else:
                raise KeyError(sym.show_atom(a)[:60])
        out = sym.subst(r, mapping) if mapping else r
        if isinstance(out, Rat):
            if not out.is_const():
                raise KeyError('not closed: ' + sym.show(out)[:60])
            return out
        return out

    def num(x_):
        if isinstance(x_, Num):
            r_ = rat(x_.r)
            return r_.const_value()
        if isinstance(x_, Gam):
            return num(x_.a if pred(x_.pred) else x_.b)
        if isinstance(x_, Term):
            val = look(x_)
            if val is None:
                if none_as is None:
                    raise KeyError('None used as a number')
                val = none_as
            return Fraction(val)
        raise KeyError(str(x_)[:60])

    def pred(q) -> bool:
        if isinstance(q, Const):
            return bool(q.v)
        if isinstance(q, P):
            if q.op == 'not':
                return not pred(q.args[0])
            if q.op == 'and':
                return all(pred(a) for a in q.args)
            if q.op == 'or':
                return any(pred(a) for a in q.args)
            if q.op == 'isnone':
                return look(q.args[0]) is None
            if q.op == 'truthy':
                if isinstance(q.args[0], Term) and q.args[0].head == 'param':
                    return fill
                t_ = q.args[0]
                if isinstance(t_, Num):
                    t_ = _single(t_) or t_
                if isinstance(t_, Term) and t_.head in ('loopvar', 'lib:next'):
                    val_ = look(t_)             # Python truthiness of an element / sentinel: None and 0 are false
                    return val_ is not None and val_ != 0
                raise KeyError('truthiness of ' + str(q.args[0])[:40])
            if q.op in ('<', '<=', '==', '!=', '>', '>='):
                a, b = num(q.args[0]), num(q.args[1])
                return {'<': a < b, '<=': a <= b, '==': a == b, '!=': a != b, '>': a > b, '>=': a >= b}[q.op]
        if isinstance(q, Gam):
            return pred(q.a if pred(q.pred) else q.b)
        raise KeyError('predicate ' + str(q)[:60])
    if isinstance(v, (P, Const)) or (isinstance(v, Gam) and isinstance(v.a, (P, Const))):
        return pred(v)
    return num(v)


def prove_scan(ctx, m: ScanModel, kind: str, fi):
    """Hoare-style argument for one scan, discharged by enumerating valuations of the few entities the conditions mention (first element, current
    and look-ahead element, current and next query, the fill flag) over a small integer lattice - complete for comparisons between entities, and wide
    enough for the one linear form of the tie rule.  The conditions and stored values are the code's own (loop summaries), not the documented table.

    invariant at the head of the main loop and of the advance loop:  lower: X[p] <= q      higher / closest: X[p] < q
    VC1 prefix store is the specified answer; VC2 prefix exit establishes the invariant at p = 0; VC3 an advance step preserves it (and only
    happens when a look-ahead element exists); VC4 at the exit of the advance loop the stored index is the specified answer; VC5 the invariant
    survives the step to the next (not smaller) query."""
    Pf, Mn, Ad = m.prefix, m.main, m.adv
    rule = 'C10.4'
    if m.result_stores_outside_loops():
        ctx.unknown(rule, f"{kind}: inductive argument", 'part of the result is written by slice / vectorised stores outside the three loops: the verification conditions are '
                                                         'phrased for per-query stores', fi.loc(), fi.qualname, f"{kind}:proof")
        return
    strict_inv = kind != 'lower'
    R = range(-3, 4)            # the lattice straddles 0: an element or a query equal to 0 is an ordinary value
    BIGP = 40

    def inv(xp, q):
        return xp < q if strict_inv else xp <= q

    def spec_ok(r, q, fill, x0, xp, xn, p, L) -> Optional[bool]:
        """is index r the specified answer for query q?  Known elements: X[0] = x0, X[p] = xp, X[p+1] = xn (None when p is the last index)."""
        def X(j):
            if j == 0:
                return x0
            if j == p:
                return xp
            if j == p + 1 and xn is not None:
                return xn
            return 'unknown'
        last = L - 1
        if kind == 'lower':
            if q < x0:
                return r == (0 if fill else -1)
            if not (0 <= r <= last) or X(r) == 'unknown':
                return False
            nxt_ = None if r == last else X(r + 1)
            if nxt_ == 'unknown':
                return None
            return X(r) <= q and (r == last or q < nxt_)
        xl = xp if xn is None else None          # the last element is known only when p is the last index
        if kind == 'higher':
            if xl is not None and q > xl:
                return r == (last if fill else L)
            if r == 0:
                return x0 >= q
            if not (0 <= r <= last) or X(r) == 'unknown' or X(r - 1) == 'unknown':
                return False if not (0 <= r <= last) else None
            return X(r) >= q and X(r - 1) < q
        # closest, ties to the lower index
        if q <= x0:
            return r == 0
        if xl is not None and q > xl:
            return r == last
        if xn is None:
            return r == p and q == xp
        if not (xp < q <= xn):
            return None                            # outside what the known elements decide
        return r == (p if (q - xp) <= (xn - q) else p + 1)
    problems: List[str] = []
    undecided: List[str] = []
    counts = {'VC1': 0, 'VC2': 0, 'VC3': 0, 'VC4': 0, 'VC5': 0, 'VC6': len(R) + 1}

    def fail(vc, what, **vals):
        if len(problems) < 6:
            problems.append(f"{vc} {what}: " + ', '.join(f"{k}={v}" for k, v in vals.items()))
    lk_pf = m.entry(Pf, m.lkn)
    pf_stores = m.stores(Pf)
    pf_guards = [m.guard_in(Pf, e) for e in pf_stores]
    mn_stores = m.stores(Mn)
    mn_guards = [m.guard_in(Mn, e) for e in mn_stores]
    try:
        # ---- VC1 / VC2: prefix loop, p = 0
        for x0 in R:
            for q in R:
                for fill in (True, False):
                    env = [(lk_pf, q), (m.X0, x0)]
                    if m.cur is not None:
                        env.append((m.entry(Pf, m.cur) if m.cur in Pf['entry'] else m.X0, x0))
                    pc = _ceval(Pf['cond'], env, fill, 3)
                    if pc:
                        counts['VC1'] += 1
                        live = [e for g, e in zip(pf_guards, pf_stores) if _ceval(g, env, fill, 3)]
                        if not live:
                            fail('VC1', 'no index is stored for a query handled by the prefix loop', first=x0, query=q, fill=fill)
                            continue
                        r = _ceval(live[-1].data['value'], env, fill, 3)
                        # known: X[0] only (p = 0, look-ahead irrelevant for queries at or below the first element); L = 3 stands for "longer"
                        ok = spec_ok(int(r), q, fill, x0, x0, x0 + 1, 0, 3)
                        if ok is False:
                            fail('VC1', 'the prefix loop stores an index that is not the specified answer', first=x0, query=q, fill=fill, stored=int(r))
                    else:
                        counts['VC2'] += 1
                        if not inv(x0, q):
                            fail('VC2', f"after the prefix loop the first element is not {'<' if strict_inv else '<='} the query (the main loop assumes it)",
                                 first=x0, query=q)
        # ---- VC6: the main loop runs exactly as long as there is a query (0 is a query like any other)
        lk_mn = m.entry(Mn, m.lkn)
        for q in list(R) + [None]:
            mc = _ceval(Mn['cond'], [(lk_mn, q)], True, 3)
            if mc != (q is not None):
                fail('VC6', 'the main loop ' + ('stops although a query is left' if q is not None else 'continues without a query'), query=q)
        # ---- VC3 / VC4 / VC5: main loop at an arbitrary position p
        for p0 in (True, False):
            p = 0 if p0 else BIGP
            for x0 in R:
                for xp in ([x0] if p0 else [v for v in R if v > x0]):
                    for xn in [None] + [v for v in R if v > xp]:
                        L = p + 1 if xn is None else p + 3
                        for q in R:
                            if not inv(xp, q):
                                continue
                            for fill in (True, False):
                                env = [(lk_mn, q), (m.entry(Ad, m.lkn), q), (m.X0, x0), (m.entry(Ad, m.nxt), xn), (m.end(Mn, m.nxt), xn),
                                       (m.entry(Ad, m.p), p), (m.end(Mn, m.p), p), (m.entry(Mn, m.p), p), (m.entry(Mn, m.nxt), xn)]
                                if m.cur is not None:
                                    env += [(m.entry(Ad, m.cur), xp), (m.end(Mn, m.cur), xp), (m.entry(Mn, m.cur), xp)]
                                ac = _ceval(Ad['cond'], env, fill, L)
                                if ac:
                                    counts['VC3'] += 1
                                    if xn is None:
                                        fail('VC3', 'the advance loop continues although there is no further element', current=xp, query=q)
                                    elif not inv(xn, q):
                                        fail('VC3', 'an advance step breaks the invariant (it moves past an element that is not below / at the query)',
                                             current=xp, look_ahead=xn, query=q)
                                    continue
                                counts['VC4'] += 1
                                live = [e for g, e in zip(mn_guards, mn_stores) if _ceval(g, env, fill, L)]
                                if not live:
                                    fail('VC4', 'no index is stored for the query', current=xp, look_ahead=xn, query=q, fill=fill)
                                    continue
                                r = int(_ceval(live[-1].data['value'], env, fill, L))
                                ok = spec_ok(r, q, fill, x0, xp, xn, p, L)
                                if ok is False:
                                    shown = f"p+{r - p}" if p and 0 <= r - p <= 2 else (f"len(x)" if r == L else str(r))
                                    fail('VC4', 'the stored index is not the specified answer', first=x0, current=xp, look_ahead=xn, query=q, fill=fill,
                                         stored=shown, position='p = 0' if p0 else 'p > 0')
                                elif ok is None:
                                    undecided.append(f"current={xp}, look_ahead={xn}, query={q}")
                            # VC5: the next query is not smaller
                            for q1 in R:
                                if q1 >= q:
                                    counts['VC5'] += 1
                                    if not inv(xp, q1):
                                        fail('VC5', 'invariant lost at the next query', current=xp, query=q, next_query=q1)
    except KeyError as ex:
        return ctx.unknown(rule, f"{kind}: inductive correctness argument", f"a condition of the scan mentions something outside the modelled entities: {ex}", fi.loc(),
                           fi.qualname, f"{kind}:proof")
    if undecided and not problems:
        return ctx.unknown(rule, f"{kind}: inductive correctness argument", f"cases the known elements do not decide: {undecided[:3]}", fi.loc(), fi.qualname, f"{kind}:proof")
    ctx.check(not problems, rule, f"{kind}: with the invariant X[p] {'<' if strict_inv else '<='} query at the loop heads, every stored index is the specified neighbour "
              f"(prefix answers, establishment, preservation, exit answer, next query)", '; '.join(problems) if problems else
              f"valuations examined: {counts}", fi.loc(), fi.qualname, f"{kind}:proof")
    ctx.sample({'rule': rule, 'scan': kind, 'valuations': counts})
