"""C01 - integral matching reproduces every reference interval integral (DESIGN 4.1)"""
from __future__ import annotations

import ast
from typing import Dict, List, Optional

from .. import sym
from ..sym import Rat, C
from ..values import (Num, Const, Tup, Term, Obj, P, Val, Kw, arr_param, scalar_param, term_as_num, veq, fresh_serial,
                      walk_vals, Ref)
from ..model import AnalysisError
from ..symeval import Evaluator, State, Frame
from .. import api, callgraph
from .common import same, same_extent, S, run as runf, need_num, show, REPO_RESULT_KIND, no_sau, SAU, inline_except, SCANS

MATCH = 'traffic_weaver.match.'
KERNEL = MATCH + '_integral_matching_stretch'
INTERVAL = MATCH + '_interval_integral_matching_stretch'
PUBLIC = MATCH + 'integral_matching_reference_stretch'
INTEGRAL = SAU + 'integral'


def is_len2(p: Val, L: Rat) -> Optional[bool]:
    """decide `len(x) == 2` false: the general (>= 3 samples) case of the kernel"""
    if isinstance(p, P) and p.op == '==':
        a, b = p.args
        for u, v in ((a, b), (b, a)):
            if isinstance(u, Num) and u.is_const() and u.const() == 2 and isinstance(v, Num) and v.r == L:
                return False
    return None


def method_literals_of_integral(ctx):
    """the documented rule names are dispatched by `integral` (each returns an array); an unknown name raises ValueError
    (decided by specialising the parameter to each literal: independent of the dispatch idiom)"""
    fi = ctx.prog.func(INTEGRAL)
    params = fi.params()
    if len(params) < 3:
        raise AnalysisError(f"{fi.qualname}: expected (x, y, method)")
    L = sym.sym('L')
    lits = []
    for lit in ('trapezoid', 'rectangle'):
        res, ev, st, fi = runf(ctx.prog, INTEGRAL, pos=[arr_param('x', length=L), arr_param('y', length=L), Const(lit)])
        if isinstance(res, Num) and res.length is not None and not [e for e in ev.events if e.kind == 'raise' and not e.guard]:
            lits.append(lit)
    res, ev, st, fi = runf(ctx.prog, INTEGRAL, pos=[arr_param('x', length=L), arr_param('y', length=L), Const('__no_such_rule__')])
    raises = [e for e in ev.events if e.kind == 'raise']
    rets = [e for e in ev.events if e.kind in ('return', 'fallthrough') and (e.func is fi or e.data.get('func') is fi)]
    if rets:
        raises = []
    return lits, raises, fi


def kernel_eval(ctx, method: str, general=True):
    L = sym.sym('L')
    x = arr_param('x', length=L)
    y = arr_param('y', length=L)
    Pv = S('P')
    alpha = S('alpha')
    fi = ctx.prog.func(KERNEL)
    params = fi.params()
    need = ['x', 'y', 'integral_value', 'integral_method', 'alpha', 's']
    missing = [p for p in need if p not in params]
    if missing:
        raise AnalysisError(f"{fi.qualname}: parameters {missing} not found (signature changed)")
    args = {'x': x, 'y': y, 'integral_value': Pv, 'integral_method': Const(method), 'alpha': alpha, 's': Const(None)}
    res, ev, st, fi = runf(ctx.prog, KERNEL, args=args, decide=(lambda p: is_len2(p, L)) if general else None)
    return res, ev, fi, x, y, Pv, alpha, L


def check_kernel(ctx, methods: List[str]):
    ctx.rule('C01.3', 'for each integration rule R: the kernel result r satisfies Sum(E_R(x, r)) == integral_value as an identity of '
                      'rational functions (E_R = the repository\'s own rule, evaluated on the symbolic result; Sum expanded by linearity); '
                      'E_R has degree 1 in y')
    for m in methods:
        res, ev, fi, x, y, Pv, alpha, L = kernel_eval(ctx, m)
        raised = [e for e in ev.events if e.kind == 'raise' and not e.guard]
        if raised:
            ctx.fail('C01.2', f"kernel accepts rule '{m}'", f"unconditional raise at {raised[0].loc()}", raised[0].loc(), fi.qualname, f"accept:{m}")
            continue
        if ev.issues:
            raise AnalysisError(f"C01.3: kernel not canonicalisable for '{m}': {ev.issues[:3]}")
        from .common import split_branches, post_processed
        clamped = [(pth, post_processed(val)) for pth, val in split_branches(res) if post_processed(val)]
        if clamped:
            pth, head = clamped[0]
            ctx.fail('C01.3', f"target rule '{m}': the kernel returns the solved result y + y_hat*w on every path",
                     f"when {[str(q)[:100] for q in pth] or 'always'} the result is passed through {head}(...) after the integral equation was solved: the "
                     f"interval integral no longer equals integral_value", fi.loc(), fi.qualname, f"identity:{m}")
            continue
        r = need_num(ctx, 'C01.3', 'kernel result', res, fi)
        if r.length is None:
            ctx.fail('C01.3', f"{m}: kernel returns an array", show(r, 200), fi.loc(), fi.qualname, f"array:{m}")
            continue
        integ, ev2, _, ifi = runf(ctx.prog, INTEGRAL, pos=[x, r, Const(m)])
        integ = need_num(ctx, 'C01.3', 'integration rule applied to the result', integ, ifi)
        tot = sym.mk_sum(integ.r, integ.length)
        ctx.check(tot == Pv.r, 'C01.3', f"target rule '{m}': sum of interval integrals of the result == integral_value",
                  f"Sum(E_{m}(x, result)) - P = {sym.show(tot - Pv.r)[:500]}", fi.loc(), fi.qualname, f"identity:{m}")
        # linearity of the rule in y
        ey, _, _, _ = runf(ctx.prog, INTEGRAL, pos=[x, y, Const(m)])
        ey = need_num(ctx, 'C01.3', 'integration rule', ey, ifi)
        yatoms = {a for a in sym.all_atoms(ey.r) if sym.ATOMS.head(a) == 'el' and str(sym.ATOMS.args(a)[0]) == 'y'}
        ctx.check(ey.r.n.degree_in(yatoms) == 1 and not (ey.r.d.atoms() & yatoms), 'C01.3', f"rule '{m}' is linear in y",
                  show(ey, 200), ifi.loc(), ifi.qualname, f"linear:{m}")
        ctx.check(ey.length == L - C(1), 'C01.4', f"rule '{m}': integral element i covers samples i..i+1 (extent len-1)",
                  f"extent {sym.show(ey.length)}", ifi.loc(), ifi.qualname, f"extent:{m}")
        ctx.sample({'rule': 'C01.3', 'method': m, 'identity': 'Sum(E_R(x, y + y_hat*w)) == P', 'holds': tot == Pv.r})


def check_tables(ctx):
    ctx.rule('C01.2', 'the rule names dispatched by integral(), accepted by the kernel and solved for (a y_hat case) coincide; the defaults of '
                      'the three matching functions and of Weaver.integral_match are members; the reference rule reaches integral(x_ref, y_ref, .) '
                      'and the target rule reaches the kernel')
    lits, raises, ifi = method_literals_of_integral(ctx)
    ctx.floor('C01.2', len(lits), 2, 'integration rules dispatched by integral()')
    ctx.check(any(e.data.get('exc') == 'ValueError' for e in raises), 'C01.2', 'integral(): unknown rule raises ValueError',
              f"raises: {[e.data.get('exc') for e in raises]}", ifi.loc(), ifi.qualname, 'fallthrough')
    # kernel validation list
    kfi = ctx.prog.func(KERNEL)
    klits = None
    for n in ast.walk(kfi.node):
        if isinstance(n, ast.Compare) and len(n.ops) == 1 and isinstance(n.ops[0], (ast.NotIn, ast.In)) and \
                isinstance(n.comparators[0], (ast.List, ast.Tuple, ast.Set)) and isinstance(n.left, ast.Name) and n.left.id == 'integral_method':
            klits = [c.value for c in n.comparators[0].elts if isinstance(c, ast.Constant)]
    if klits is not None:
        ctx.check(sorted(klits) == sorted(lits), 'C01.2', 'kernel validation list == rules dispatched by integral()',
                  f"kernel accepts {klits}, integral() dispatches {lits}", kfi.loc(), kfi.qualname, 'kernel-list')
    # defaults
    for qn, pnames in ((PUBLIC, ['target_function_integral_method', 'reference_function_integral_method']),
                       (KERNEL, ['integral_method']), (INTERVAL, ['integral_method']), (INTEGRAL, ['method']),
                       ('traffic_weaver.weaver.Weaver.integral_match', ['target_function_integral_method', 'reference_function_integral_method'])):
        fi = ctx.prog.func(qn)
        a = fi.node.args
        allp = [x.arg for x in a.posonlyargs + a.args]
        defs = dict(zip(allp[len(allp) - len(a.defaults):], a.defaults))
        for p in pnames:
            d = defs.get(p)
            if p not in allp:
                raise AnalysisError(f"C01.2: parameter {p} of {qn} vanished")
            ok = isinstance(d, ast.Constant) and d.value in lits
            ctx.check(ok, 'C01.2', f"default of {fi.name}({p}) is a known rule", f"default {ast.unparse(d) if d is not None else None}; rules {lits}",
                      fi.loc(), fi.qualname, f"default:{p}")
    return lits


PUBLIC_ANCHORS = (SAU + 'find_closest_element_indices_to_values', SAU + 'integral', SAU + 'sum_over_indices',
                  MATCH + '_interval_integral_matching_stretch', MATCH + '_integral_matching_stretch', 'traffic_weaver.process.spline_smooth') + SCANS
opaque = inline_except(*PUBLIC_ANCHORS)


def check_public(ctx, lits):
    ctx.rule('C01.5', 'in each of the three fixed-point modes (and with both designations given, where the indices win) the public function passes to the range sums an index array into x_ref and to '
                      'the stretch an index array into x, both defined on every path; the values are canonically equal (value numbering, callees '
                      'uninterpreted) to the documented wiring; count and membership guards raise ValueError before the computation')
    ctx.rule('C01.4', 'window/integral index convention: the interval loop zips the target integrals with consecutive pairs of fixed indices; '
                      'read of x, read of y and store into y use the same closed window [start : next+1]; the range sums use half-open ranges '
                      'over consecutive index pairs')
    fi = ctx.prog.func(PUBLIC)
    mm = fi.module
    Lx, Lr = sym.sym('Lx'), sym.sym('Lr')
    modes = {
        'search': {'fixed_points_in_x': Const(None), 'fixed_points_indices_in_x': Const(None)},
        'values': {'fixed_points_in_x': arr_param('FP', kind='list'), 'fixed_points_indices_in_x': Const(None)},
        'indices': {'fixed_points_in_x': Const(None), 'fixed_points_indices_in_x': arr_param('FI', kind='list')},
        # both designations given: the indices take precedence (documented: "If specified, `fixed_points_in_x` is ignored")
        'both': {'fixed_points_in_x': arr_param('FP', kind='list'), 'fixed_points_indices_in_x': arr_param('FI', kind='list')},
    }
    SPEC = {
        'search': ('np.where(np.isin(x, np.unique(x.take(find_closest_element_indices_to_values(x, x_ref, strategy=strategy)))))[0]',
                   'np.arange(len(x_ref))'),
        'values': ('np.where(np.isin(x, np.unique(np.asarray(FP))))[0]',
                   'np.where(np.isin(x_ref, x_ref.take(find_closest_element_indices_to_values(x_ref, np.unique(np.asarray(FP)), strategy="closest"))))[0]'),
        'indices': ('np.unique(FI)',
                    'np.where(np.isin(x_ref, x_ref.take(find_closest_element_indices_to_values(x_ref, x.take(np.unique(FI)), strategy="closest"))))[0]'),
    }
    SPEC['both'] = SPEC['indices']
    for mode, extra in modes.items():
        x, y = arr_param('x', length=Lx), arr_param('y', length=Lx)
        xr, yr = arr_param('x_ref', length=Lr), arr_param('y_ref', length=Lr)
        strat = Term('param', (Const('strategy'),), kind='str')
        tm = Term('param', (Const('target_method'),), kind='str')
        rm = Term('param', (Const('reference_method'),), kind='str')
        alpha = S('alpha')
        args = {'x': x, 'y': y, 'x_ref': xr, 'y_ref': yr, 'fixed_points_finding_strategy': strat,
                'target_function_integral_method': tm, 'reference_function_integral_method': rm, 'alpha': alpha, 's': Const(None)}
        args.update(extra)
        missing = [p for p in args if p not in fi.params()]
        if missing:
            raise AnalysisError(f"C01.5: parameters {missing} of {fi.qualname} vanished")
        ev = Evaluator(ctx.prog, inline=opaque, opaque_kind=REPO_RESULT_KIND)
        res, st = ev.run_function(fi, args=args)
        if ev.issues:
            raise AnalysisError(f"C01.5: {fi.qualname} not canonicalisable in mode {mode}: {ev.issues[:3]}")
        calls = {e.data['callee'].name: e for e in ev.events if e.kind == 'call' and e.data['callee'] is not None}
        for need in ('integral', 'sum_over_indices', '_interval_integral_matching_stretch'):
            if need not in calls:
                raise AnalysisError(f"C01.5: {fi.qualname} no longer calls {need} (mode {mode})")
        # spec values in the module's own namespace
        sev = Evaluator(ctx.prog, inline=opaque, opaque_kind=REPO_RESULT_KIND)
        sev.frames.append(Frame(None, mm))
        sst = State({'x': x, 'x_ref': xr, 'strategy': strat, 'FP': extra.get('fixed_points_in_x'), 'FI': extra.get('fixed_points_indices_in_x')})
        want_x = sev.eval(ast.parse(SPEC[mode][0], mode='eval').body, sst)
        want_r = sev.eval(ast.parse(SPEC[mode][1], mode='eval').body, sst)
        if sev.issues:
            raise AnalysisError(f"C01.5: specification not canonicalisable: {sev.issues}")
        b_int = calls['integral'].data['bound']
        b_sum = calls['sum_over_indices'].data['bound']
        b_str = calls['_interval_integral_matching_stretch'].data['bound']
        loc = calls['_interval_integral_matching_stretch'].loc()

        def has_unbound(v):
            return any(isinstance(t, Term) and t.head in ('unbound', 'unsupported') for t in walk_vals(v))
        got_x = b_str.get('fixed_points_indices_in_x')
        got_r = b_sum.get('indices')
        # for strictly increasing x (the property's precondition) the indices of the samples whose value is among x[I] are the distinct indices I:
        #   where(isin(x, unique(x.take(I))))[0] == unique(I)
        alt_x = None
        if mode == 'search':
            alt_x = sev.eval(ast.parse('np.unique(find_closest_element_indices_to_values(x, x_ref, strategy=strategy))', mode='eval').body, sst)
        same_x = got_x is not None and not has_unbound(got_x) and (veq(_arr(got_x), _arr(want_x)) or (alt_x is not None and veq(_arr(got_x), _arr(alt_x))))
        ctx.check(same_x, 'C01.5',
                  f"mode {mode}: fixed indices handed to the stretch index x as documented",
                  f"code: {show(got_x, 400)}\nspec: {show(want_x, 400)}", loc, fi.qualname, f"xidx:{mode}")
        ctx.check(got_r is not None and not has_unbound(got_r) and veq(_arr(got_r), _arr(want_r)), 'C01.5',
                  f"mode {mode}: index array handed to the range sums indexes x_ref as documented",
                  f"code: {show(got_r, 400)}\nspec: {show(want_r, 400)}", calls['sum_over_indices'].loc(), fi.qualname, f"ridx:{mode}")
        # reference integrals: integral(x_ref, y_ref, reference rule), summed over the ref indices
        ctx.check(veq(b_int.get('x'), xr) and veq(b_int.get('y'), yr) and veq(b_int.get('method'), rm), 'C01.2',
                  f"mode {mode}: integral() receives (x_ref, y_ref, reference rule)",
                  f"bound: x={show(b_int.get('x'), 60)} y={show(b_int.get('y'), 60)} method={show(b_int.get('method'), 60)}",
                  calls['integral'].loc(), fi.qualname, f"refrule:{mode}")
        ctx.check(veq(_arr(b_sum.get('a')), _arr(calls['integral'].data['term'])), 'C01.5',
                  f"mode {mode}: the range sums run over the reference integrals", show(b_sum.get('a'), 200),
                  calls['sum_over_indices'].loc(), fi.qualname, f"sumarg:{mode}")
        ctx.check(veq(b_str.get('x'), x) and veq(b_str.get('y'), y) and veq(b_str.get('integral_method'), tm)
                  and veq(_arr(b_str.get('integral_values')), _arr(calls['sum_over_indices'].data['term'])) and veq(b_str.get('alpha'), alpha),
                  'C01.2', f"mode {mode}: the stretch receives (x, y, summed reference integrals, target rule, alpha)",
                  f"bound: { {k: show(v, 80) for k, v in b_str.items()} }", loc, fi.qualname, f"stretchargs:{mode}")
        # result is what the stretch returns (no smoothing requested)
        ctx.check(veq(_arr(res), _arr(calls['_interval_integral_matching_stretch'].data['term'])), 'C01.5',
                  f"mode {mode}: the result of the stretch is returned unchanged when s is None", show(res, 200), fi.loc(), fi.qualname,
                  f"result:{mode}")
        # guards: ValueError raises before the computation
        raises = [e for e in ev.events if e.kind == 'raise']
        first_call_seq = calls['integral'].seq
        ok = [e for e in raises if e.data.get('exc') == 'ValueError' and e.seq < first_call_seq]
        want_n = {'search': 1, 'values': 2, 'indices': 2, 'both': 2}[mode]
        ctx.check(len(ok) >= want_n and len(ok) == len(raises), 'C01.5',
                  f"mode {mode}: count/membership guards raise ValueError before the integrals are computed",
                  f"raises: {[(e.data.get('exc'), e.loc()) for e in raises]} (need >= {want_n} ValueError guards)", fi.loc(), fi.qualname,
                  f"guards:{mode}")
        ctx.sample({'rule': 'C01.5', 'mode': mode, 'x_indices': show(got_x, 160), 'ref_indices': show(got_r, 160)})
    ctx.trust('numpy semantics of isin/where/unique/take/arange are not interpreted: both code and specification are kept as the same uninterpreted terms')


def _arr(v):
    """compare array-valued terms irrespective of the element-wise wrapper"""
    if isinstance(v, Num) and v.length is not None:
        atoms = v.r.atoms()
        if len(atoms) == 1:
            (a,) = atoms
            if sym.ATOMS.head(a) == 'el' and sym.ATOMS.args(a)[1] == sym.idx() and v.r == Rat.atom(a):
                ref = sym.ATOMS.args(a)[0]
                if isinstance(ref, Ref) and ref.term is not None:
                    return ref.term
    return v


def kernel_core(ctx):
    """(qualname, {kernel parameter: core parameter}) when the stretch kernel with s=None and x given returns, unchanged, the result of one call
    core(x, y, integral_value, integral_method, alpha) of a repository function: the kernel rules (C01.1-C01.3, decided on the kernel with the core inlined)
    then speak about that core as well.  None otherwise."""
    kfi = ctx.prog.func(KERNEL)
    Lk = sym.sym('Lk')
    kx, ky = arr_param('kx', length=Lk), arr_param('ky', length=Lk)
    vals = {'x': kx, 'y': ky, 'integral_value': S('kP'), 'integral_method': Term('param', (Const('kmethod'),), kind='str'), 'alpha': S('kalpha')}
    args = dict(vals)
    args['s'] = Const(None)
    if any(p_ not in kfi.params() for p_ in args):
        return None
    for p_ in kfi.params():
        if p_ not in args:
            args[p_] = Term('param', (Const('k:' + p_),))
    kev = Evaluator(ctx.prog, inline=lambda f: False, opaque_kind=REPO_RESULT_KIND)
    try:
        kres, _ = kev.run_function(kfi, args=args)
    except AnalysisError:
        return None
    calls = [e for e in kev.events if e.kind == 'call' and e.data['callee'] is not None]
    if kev.issues or len(calls) != 1 or not veq(_arr(kres), calls[0].data['term']):
        return None
    b = calls[0].data['bound']
    pmap = {}
    for kp, kv in vals.items():
        hit = [cp for cp, cv in b.items() if (same(cv, kv) if isinstance(kv, Num) and kv.length is not None else veq(cv, kv))]
        if len(hit) != 1:
            return None
        pmap[kp] = hit[0]
    return calls[0].data['callee'].qualname, pmap


def check_interval_loop(ctx):
    fi = ctx.prog.func(INTERVAL)
    L = sym.sym('L')
    x, y = arr_param('x', length=L), arr_param('y', length=L)
    J = sym.sym('J')
    iv = arr_param('IV', length=J)
    fx = arr_param('IDX', length=J + C(1))
    meth = Term('param', (Const('method'),), kind='str')
    alpha = S('alpha')
    args = {'x': x, 'y': y, 'integral_values': iv, 'fixed_points_indices_in_x': fx, 'integral_method': meth, 'alpha': alpha, 's': Const(None)}
    missing = [p for p in args if p not in fi.params()]
    if missing:
        raise AnalysisError(f"C01.4: parameters {missing} of {fi.qualname} vanished")
    ev = Evaluator(ctx.prog, inline=opaque, opaque_kind=REPO_RESULT_KIND)
    res, st = ev.run_function(fi, args=args)
    if ev.issues:
        raise AnalysisError(f"C01.4: {fi.qualname} not canonicalisable: {ev.issues[:3]}")
    stores = [e for e in ev.events if e.kind == 'store']
    ctx.floor('C01.4', len(stores), 1, 'in-place stores in the interval loop')
    kcalls = [e for e in ev.events if e.kind == 'call' and e.data['callee'] is not None and e.data['callee'].qualname == KERNEL]
    if not kcalls:
        # the loop may call the array-level core of the kernel directly, when the kernel itself is a thin wrapper around that core
        core = kernel_core(ctx)
        if core is not None:
            qn, pmap = core
            ev = Evaluator(ctx.prog, inline=inline_except(*(tuple(PUBLIC_ANCHORS) + (qn,))), opaque_kind=REPO_RESULT_KIND)
            res, st = ev.run_function(fi, args=args)
            if ev.issues:
                raise AnalysisError(f"C01.4: {fi.qualname} not canonicalisable: {ev.issues[:3]}")
            stores = [e for e in ev.events if e.kind == 'store']
            for e in ev.events:
                if e.kind == 'call' and e.data['callee'] is not None and e.data['callee'].qualname == qn:
                    e.data['bound'] = {kp: e.data['bound'].get(cp) for kp, cp in pmap.items()}
                    kcalls.append(e)
    ctx.floor('C01.4', len(kcalls), 1, 'kernel calls in the interval loop')
    for e in stores:
        inst = f"store at {e.loc()}"
        if len(e.loops) != 1 or e.loops[0].sym is None:
            ctx.unknown('C01.4', inst, 'store is not inside the recognised single interval loop', e.loc(), fi.qualname, 'loop')
            continue
        j = e.loops[0].sym
        lo_want, hi_want = fx.at(j).r, fx.at(j + C(1)).r + C(1)
        idx = e.data['index']
        ok_idx = isinstance(idx, Term) and idx.head == 'slice' and isinstance(idx.args[0], Num) and isinstance(idx.args[1], Num) \
            and idx.args[0].r == lo_want and idx.args[1].r == hi_want
        ctx.check(ok_idx, 'C01.4', inst + ': window j is the closed sample range [idx[j] : idx[j+1]+1]',
                  f"code slice: {show(idx, 200)}; expected [{sym.show(lo_want)} : {sym.show(hi_want)}]", e.loc(), fi.qualname, 'store-slice')
        val = e.data['value']
        kc = None
        for c in kcalls:
            if veq(_arr(val), c.data['term']):
                kc = c
        if kc is None:
            ctx.fail('C01.4', inst + ': the stored value is the kernel result for that window', show(val, 300), e.loc(), fi.qualname, 'store-value')
            continue
        b = kc.data['bound']
        bx, by = b.get('x'), b.get('y')
        okx = isinstance(bx, Num) and bx.length is not None and bx.r == x.at(sym.idx() + lo_want).r and bx.length == hi_want - lo_want
        ctx.check(okx, 'C01.4', inst + ': the kernel reads x over the same window', show(bx, 200), kc.loc(), fi.qualname, 'kernel-x')
        oky = isinstance(by, Num) and by.length is not None and by.length == hi_want - lo_want
        if oky:
            # y argument: element i is element lo+i of the working copy (loop state of a fresh float copy of y)
            atoms = [a for a in sym.direct_atoms(by.r) if sym.ATOMS.head(a) == 'el']
            oky = len(atoms) >= 1 and all(sym.ATOMS.args(a)[1] == sym.idx() + lo_want for a in atoms if sym.free_idx(Rat.atom(a)))
            base = e.data['base']
            oky = oky and veq(_root(by), _root(base))
        ctx.check(oky, 'C01.4', inst + ': the kernel reads the working copy of y over the same window', show(by, 200), kc.loc(), fi.qualname, 'kernel-y')
        ctx.check(veq(b.get('integral_value'), iv.at(j)), 'C01.4', inst + ': window j is stretched to target integral j',
                  show(b.get('integral_value'), 100), kc.loc(), fi.qualname, 'kernel-target')
        ctx.check(veq(b.get('integral_method'), meth) and veq(b.get('alpha'), alpha), 'C01.2',
                  inst + ': rule and alpha are forwarded unchanged to the kernel',
                  f"method={show(b.get('integral_method'), 60)} alpha={show(b.get('alpha'), 60)}", kc.loc(), fi.qualname, 'kernel-fwd')
        # the working copy is a fresh float copy of y (C03.4/C09.1 look at freshness; here: it is y's values)
        ctx.check(veq(_root(e.data['base']), y) or _is_y_copy(_root(e.data['base']), y), 'C01.4',
                  inst + ': the array written is the working copy of y', show(_root(e.data['base']), 200), e.loc(), fi.qualname, 'store-root')
    # result = the working copy
    ctx.check(isinstance(res, Num) and veq(_root(res), y) or _is_y_copy(_root(res), y), 'C01.4', 'the interval function returns the working copy',
              show(res, 200), fi.loc(), fi.qualname, 'interval-result')
    # sum_over_indices: half-open ranges over consecutive pairs
    sfi = ctx.prog.func(SAU + 'sum_over_indices')
    a = arr_param('a', length=L)
    ind = arr_param('ind', length=J + C(1))
    r, sev, _, sfi = runf(ctx.prog, SAU + 'sum_over_indices', pos=[a, ind])
    if sev.issues:
        raise AnalysisError(f"C01.4: sum_over_indices not canonicalisable: {sev.issues[:3]}")
    # element j of the documented result: the sum runs over its own (bound) index, j is the element index - built with j as a separate symbol first,
    # then renamed, so that the two are not confused
    jj = sym.sym('$outer_j')
    lo_j, hi_j = ind.at(jj).r, ind.at(jj + C(1)).r
    want = sym.subst(sym.mk_sum(a.at(sym.idx() + lo_j).r, hi_j - lo_j), {next(iter(jj.atoms())): sym.idx()})
    lo, hi = ind.at(sym.idx()).r, ind.at(sym.idx() + C(1)).r
    from .common import foreign_heads
    fh_ = foreign_heads(r, Num(want, J))
    if fh_ and not (isinstance(r, Num) and r.length is not None and r.r == want):
        ctx.unknown('C01.4', 'sum_over_indices: element j = sum of a[ind[j] : ind[j+1]] (half-open), one element per consecutive pair',
                    f"construction not recognised (uses {fh_})\ncode: {show(r, 300)}", sfi.loc(), sfi.qualname, 'sum-over-indices')
        r = None
    else:
        r = need_num(ctx, 'C01.4', 'sum_over_indices result', r, sfi)
    ctx.check(r is None or (r.length is not None and r.r == want and same_extent(r.length, J)), 'C01.4',
              'sum_over_indices: element j = sum of a[ind[j] : ind[j+1]] (half-open), one element per consecutive pair' + (' [not decided here]' if r is None else ''),
              f"code: {show(r, 300) if r is not None else ''}\nspec: {sym.show(want)[:300]} | len {sym.show(J)}", sfi.loc(), sfi.qualname, 'range-sums')


def _root(v):
    from ..rfa_model import strip_state
    return strip_state(v)


def _is_y_copy(root, y):
    return isinstance(root, Num) and isinstance(y, Num) and root.struct_eq(y)


def check_dtype(ctx, rule='C01.7'):
    from .common import dt_function, DT_RULE
    ctx.rule(rule, DT_RULE)
    n = dt_function(ctx, rule, MATCH + '_interval_integral_matching_stretch', {'x': 'x', 'y': 'x'}, consts={'fixed_points_indices_in_x': arr_param('FI', kind='list')},
                    inline=inline_except(*PUBLIC_ANCHORS))
    n += dt_function(ctx, rule, MATCH + '_integral_matching_stretch', {'x': 'x', 'y': 'x'})
    ctx.floor(rule, n, 1, 'in-place stores with a known buffer element type in the matching code')


def run(ctx):
    ctx.rule('C01.1', 'every library reference reachable from the matching entry points exists in the installed NumPy/SciPy and its arguments bind to the installed signature')
    roots = [ctx.prog.func(PUBLIC), ctx.prog.func('traffic_weaver.weaver.Weaver.integral_match')]
    funcs = callgraph.reachable(ctx.prog, roots)
    funcs = [f for f in funcs if f.module.name.split('.')[-1] in ('match', 'sorted_array_utils', 'weaver', 'process')]
    api.check_api(ctx, 'C01.1', funcs, floor=20)
    lits = check_tables(ctx)
    check_kernel(ctx, lits)
    check_interval_loop(ctx)
    check_public(ctx, lits)
    ctx.rule('C01.6', 'the kernel\'s displacement vanishes at both ends of a window: adjacent windows share their end samples, so a non-zero '
                      'end weight would let the next window destroy the previous interval\'s integral')
    from . import c03
    c03.check_profile(ctx, rule_prefix='C01', only_ends=True)
    from . import c10
    c10.check_dispatcher(ctx)       # fixed points are selected by the neighbour search (structural table only; C10)
    c10.check_scans(ctx, fill_true_only=True)
    check_dtype(ctx)
    from . import c02
    from .c08 import model as _wm
    c02.check_wiring(ctx, _wm(ctx), recreate=False)      # the reference handed to the matcher by the Weaver is the tracked reference series
    ctx.trust('field axioms over the reals; Sum is linear; floating-point rounding not modelled',
              'installed numpy/scipy namespaces and signatures (inspect.signature)')
    ctx.assume('strictly increasing x; selected fixed points are distinct and leave an interior sample (property precondition)',
               'the neighbour search itself is correct (C10)')
