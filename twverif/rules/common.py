"""helpers shared by the per-property rule modules"""
from __future__ import annotations

import ast
from typing import Dict, Optional, List, Callable

from .. import sym
from ..sym import Rat, C
from ..values import (Val, Num, Const, Tup, Kw, Term, Fn, Obj, P, Gam, Ref, arr_param, scalar_param, veq, walk_vals,
                      term_as_num, p_not)
from ..symeval import Evaluator, State, Frame, Event
from ..model import Program, FuncInfo, AnalysisError


def spec(prog: Program, src: str, env: Dict[str, Val]) -> Val:
    """canonicalise a specification expression (written in the rule file) with the same engine"""
    ev = Evaluator(prog)
    any_mod = next(iter(prog.modules.values()))
    ev.frames.append(Frame(None, any_mod))
    st = State(dict(env))
    v = ev.eval(ast.parse(src, mode='eval').body, st)
    if ev.issues:
        raise AnalysisError(f"specification expression not canonicalisable: {src}: {ev.issues}")
    return v


def spec_rat(prog, src, env) -> Rat:
    v = spec(prog, src, env)
    if not isinstance(v, Num):
        raise AnalysisError(f"specification expression is not numeric: {src}")
    return v.r


def S(name: str) -> Num:
    return scalar_param(name)


SAU = 'traffic_weaver.sorted_array_utils.'
REPO_RESULT_KIND = {
    SAU + 'oversample_linspace': 'ndarray', SAU + 'oversample_piecewise_constant': 'ndarray',
    SAU + 'extend_linspace': 'ndarray', SAU + 'extend_constant': 'ndarray', SAU + 'rectangle_integral': 'ndarray',
    SAU + 'trapezoid_integral': 'ndarray', SAU + 'integral': 'ndarray', SAU + 'sum_over_indices': 'ndarray',
    SAU + 'find_closest_lower_equal_element_indices_to_values': 'ndarray',
    SAU + 'find_closest_higher_equal_element_indices_to_values': 'ndarray',
    SAU + 'find_closest_lower_or_higher_element_indices_to_values': 'ndarray',
    SAU + 'find_closest_element_indices_to_values': 'ndarray',
    SAU + 'append_one_sample': 'tuple',
    'traffic_weaver.process.normalize': 'ndarray', 'traffic_weaver.process.noise_gauss': 'ndarray',
    'traffic_weaver.process.interpolate': 'ndarray', 'traffic_weaver.process._piecewise_constant_interpolate': 'ndarray',
    'traffic_weaver.match.integral_matching_reference_stretch': 'ndarray',
    'traffic_weaver.match._integral_matching_stretch': 'ndarray',
    'traffic_weaver.match._interval_integral_matching_stretch': 'ndarray',
    'traffic_weaver.process.repeat': 'tuple', 'traffic_weaver.process.trend': 'tuple',
    'traffic_weaver.process.truncate': 'tuple', 'traffic_weaver.process.average': 'tuple',
    'traffic_weaver.process.linear_trend': 'tuple', 'traffic_weaver.process.spline_smooth': 'callable',
}


def run(prog: Program, qualname: str, args: Dict[str, Val] = None, decide=None, inline=None, self_val=None, heap=None,
        param_hook=None, max_depth=8, pos=None):
    fi = prog.func(qualname)
    ev = Evaluator(prog, inline=inline, decide=decide, param_hook=param_hook, max_depth=max_depth,
                   opaque_kind=REPO_RESULT_KIND)
    res, st = ev.run_function(fi, args=args or {}, self_val=self_val, heap=heap, pos=pos)
    return res, ev, st, fi


def no_sau(fi: FuncInfo) -> bool:
    """inline everything except the array helpers of sorted_array_utils (verified separately, C17)"""
    return not fi.qualname.startswith(SAU)


def has_unsupported(v: Val) -> Optional[str]:
    for t in walk_vals(v):
        if isinstance(t, Term) and t.head in ('unsupported', 'badcall', 'undefined'):
            return str(t)
    return None


VALUE_CHANGING = ('lib:numpy.maximum', 'lib:numpy.minimum', 'lib:numpy.clip', 'lib:numpy.round', 'lib:numpy.around', 'lib:numpy.floor', 'lib:numpy.ceil',
                  'lib:numpy.abs', 'lib:numpy.absolute', 'lib:numpy.fabs', 'lib:numpy.nan_to_num', 'lib:numpy.where', 'lib:numpy.trunc', 'lib:numpy.rint',
                  'lib:numpy.sign', 'lib:numpy.fmax', 'lib:numpy.fmin', 'method:clip', 'method:round', 'lib:numpy.sort')


def split_branches(v, path=()):
    """(conditions, value) for every branch of a conditionally selected value"""
    if isinstance(v, Gam):
        return split_branches(v.a, path + (v.pred,)) + split_branches(v.b, path + (P('not', v.pred) if not (isinstance(v.pred, P) and v.pred.op == 'not')
                                                                              else v.pred.args[0],))
    return [(path, v)]


def post_processed(v) -> Optional[str]:
    """name of a value-changing library call wrapped around an array value (clamping, rounding, ...), None otherwise"""
    t = arr_term(v) if isinstance(v, Num) else v
    if isinstance(t, Term) and t.head in VALUE_CHANGING:
        return t.head.split(':', 1)[1]
    return None


def need_num(ctx, rule, what, v, fi: FuncInfo):
    """the value must be numeric-canonical; otherwise the construct is not recognised"""
    if isinstance(v, Num):
        u = has_unsupported(v)
        if u is None:
            return v
        raise AnalysisError(f"{rule}: {what} in {fi.qualname} contains an uninterpreted construct: {u}")
    raise AnalysisError(f"{rule}: {what} in {fi.qualname} is not a numeric value the canonicaliser understands: {str(v)[:200]}")


def events(ev: Evaluator, kind: str, pred: Callable[[Event], bool] = None) -> List[Event]:
    return [e for e in ev.events if e.kind == kind and (pred is None or pred(e))]


def lib_events(ev: Evaluator, name: str) -> List[Event]:
    return [e for e in ev.events if e.kind == 'lib' and e.data['name'] == name]


def show(v, limit=600) -> str:
    s = str(v)
    return s if len(s) <= limit else s[:limit] + ' ...'


def subst_val(v: Val, mapping: Dict[int, Rat]) -> Val:
    return v.subst(lambda r: sym.subst(r, mapping))


def atom_of(r: Rat) -> int:
    """the atom id of a rational that is exactly one atom"""
    if len(r.n.t) == 1 and r.d == sym.Poly.const(1):
        (m, c), = r.n.t.items()
        if c == 1 and len(m) == 1 and m[0][1] == 1:
            return m[0][0]
    raise AnalysisError(f"expected a single atom, got {sym.show(r)}")


def guard_has(guard, pred_test: Callable[[Val], bool]) -> bool:
    return any(pred_test(g) for g in guard)


def pstr(p) -> str:
    return str(p)


def func_src(fi: FuncInfo, node) -> str:
    try:
        return ast.unparse(node)
    except Exception:
        return ''


def targ(t: Term, name: str, i: int = None):
    """argument of a (normalised) library-call term by parameter name, falling back to a position"""
    v = t.kw(name)
    if v is not None:
        return v
    if i is not None and i < len(t.args):
        return t.args[i]
    return None


class ModSpec:
    """evaluate specification snippets in the namespace of a repository module (so that `np`, `CubicSpline`, repo helpers
    resolve exactly as in the code); repo callees are kept uninterpreted unless `inline` says otherwise"""

    def __init__(self, prog: Program, modname: str, env: Dict[str, Val], inline=None):
        self.ev = Evaluator(prog, inline=inline or (lambda f: False), opaque_kind=REPO_RESULT_KIND)
        mi = prog.modules.get(modname)
        if mi is None:
            raise AnalysisError(f"module {modname} not found")
        self.ev.frames.append(Frame(None, mi))
        self.st = State(dict(env))

    def exec(self, src: str):
        self.ev.exec_block(ast.parse(src).body, self.st)
        if self.ev.issues:
            raise AnalysisError(f"specification not canonicalisable: {self.ev.issues}")

    def val(self, src: str) -> Val:
        v = self.ev.eval(ast.parse(src.strip(), mode='eval').body, self.st)
        if self.ev.issues:
            raise AnalysisError(f"specification not canonicalisable: {src}: {self.ev.issues}")
        return v


def arr_term(v):
    """the underlying term of an opaque array value (for structural comparison irrespective of the element-wise wrapper)"""
    if isinstance(v, Num) and v.length is not None:
        atoms = v.r.atoms()
        if len(atoms) == 1:
            (a,) = atoms
            if sym.ATOMS.head(a) == 'el' and sym.ATOMS.args(a)[1] == sym.idx() and v.r == Rat.atom(a):
                ref = sym.ATOMS.args(a)[0]
                if isinstance(ref, Ref) and ref.term is not None:
                    return ref.term
    return v


def same(a, b) -> bool:
    return veq(arr_term(a), arr_term(b))


def unused_params(mf, skip=('self',)) -> List[str]:
    """parameters of a method whose symbolic value reaches no call argument, store, guard or result"""
    used = set()
    vals = [mf.result] + [e.data['value'] for e in mf.stores]
    for e in mf.ev.events:
        for k in ('pos', 'kw', 'bound', 'recv', 'value', 'star_kw'):
            d = e.data.get(k)
            if isinstance(d, dict):
                vals += [v for v in d.values() if isinstance(v, Val)]
            elif isinstance(d, list):
                vals += [v for v in d if isinstance(v, Val)]
            elif isinstance(d, Val):
                vals.append(d)
        vals += list(e.guard)
    texts = ' '.join(str(v) for v in vals if v is not None)
    out = []
    for p, v in mf.params.items():
        if p in skip:
            continue
        tag = None
        if isinstance(v, Num) and v.length is None:
            tag = sym.show(v.r)
        elif isinstance(v, Num):
            tag = str(arr_term(v)) if arr_term(v) is not v else None
            if tag is None:
                ats = [a for a in v.r.atoms() if sym.ATOMS.head(a) == 'el']
                tag = str(sym.ATOMS.args(ats[0])[0]) if ats else None
        elif isinstance(v, Term):
            tag = str(v)
        if tag and tag not in texts:
            out.append(p)
    return out


def inline_except(*quals):
    """inline every repository function except the named semantic anchors (helpers a refactoring may introduce or remove are
    therefore transparent; the anchors are the functions a specification is phrased in)"""
    qs = tuple(quals)

    def pred(fi: FuncInfo) -> bool:
        return not any(fi.qualname == q or (q.endswith('.') and fi.qualname.startswith(q)) for q in qs)
    return pred


SCANS = (SAU + 'find_closest_lower_equal_element_indices_to_values', SAU + 'find_closest_higher_equal_element_indices_to_values',
         SAU + 'find_closest_lower_or_higher_element_indices_to_values')


def exits_of(ev: Evaluator, fi: FuncInfo):
    """normal and exceptional exits of the top-level function of an evaluation"""
    rets = [e for e in ev.events if e.kind in ('return', 'fallthrough') and (e.func is fi or e.data.get('func') is fi)]
    raises = [e for e in ev.events if e.kind == 'raise']
    return rets, raises


# --------------------------------------------------------------------------- element-type (dtype) closure, shared by the numeric properties
def foreign_heads(code, spec, allow=()) -> List[str]:
    """uninterpreted constructs (library calls, methods, opaque calls, loop-carried state) that the code's value mentions and the documented value does
    not: their presence means the construction is not one the rule can compare - the verdict is then *unknown* (exit 2), not a violation"""
    def heads_of(v):
        out = set()
        for t in walk_vals(v):
            if isinstance(t, Term) and (t.head.startswith(('lib:', 'method:', 'call:', 'binop:', 'new:')) or t.head in (
                    'apply', 'loopvar', 'loopstate', 'stored', 'mutated', 'item', 'index', 'slice_of', 'listcomp', 'attr', 'getattr', 'partial', 'unsupported',
                    'badcall', 'global', 'unresolved', 'take', 'col', 'cat', 'fill', 'T', 'mask', 'strop', 'fstring', 'iter')):
                out.add(t.head)
        return out
    hs = heads_of(spec) | set(allow)
    return sorted(h for h in heads_of(code) if h not in hs and h not in VALUE_CHANGING)


def same_extent(a, b) -> bool:
    """two symbolic extents are the same count: equal, or one is the other clamped at zero (`max(n, 0)` of a count n: an extent is never negative)"""
    from ..values import minmax_atom
    if a is None or b is None:
        return False
    return a == b or a == minmax_atom('max', [C(0), b]) or b == minmax_atom('max', [C(0), a])


def value_changing_heads(code, spec) -> List[str]:
    """value-changing library calls (clamping, rounding, ...) the code's value mentions and the documented value does not: a mismatch that goes through
    one of them is a violation whatever else the construction uses"""
    def hs(v):
        return {t.head for t in walk_vals(v) if isinstance(t, Term)}
    return sorted(h for h in hs(code) - hs(spec) if h in VALUE_CHANGING)


def result_positions(ev, res) -> Dict[str, int]:
    """which local name ends up at which position of a returned tuple (by the values the names hold when the function returns, so an intermediate
    name for the tuple does not matter)"""
    out: Dict[str, int] = {}
    if not isinstance(res, Tup):
        return out
    env = ev.top_state.env if getattr(ev, 'top_state', None) is not None else {}
    for name, v in env.items():
        for j, item in enumerate(res.items):
            if v is item or (isinstance(v, Val) and not isinstance(v, (Const, Tup)) and veq(v, item)):
                out.setdefault(name, j)
    return out


def flag_used_as_truth(ctx, rule: str, fi: FuncInfo, flag: str, args: Dict[str, Val], what: str):
    """a boolean option is used as a truth value: evaluated with the flag symbolic, every test that mentions it is its truthiness (numpy.bool_, 1, ...
    select the same branch as True); an identity / equality comparison with a literal is reported"""
    fv = Term('param', (Const(flag),))
    a2 = dict(args)
    a2[flag] = fv
    ev = Evaluator(ctx.prog, inline=inline_except(*SCANS), opaque_kind=REPO_RESULT_KIND)
    res, st = ev.run_function(fi, args=a2)
    vals = [res] + [g for e in ev.events for g in e.guard] + [e.data.get('value') for e in ev.events if e.kind in ('store', 'field')]
    leaves = []
    for v in vals:
        if v is None:
            continue
        for t in walk_vals(v):
            if isinstance(t, P) and t.op not in ('not', 'and', 'or') and any(veq(u, fv) for u in walk_vals(t)):
                leaves.append(t)
    odd = sorted({str(t) for t in leaves if not (t.op == 'truthy' and veq(t.args[0], fv))})
    opaque = not leaves and any(isinstance(t, Term) and t.head in ('stored', 'loopstate', 'loopvar', 'mutated') for v in vals if v is not None for t in walk_vals(v))
    return ctx.check(None if opaque else (bool(leaves) and not odd), rule, f"{what}: `{flag}` is used as a truth value (any true value selects the same behaviour as True)",
                     f"tests on the flag: {odd or [str(t) for t in leaves][:3] or 'none found'}", fi.loc(), fi.qualname, f"truthy:{fi.name}:{flag}")


TOLERANT = ('numpy.isclose', 'numpy.allclose', 'math.isclose', 'numpy.testing.assert_allclose')


def tolerance_heads(v) -> List[str]:
    """tolerance-based comparisons inside a value (their default atol / rtol tie the outcome to the scale of the data: an exact or
    affine-invariant clause cannot rest on them)"""
    return sorted({t.head[4:] for t in walk_vals(v) if isinstance(t, Term) and t.head.startswith('lib:') and t.head[4:] in TOLERANT})


def tolerance_events(ev) -> list:
    return [e for e in ev.events if e.kind == 'lib' and e.data.get('name') in TOLERANT]


def dt_function(ctx, rule: str, qualname: str, arrays, consts=None, what=None, inline=None):
    """DT1/DT2 (dtypes.py) over one library function evaluated with caller-typed arrays: real values are never stored into, or cast to,
    a buffer that keeps the caller's element type"""
    from .. import dtypes
    fi = ctx.prog.func(qualname)
    args: Dict[str, Val] = {}
    a = fi.node.args
    params = fi.params()
    defaults = dict(zip(params[len(params) - len(a.defaults):], a.defaults))
    for p in params:
        if consts and p in consts:
            args[p] = consts[p]
        elif p in arrays:
            args[p] = arr_param(p, length=sym.sym('L:' + (arrays[p] if isinstance(arrays, dict) else p)))
        elif p in defaults and isinstance(defaults[p], ast.Constant) and (isinstance(defaults[p].value, (str, bool)) or defaults[p].value is None):
            args[p] = Const(defaults[p].value)
        else:
            args[p] = S(p)
    ev = Evaluator(ctx.prog, inline=inline or inline_except(*SCANS), opaque_kind=REPO_RESULT_KIND)
    star = Term('param', (Const('**' + a.kwarg.arg),), kind='dict') if a.kwarg else None
    ev.run_function(fi, args=args, star_kwargs=star)
    n = dtypes.check_events(ctx, ev, rule, what or fi.name, fi)
    return n


def dt_weaver(ctx, rule: str, wm, methods):
    from .. import dtypes
    n = 0
    for m in methods:
        if wm.methods.get(m) is None:
            continue
        for label, mf in wm.variants_of(m):
            n += dtypes.check_events(ctx, mf.ev, rule, f"Weaver.{m}" + (f"[{label}]" if label else ''), mf.fi)
    return n


DT_RULE = ('the float domain is entered once and never left: no real-valued result is stored in place into, or cast to the element type of, a buffer that '
           'keeps the caller\'s dtype (integer-typed input is ordinary: Weaver(None, y) builds an integer abscissa itself); decided on the element-type '
           'shadow of the evaluated function (dtypes.py): buffers created with dtype=float / zeros / linspace are float, asarray / copy / tile / '
           'zeros_like / v.dtype inherit')


# --------------------------------------------------------------------------- neighbour indices as counts (assume-guarantee with C10)
LOWER_SCAN = SAU + 'find_closest_lower_equal_element_indices_to_values'
HIGHER_SCAN = SAU + 'find_closest_higher_equal_element_indices_to_values'


def count_semantics(v):
    """Rewrite neighbour indices into one vocabulary, so that a scan call and a binary search denote the same thing when they are the same:

        cle(X, v) = #{j : X[j] <= v}        clt(X, v) = #{j : X[j] < v}                       (X sorted ascending)
        numpy.searchsorted(X, v, side='right') = cle,  side='left' = clt
        find_closest_lower_equal(X, [v], fill)[0]  = max(cle - 1, 0) with filling, cle - 1 without    (what C10.4 proves of the scan)
        find_closest_higher_equal(X, [v], fill)[0] = min(clt, len(X) - 1) with filling, clt without
        int(<count>) = <count>

    Only single-query calls are rewritten; anything else is left as it is."""
    from ..values import minmax_atom

    def arr_ref(X):
        if isinstance(X, Num) and X.length is not None:
            for a in X.r.atoms():
                if sym.ATOMS.head(a) == 'el':
                    return sym.ATOMS.args(a)[0], X.length
        return None, None

    def needle(q):
        if isinstance(q, Tup) and len(q.items) == 1:
            q = q.items[0]
        if isinstance(q, Num) and q.length is None:
            return q.r
        return None

    def count_of(t: Term):
        """(atom Rat, kind) for a searchsorted term; None otherwise"""
        if t.head != 'lib:numpy.searchsorted':
            return None
        X = t.kw('a') if t.kw('a') is not None else (t.args[0] if t.args else None)
        q = t.kw('v') if t.kw('v') is not None else (t.args[1] if len(t.args) > 1 else None)
        side = t.kw('side') if t.kw('side') is not None else (t.args[2] if len(t.args) > 2 else Const('left'))
        ref, _ = arr_ref(X)
        nd = needle(q)
        if ref is None or nd is None or not isinstance(side, Const) or side.v not in ('left', 'right') or t.kw('sorter') is not None:
            return None
        return sym.A('cle' if side.v == 'right' else 'clt', ref, nd)

    def scan_of(t: Term, at=None):
        if t.head not in ('call:' + LOWER_SCAN, 'call:' + HIGHER_SCAN):
            return None
        X, q, fill = t.kw('x'), t.kw('lookup'), t.kw('fill_not_valid')
        ref, ln = arr_ref(X)
        if at is not None and isinstance(q, Num) and q.length is not None:
            nd = q.at(at).r            # element `at` of the result of an array-valued call: the answer for query `at`
        elif at is None or at == C(0):
            nd = needle(q)
        else:
            nd = None
        if ref is None or nd is None or not isinstance(fill, Const) or not isinstance(fill.v, bool):
            return None
        if t.head == 'call:' + LOWER_SCAN:
            c = sym.A('cle', ref, nd) - C(1)
            return minmax_atom('max', [c, C(0)]) if fill.v else c
        c = sym.A('clt', ref, nd)
        return minmax_atom('min', [c, ln - C(1)]) if fill.v else c
    memo = {}

    def atom_img(a):
        if a in memo:
            return memo[a]
        head, args = sym.ATOMS.head(a), sym.ATOMS.args(a)
        out = None
        if head == 'val' and isinstance(args[0], Ref) and isinstance(args[0].term, Term):
            out = count_of(args[0].term)
        elif head == 'el' and isinstance(args[0], Ref) and isinstance(args[0].term, Term) and isinstance(args[1], Rat):
            out = scan_of(args[0].term, rat_img(args[1]))
        elif head == 'Int' and isinstance(args[0], Rat):
            inner = rat_img(args[0])
            ia = list(inner.atoms())
            if ia and all(sym.ATOMS.head(x_) in ('cle', 'clt', 'Len', 'max2', 'min2') or sym.ATOMS.head(x_) == 'sym' for x_ in ia) and all(
                    c_.denominator == 1 for c_ in inner.n.t.values()) and inner.d.t == {(): 1} and any(sym.ATOMS.head(x_) in ('cle', 'clt') for x_ in sym.all_atoms(inner)):
                out = inner
            elif not (inner == args[0]):
                out = sym.make_atom('Int', inner)
        if out is None:
            nargs = tuple(rat_img(x_) if isinstance(x_, Rat) else (pred_img(x_) if isinstance(x_, (P, Num)) else x_) for x_ in args)
            changed = any((isinstance(x_, Rat) and not (x_ == y_)) or (isinstance(x_, (P, Num)) and not veq(x_, y_)) for x_, y_ in zip(nargs, args))
            out = sym.make_atom(head, *nargs) if changed else Rat.atom(a)
        memo[a] = out
        return out

    def pred_img(q):
        if isinstance(q, Num):
            return Num(rat_img(q.r), None if q.length is None else rat_img(q.length), q.kind)
        if isinstance(q, P):
            return P(q.op, *[pred_img(x_) if isinstance(x_, (P, Num)) else x_ for x_ in q.args])
        return q

    def rat_img(r: Rat) -> Rat:
        mp = {}
        for a in r.atoms():
            img = atom_img(a)
            if not (img == Rat.atom(a)):
                mp[a] = img
        return sym.subst(r, mp) if mp else r

    def val_img(x):
        if isinstance(x, Num):
            return Num(rat_img(x.r), None if x.length is None else rat_img(x.length), x.kind)
        if isinstance(x, Tup):
            return Tup([val_img(i) for i in x.items], x.kind)
        if isinstance(x, Gam):
            return Gam(x.pred, val_img(x.a), val_img(x.b))
        if isinstance(x, Term) and x.kind in ('scalar', 'int') and count_of(x) is not None:
            return Num(count_of(x))
        return x
    return val_img(v)


def expand_linspace(v, passes: int = 4):
    """numpy.linspace(s, e, k)[i] = s + i*(e - s)/(k - 1) for scalar end points: the closed form of an element, in real arithmetic (that linspace
    returns its end points exactly is the matter of the rules that ask for linspace by name)"""
    from ..values import Val as _Val
    if not isinstance(v, _Val):
        return v
    for _ in range(passes):
        mp = {}
        try:
            rats = list(v.rats())
        except Exception:
            return v
        for r in rats:
            for a in sym.all_atoms(r):
                if sym.ATOMS.head(a) != 'el':
                    continue
                ref, ix = sym.ATOMS.args(a)
                t = getattr(ref, 'term', None)
                if not (isinstance(t, Term) and t.head == 'lib:numpy.linspace' and isinstance(ix, Rat)):
                    continue
                if {k_ for k_, _ in t.kwargs} - {'start', 'stop', 'num'} or len(t.args) > 3:
                    continue
                s_, e_, k_ = targ(t, 'start', 0), targ(t, 'stop', 1), targ(t, 'num', 2)
                if not all(isinstance(x_, Num) and x_.length is None for x_ in (s_, e_, k_)):
                    continue
                mp[a] = s_.r + ix * (e_.r - s_.r) / (k_.r - C(1))
        if not mp:
            break
        v = v.subst(lambda r, mp=mp: sym.subst(r, mp))
    return v


# --------------------------------------------------------------------------- two-dimensional layouts, element by element
def matrix_form(t):
    """(element(r, c) as a rational over the two index symbols, rows, columns) of a two-dimensional array built from linspace between two 1-D arrays
    by transposition and prefix / window slicing; None when `t` is not such a construction.

        linspace(S, E, K)[r, c] = S[c] + r * (E[c] - S[c]) / (K - 1)          (axis 0: one row per step, one column per pair of end points)"""
    R_, C_ = sym.sym('$row'), sym.sym('$col')
    t = arr_term(t)
    if not isinstance(t, Term):
        return None
    if t.head == 'lib:numpy.linspace':
        if {k_ for k_, _ in t.kwargs} - {'start', 'stop', 'num'} or len(t.args) > 3:
            return None
        s_, e_, k_ = targ(t, 'start', 0), targ(t, 'stop', 1), targ(t, 'num', 2)
        if not (isinstance(s_, Num) and isinstance(e_, Num) and isinstance(k_, Num) and k_.length is None and s_.length is not None
                and e_.length is not None and s_.length == e_.length):
            return None
        sc, ec = s_.at(C_).r, e_.at(C_).r
        return sc + R_ * (ec - sc) / (k_.r - C(1)), k_.r, s_.length
    if t.head == 'T' and len(t.args) == 1:
        m = matrix_form(t.args[0])
        if m is None:
            return None
        el, rows, cols = m
        tmp = sym.sym('$swap')
        el = sym.subst(sym.subst(sym.subst(el, {_one(R_): tmp}), {_one(C_): R_}), {_one(tmp): C_})
        return el, cols, rows
    if t.head == 'item' and len(t.args) == 2:
        m = matrix_form(t.args[0])
        if m is None:
            return None
        el, rows, cols = m
        idx = t.args[1]
        parts = list(idx.items) if isinstance(idx, Tup) else [idx]
        if len(parts) > 2:
            return None
        for axis, sl in enumerate(parts):
            if not (isinstance(sl, Term) and sl.head == 'slice' and len(sl.args) == 3):
                return None
            lo, hi, step = sl.args
            if not (isinstance(step, Const) and step.v is None):
                return None
            extent = rows if axis == 0 else cols
            if isinstance(lo, Const) and lo.v is None:
                lo_r = C(0)
            elif isinstance(lo, Num) and lo.length is None and not (lo.r.is_const() and lo.r.const_value() < 0):
                lo_r = lo.r
            else:
                return None
            if isinstance(hi, Const) and hi.v is None:
                hi_r = extent
            elif isinstance(hi, Num) and hi.length is None:
                hi_r = extent + hi.r if (hi.r.is_const() and hi.r.const_value() < 0) else hi.r
            else:
                return None
            ix = R_ if axis == 0 else C_
            if not lo_r.is_zero():
                el = sym.subst(el, {_one(ix): ix + lo_r})
            if axis == 0:
                rows = hi_r - lo_r
            else:
                cols = hi_r - lo_r
        return el, rows, cols
    return None


def _one(r: Rat) -> int:
    (a,) = r.atoms()
    return a


FLATTEN_HEADS = ('method:flatten', 'method:ravel', 'lib:numpy.ravel')


def resolve_layout(v):
    """a value in which every row-major flattening of a recognised two-dimensional construction is replaced by its element-wise closed form
    flat[i] = M[i // columns, i % columns]; anything else is left as it is"""
    def flat(t):
        t0 = arr_term(t)
        if not (isinstance(t0, Term) and (t0.head in FLATTEN_HEADS or (t0.head in ('method:reshape', 'lib:numpy.reshape') and _is_minus_one(t0)))):
            return None
        src = t0.args[0] if t0.args else t0.kw('a')
        extra = [a_ for a_ in t0.args[1:]] + [v_ for k_, v_ in t0.kwargs if k_ not in ('a', 'order')]
        if t0.head in FLATTEN_HEADS and extra:
            return None
        m = matrix_form(src)
        if m is None:
            return None
        el, rows, cols = m
        i = sym.idx()
        r_ = sym.A('FloorDiv', i, cols)
        c_ = i - cols * r_
        out = sym.subst(sym.subst(el, {_one(sym.sym('$row')): r_}), {_one(sym.sym('$col')): c_})
        return Num(out, rows * cols, 'ndarray')

    def walk(x):
        f = flat(x) if isinstance(x, (Num, Term)) else None
        if f is not None:
            return f
        t = arr_term(x)
        if isinstance(t, Term) and t.head == 'cat':
            parts = [walk(p_) for p_ in t.args]
            if any(p_ is not q_ for p_, q_ in zip(parts, t.args)):
                from ..symeval import mk_cat
                try:
                    return mk_cat(parts)
                except Exception:
                    return x
        return x
    return walk(v)


def _is_minus_one(t) -> bool:
    shp = t.args[1] if len(t.args) > 1 else (t.kw('newshape') if t.kw('newshape') is not None else t.kw('shape'))
    if isinstance(shp, Tup) and len(shp.items) == 1:
        shp = shp.items[0]
    return isinstance(shp, Num) and shp.is_const() and shp.const() == -1
