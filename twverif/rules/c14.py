"""C14 - trend, shift, scale and normalise are exact pointwise maps (DESIGN 4.14)"""
from __future__ import annotations

import ast

from .. import sym
from ..sym import Rat, C
from ..values import Num, Const, Tup, Term, Obj, P, Val, veq, walk_vals, arr_param, term_as_num
from ..model import AnalysisError
from ..symeval import Evaluator
from ..weaver_model import WeaverModel, WEAVER
from .common import show, REPO_RESULT_KIND, S, run as runf, ModSpec, same, arr_term, unused_params, need_num
from .c08 import model, alias, last_stores
from ..alias import FRESH

PROC = 'traffic_weaver.process.'


def check_shift_scale(ctx, wm: WeaverModel):
    ctx.rule('C14.1', 'shift_x/y store field + shift, scale_x/y store field * scale into the working field and write no other working/original field (the reference twin is C08.2) '
                      '(canonical element-wise value)')
    table = {'shift_x': ('x', lambda f, a: f + a, 'shift'), 'shift_y': ('y', lambda f, a: f + a, 'shift'),
             'scale_x': ('x', lambda f, a: f * a, 'scale'), 'scale_y': ('y', lambda f, a: f * a, 'scale')}
    for name, (fld, op, pname) in table.items():
        mf = wm.methods.get(name)
        if mf is None:
            raise AnalysisError(f"C14.1: Weaver.{name} not found")
        if pname not in mf.params:
            # positional fallback: first parameter
            if not mf.params:
                raise AnalysisError(f"C14.1: Weaver.{name} has no parameter")
            pname = next(iter(mf.params))
        arg = mf.params[pname]
        ls = last_stores(mf)
        for f2 in (fld,):       # the reference twin is C08.2's obligation
            base = wm.fields[f2]
            want = Num(op(base.r, arg.r), base.length)
            got = ls[f2][-1].data['value'] if f2 in ls else None
            ok = isinstance(got, Num) and got.length is not None and got.r == want.r and got.length == want.length
            ctx.check(ok, 'C14.1', f"{name}: self.{f2} <- self.{f2} {'+' if 'shift' in name else '*'} {pname}", f"stored: {show(got, 200)}",
                      (ls[f2][-1].loc() if f2 in ls else mf.fi.loc()), mf.fi.qualname, f"{name}:{f2}")
            if f2 in ls:
                gd = ls[f2][-1].guard
                ctx.check(not gd, 'C14.1', f"{name}: acts on every sample for every real argument (no condition skips the operation)",
                          f"only when {[str(g_)[:100] for g_ in gd]}", ls[f2][-1].loc(), mf.fi.qualname, f"{name}:{f2}:uncond")
        others = [f for f in ls if f in ('x', 'y', 'original_x', 'original_y') and f != fld]
        ctx.check(not others, 'C14.1', f"{name}: no other series field is written", f"also writes {others}", mf.fi.loc(), mf.fi.qualname, f"{name}:frame")


def check_normalize(ctx, wm: WeaverModel):
    ctx.rule('C14.2', 'process.normalize(a, lo, hi) == (a - Min(a)) / (Max(a) - Min(a)) * (hi - lo) + lo (canonical); hence affine in a, Min -> lo, Max -> hi; '
                      'Weaver.normalize_* forwards (min_val, max_val) in that order to the working, original and reference series')
    L = sym.sym('L')
    a = arr_param('a', length=L)
    lo, hi = S('lo'), S('hi')
    res, ev, st, fi = runf(ctx.prog, PROC + 'normalize', pos=[a, lo, hi])
    if ev.issues:
        raise AnalysisError(f"C14.2: normalize not canonicalisable: {ev.issues[:3]}")
    from .common import tolerance_events, flag_used_as_truth
    tol_ = tolerance_events(ev)
    if tol_:
        ctx.fail('C14.2', 'normalize is the documented affine map for every non-constant input',
                 f"tolerance-based comparison {sorted({e.data['name'] for e in tol_})} at {tol_[0].loc()} selects another result: with the default tolerances a series whose "
                 f"range is small relative to its level is treated as constant", tol_[0].loc(), fi.qualname, 'normalize:tolerance')
        return
    r = need_num(ctx, 'C14.2', 'normalize result', res, fi)
    mn, mx = sym.mk_reduce('Min', a.r, L), sym.mk_reduce('Max', a.r, L)
    want = (a.r - mn) / (mx - mn) * (hi.r - lo.r) + lo.r
    ctx.check(r.length is not None and r.r == want, 'C14.2', 'normalize == documented affine map', f"code: {show(r, 300)}\nspec: {sym.show(want)[:300]}",
              fi.loc(), fi.qualname, 'normalize')
    if r.length is not None:
        ai = [t for t in sym.direct_atoms(r.r) if sym.ATOMS.head(t) == 'el' and sym.free_idx(Rat.atom(t))]
        for nm, repl, target in (('minimum', mn, lo.r), ('maximum', mx, hi.r)):
            v = sym.subst(r.r, {t: repl for t in ai})
            ctx.check(v == target, 'C14.2', f"normalize maps the {nm} to {'min_val' if nm == 'minimum' else 'max_val'}", sym.show(v)[:200], fi.loc(),
                      fi.qualname, f"normalize:{nm}")
    # defaults
    for name, fld in (('normalize_x', 'x'), ('normalize_y', 'y')):
        mf = wm.methods[name]
        ls = last_stores(mf)
        pn = list(mf.params)
        for f2 in (fld, 'original_' + fld, 'reference_' + fld):
            got = arr_term(ls[f2][-1].data['value']) if f2 in ls else None
            ok = isinstance(got, Term) and got.head == 'call:' + PROC + 'normalize' and same(got.kw('a'), wm.fields[f2]) \
                and veq(got.kw('min_val'), mf.params.get('min_val')) and veq(got.kw('max_val'), mf.params.get('max_val'))
            if ok:
                # any further option of normalize stays at its default (the documented map is the one decided above, for the defaults)
                nfi = ctx.prog.func(PROC + 'normalize')
                na = nfi.node.args
                nps = nfi.params()
                dflts = dict(zip(nps[len(nps) - len(na.defaults):], na.defaults))
                for k_, v_ in got.kwargs:
                    if k_ in ('a', 'min_val', 'max_val'):
                        continue
                    d_ = dflts.get(k_)
                    same_default = isinstance(d_, ast.Constant) and isinstance(v_, Const) and v_.v == d_.value and type(v_.v) is type(d_.value)
                    if not same_default:
                        ok = False
            ctx.check(ok, 'C14.2', f"{name}: self.{f2} <- normalize(self.{f2}, min_val, max_val)", show(got, 200),
                      (ls[f2][-1].loc() if f2 in ls else mf.fi.loc()), mf.fi.qualname, f"{name}:{f2}")


def check_trend(ctx, wm: WeaverModel):
    ctx.rule('C14.3', 'process.trend: one loop over range(len(x)); sample i receives y[i] + fun(x[i]) (fun(x[i] / (x[-1] - x[0])) under `normalized`), '
                      'exactly once; x is returned without any store into it; the array written is a fresh copy; linear_trend passes t -> a*t; '
                      'Weaver.trend forwards trend_func and normalized and stores both results')
    fi = ctx.prog.func(PROC + 'trend')
    L = sym.sym('L')
    x, y = arr_param('x', length=L), arr_param('y', length=L)
    fun = Term('param', (Const('fun'),))
    from .common import flag_used_as_truth
    flag_used_as_truth(ctx, 'C14.3', fi, fi.params()[3], {fi.params()[0]: x, fi.params()[1]: y, fi.params()[2]: fun}, 'trend')
    for normalized in (False, True):
        ev = Evaluator(ctx.prog, opaque_kind=REPO_RESULT_KIND)
        res, st = ev.run_function(fi, pos=[x, y, fun, Const(normalized)])
        if ev.issues:
            raise AnalysisError(f"C14.3: trend not canonicalisable: {ev.issues[:3]}")
        tag = f"normalized={normalized}"
        arg = x.r / (x.at(L - C(1)).r - x.at(C(0)).r) if normalized else x.r
        want = Num(y.r + term_as_num(Term('apply', (fun, Num(arg))), False).r, L)
        ok_pair = isinstance(res, Tup) and len(res.items) == 2
        ctx.check(ok_pair and isinstance(res.items[0], Num) and res.items[0].r == x.r, 'C14.3', f"trend ({tag}): x is returned unchanged", show(res, 200), fi.loc(),
                  fi.qualname, f"trend:x:{normalized}")
        if not ok_pair:
            continue
        ry = res.items[1]
        ryn = ry if isinstance(ry, Num) else (ev.as_num(ry, True) if isinstance(ry, Term) else None)
        if ryn is not None and ryn.length is not None and ryn.r == want.r and ryn.length == L:
            ctx.ok('C14.3', f"trend ({tag}): sample i of the result is y[i] + fun({'x[i]/(x[-1]-x[0])' if normalized else 'x[i]'}), for every i", show(ryn, 160), fi.loc(),
                   fi.qualname, f"trend:val:{normalized}")
        else:
            from .common import foreign_heads
            fh = foreign_heads(ry, want, allow=('apply',))
            ctx.check(None if fh else False, 'C14.3', f"trend ({tag}): sample i of the result is y[i] + fun({'x[i]/(x[-1]-x[0])' if normalized else 'x[i]'}), for every i",
                      (f"construction not recognised (uses {fh})\n" if fh else '') + f"code:     {show(ry, 300)}\nexpected: {show(want, 300)}", fi.loc(), fi.qualname,
                      f"trend:val:{normalized}")
        # the caller's y is not the array that is written (private copy): stores go into an array that is not the parameter object
        for e in [e for e in ev.events if e.kind == 'store']:
            from ..rfa_model import strip_state
            root = strip_state(e.data['base'])
            ctx.check(root is not y, 'C14.3', f"trend ({tag}): the trend is added to a private copy, not to the caller's array", show(root, 100), e.loc(), fi.qualname,
                      f"trend:copy:{normalized}")
    # linear_trend
    lfi = ctx.prog.func(PROC + 'linear_trend')
    a = S('a')
    nrm = S('normalized')
    ev = Evaluator(ctx.prog, inline=lambda f: f.qualname != PROC + 'trend', opaque_kind=REPO_RESULT_KIND)
    res, st = ev.run_function(lfi, pos=[x, y, a, nrm])
    calls = [e for e in ev.events if e.kind == 'call' and e.data['callee'].qualname == PROC + 'trend']
    ok = False
    if len(calls) == 1:
        b = calls[0].data['bound']
        f = b.get('fun')
        t = S('t')
        applied = ev.call(f, [t], {}, None, __import__('twverif.symeval', fromlist=['State']).State(), lfi.node) if f is not None else None
        ok = same(b.get('x'), x) and same(b.get('y'), y) and veq(b.get('normalized'), nrm) and isinstance(applied, Num) and applied.r == a.r * t.r
    ctx.check(ok, 'C14.3', 'linear_trend(x, y, a, normalized) == trend(x, y, t -> a*t, normalized)', '', lfi.loc(), lfi.qualname, 'linear_trend')
    # Weaver.trend
    mf = wm.methods['trend']
    ls = last_stores(mf)
    okw = 'x' in ls and 'y' in ls
    if okw:
        vx, vy = ls['x'][-1].data['value'], ls['y'][-1].data['value']
        okw = isinstance(vx, Term) and vx.head == 'item' and isinstance(vy, Term) and vy.head == 'item' and veq(vx.args[0], vy.args[0]) \
            and veq(vx.args[1], Const(0)) and veq(vy.args[1], Const(1))
        if okw:
            call = vx.args[0]
            okw = call.head == 'call:' + PROC + 'trend' and same(call.kw('x'), wm.fields['x']) and same(call.kw('y'), wm.fields['y']) \
                and veq(call.kw('fun'), mf.params.get('trend_func')) and veq(call.kw('normalized'), mf.params.get('normalized'))
    ctx.check(okw, 'C14.3', 'Weaver.trend: (x, y) <- trend(self.x, self.y, trend_func, normalized)', f"{ {k: show(v[-1].data['value'], 120) for k, v in ls.items()} }",
              mf.fi.loc(), mf.fi.qualname, 'weaver-trend')


def run(ctx):
    wm = model(ctx)
    check_shift_scale(ctx, wm)
    check_normalize(ctx, wm)
    check_trend(ctx, wm)
    from .common import dt_function, dt_weaver, DT_RULE
    ctx.rule('C14.5', DT_RULE)
    n_ = dt_function(ctx, 'C14.5', PROC + 'trend', {'x': 'x', 'y': 'x'}, consts={'fun': Term('param', (Const('fun'),))})
    n_ += dt_function(ctx, 'C14.5', PROC + 'linear_trend', {'x': 'x', 'y': 'x'})
    n_ += dt_weaver(ctx, 'C14.5', wm, ['shift_x', 'shift_y', 'scale_x', 'scale_y', 'normalize_x', 'normalize_y', 'trend', 'linear_trend'])
    ctx.floor('C14.5', n_, 1, 'in-place stores with a known buffer element type in the trend code')
    ctx.notes.append('NOT DECIDED: order preservation of normalise (needs min_val < max_val and Max > Min), additivity of trends as a numeric law.')
    ctx.trust('field axioms over the reals; Min/Max of an array as opaque reductions')
