"""C06 - transitions follow the documented geometry and shape functions (DESIGN 4.6)"""
from __future__ import annotations

import ast
from typing import Dict, List

from .. import sym
from ..sym import Rat, C
from ..values import Num, Const, Tup, Term, Obj, P, Val, Ref, arr_param, scalar_param, term_as_num, veq, fresh_serial, walk_vals
from ..model import AnalysisError
from ..rfa_model import Strategy, strategy, SpecEnv, RFA, ADAPT, strip_state
from ..symeval import Evaluator, assume
from ..truth import tri
from .common import S, run as runf, need_num, show, REPO_RESULT_KIND, no_sau

FUNFIT = 'traffic_weaver.funfit.'

FIT_SPECS = {
    'lin_fit': ('y_0 + (y_1 - y_0) * t', False),
    'exp_fit': ('y_0 + (y_1 - y_0) * t ** alpha', True),
    'exp_xy_fit': ('y_0 + (y_1 - y_0) * (1 - (1 - t) ** alpha)', True),
    'exp_lin_fit': ('(y_0 + (y_1 - y_0) * t) * t + (y_0 + (y_1 - y_0) * t ** alpha) * (1 - t)', True),
    'lin_exp_xy_fit': ('(y_0 + (y_1 - y_0) * (1 - (1 - t) ** alpha)) * t + (y_0 + (y_1 - y_0) * t) * (1 - t)', True),
}


def fit_value(ctx, name, x, x0, y0, x1, y1, alpha):
    fi = ctx.prog.func(FUNFIT + name)
    pos = [x, Tup([x0, y0]), Tup([x1, y1])]
    if len(fi.params()) >= 4:
        pos.append(alpha)
    res, ev, st, fi = runf(ctx.prog, FUNFIT + name, pos=pos)
    if ev.issues:
        raise AnalysisError(f"C06.1: {fi.qualname} not canonicalisable: {ev.issues}")
    return need_num(ctx, 'C06.1', 'return value', res, fi), fi


def check_fits(ctx):
    ctx.rule('C06.1', 'each of the five shape functions is canonically equal (value numbering over the reals, all arguments '
                      'symbolic) to its documented closed form in t=(x-x_0)/(x_1-x_0); every power has the alpha parameter as exponent')
    ctx.rule('C06.2', 'each shape function returns y_0 at x=x_0 and y_1 at x=x_1 (substitution + canonical equality; uses Pow(0,a)=0, Pow(1,a)=1 for a>0)')
    x, x0, y0, x1, y1, al = S('x'), S('x_0'), S('y_0'), S('x_1'), S('y_1'), S('alpha')
    from .common import spec_rat
    env = {'x': x, 'x_0': x0, 'y_0': y0, 'x_1': x1, 'y_1': y1, 'alpha': al}
    env['t'] = Num((x.r - x0.r) / (x1.r - x0.r))
    n = 0
    for name, (src, uses_alpha) in FIT_SPECS.items():
        got, fi = fit_value(ctx, name, x, x0, y0, x1, y1, al)
        want = spec_rat(ctx.prog, src, env)
        n += 1
        ctx.check(got.r == want, 'C06.1', f"{name} == closed form",
                  f"code:  {show(got)}\nspec:  {sym.show(want)[:600]}", fi.loc(), fi.qualname, name)
        ctx.sample({'rule': 'C06.1', 'function': name, 'canonical': show(got, 200)})
        if uses_alpha:
            pows = sym.atoms_with_head(got.r, 'Pow')
            bad = [a for a in pows if not (sym.ATOMS.args(a)[1] == al.r)]
            ctx.check(bool(pows) and not bad, 'C06.1', f"{name}: every exponent is the alpha parameter",
                      f"power atoms: {[sym.show_atom(a) for a in pows]}", fi.loc(), fi.qualname, name + ':exponent')
        for label, xv, yv in (('x_0', x0, y0), ('x_1', x1, y1)):
            at = sym.subst(got.r, {sym.ATOMS.intern('sym', ('x',)): xv.r})
            ctx.check(at == yv.r, 'C06.2', f"{name}(x={label}) == {'y_0' if label == 'x_0' else 'y_1'}",
                      f"value at {label}: {sym.show(at)[:300]}", fi.loc(), fi.qualname, f"{name}@{label}")
    ctx.floor('C06.1', n, 5, 'shape functions')


# --------------------------------------------------------------------------- strategies
FIXED_SPEC = '''
z0 = lin(X[k*n], (X[k*n - aR], Y[(k-1)*n]), (X[k*n + aL], Y[k*n]))
z1 = lin(X[(k+1)*n], (X[k*n + n - aR], Y[k*n]), (X[(k+1)*n + aL], Y[(k+1)*n]))
'''
ADAPT_SPEC = '''
aL = AL[k]
aR = AR[k]
z0 = lin(X[k*n], (X[k*n - AR[k-1]], Y[(k-1)*n]), (X[k*n + AL[k]], Y[k*n]))
z1 = lin(X[(k+1)*n], (X[k*n + n - AR[k]], Y[k*n]), (X[(k+1)*n + AL[k+1]], Y[(k+1)*n]))
'''
LINEAR_PIECES = [
    ('left linear', '0', 'aL', 'lin(X[k*n+i], (X[k*n], z0), (X[k*n+aL], Y[k*n]))'),
    ('right linear', 'n - aR + 1', 'n + 1', 'lin(X[k*n+i], (X[k*n+n-aR], Y[k*n]), (X[k*n+n], z1))'),
]
EXP_SPEC = '''
zlb = lin(X[k*n+bL], (X[k*n], z0), (X[k*n+aL], Y[k*n]))
zrb = lin(X[k*n+n-bR], (X[k*n+n-aR], Y[k*n]), (X[(k+1)*n], z1))
'''
EXP_PIECES = [
    ('left linear', '0', 'bL', 'lin(X[k*n+i], (X[k*n], z0), (X[k*n+bL], zlb))'),
    ('left blend', 'bL', 'aL', 'lexy(X[k*n+i], (X[k*n+bL], zlb), (X[k*n+aL], Y[k*n]), e)'),
    ('right blend', 'n - aR', 'n - bR', 'elin(X[k*n+i], (X[k*n+n-aR], Y[k*n]), (X[k*n+n-bR], zrb), e)'),
    ('right linear', 'n - bR', 'n', 'lin(X[k*n+i], (X[k*n+n-bR], zrb), (X[k*n+n], z1))'),
]


def field_sym(st: Strategy, ctx, names, what):
    for nm in names:
        if nm in st.field_syms:
            return st.field_syms[nm]
    raise AnalysisError(f"C06: {st.cls.qualname}.__init__ stores no field for {what} (looked for {names}); fields: {sorted(st.init_fields)}")


def build_spec(ctx, st: Strategy, adaptive: bool, exp: bool) -> SpecEnv:
    if st.X is None or st.Y is None:
        raise AnalysisError(f"C06: {st.cls.qualname}.rfa does not build its grids through extend_linspace / extend_constant")
    env: Dict[str, Val] = {'X': st.X, 'Y': st.Y, 'n': Num(st.n), 'k': Num(st.k), 'i': Num(st.i)}
    if adaptive:
        tabs = st.window_tables()
        if not tabs:
            raise AnalysisError(f"C06: {st.cls.qualname}.rfa does not call get_adaptive_transition_points")
        env['AL'], env['AR'] = tabs['AL'], tabs['AR']
    else:
        env['aL'] = Num(field_sym(st, ctx, ['a_l'], 'the left window'))
        env['aR'] = Num(field_sym(st, ctx, ['a_r'], 'the right window'))
    sp = SpecEnv(ctx.prog, env)
    sp.exec(ADAPT_SPEC if adaptive else FIXED_SPEC)
    if exp:
        sp.st.env['e'] = Num(field_sym(st, ctx, ['exp'], 'the exponent'))
        if adaptive:
            sp.st.env['beta'] = Num(field_sym(st, ctx, ['beta'], 'the linear share'))
            sp.exec('bL = int(beta * AL[k])\nbR = int(beta * AR[k])\n')
        else:
            b = Num(field_sym(st, ctx, ['b'], 'the linear part of the window'))
            sp.st.env['bL'] = b
            sp.st.env['bR'] = b
        sp.exec(EXP_SPEC)
    return sp


def check_strategy(ctx, clsname: str, adaptive: bool, exp: bool, strategies: dict):
    st = strategy(ctx.prog, clsname)
    strategies[clsname] = st
    if st.issues:
        raise AnalysisError(f"C06: {clsname} not canonicalisable: {st.issues[:3]}")
    sp = build_spec(ctx, st, adaptive, exp)
    pieces = EXP_PIECES if exp else LINEAR_PIECES
    ctx.floor('C06.5', len(st.stores), len(pieces), f"in-place stores in {clsname}.rfa")
    spec_pieces = [(name, sp.rat(lo), sp.rat(hi), sp.rat(val)) for name, lo, hi, val in pieces]
    y_k = sp.rat('Y[k*n]')
    used = set()
    by_piece: Dict[int, list] = {}
    for sf in st.stores:
        # the store must land in the result array, at flat index k*n + i
        inst = f"{clsname}: store at {sf.loc()} range [{sym.show(sf.lo)}, {sym.show(sf.hi)})"
        ok_root = any(veq(sf.root, y) for y in st.Y_ext_all)
        ctx.check(ok_root, 'C06.5', inst + ' writes the result array (initialised from the piecewise-constant oversampling)',
                  f"store target root: {show(sf.root, 200)}", sf.loc(), st.rfa.qualname, f"root:{sym.show(sf.lo)}")
        ctx.check(not sf.guard, 'C06.5', inst + ' is made for every interval (no condition skips an interval or a sample of the transition)',
                  f"only when {[str(g)[:120] for g in sf.guard]}", sf.loc(), st.rfa.qualname, f"uncond:{sym.show(sf.lo)}")
        ctx.check(sf.index == st.k * st.n + (sf.lo if sf.single else st.i), 'C06.5', inst + ' index is sample i of interval k',
                  f"flat index {sym.show(sf.index)} (expected k*n + i)", sf.loc(), st.rfa.qualname, f"index:{sym.show(sf.lo)}")
        match = None
        for j, (name, lo, hi, val) in enumerate(spec_pieces):
            if sf.value == (sym.subst(val, {_a(st.i): sf.lo}) if sf.single else val):
                match = j
                break
        if match is None:
            # diagnose: which piece has the same range
            near = [name for name, lo, hi, val in spec_pieces if sf.lo == lo or sf.hi == hi]
            ctx.fail('C06.5', inst + ' follows a documented shape',
                     f"the stored value is none of the documented pieces {[p[0] for p in spec_pieces]} "
                     f"(pieces with a matching range bound: {near}).\ncode value: {sym.show(sf.value)[:700]}",
                     sf.loc(), st.rfa.qualname, f"value:{sym.show(sf.lo)}..{sym.show(sf.hi)}")
            continue
        name, lo, hi, val = spec_pieces[match]
        used.add(match)
        ctx.ok('C06.5', inst + f" value == documented '{name}' shape", '', sf.loc(), st.rfa.qualname, f"value:{name}")
        by_piece.setdefault(match, []).append(sf)
        ctx.check(sf.k_lo == C(1), 'C06.5', inst + ' interval loop starts at the first real interval',
                  f"k from {sym.show(sf.k_lo)}", sf.loc(), st.rfa.qualname, f"klo:{name}")
    # range: the stores of one shape together cover the documented sample range (one loop, or a loop plus directly written samples), possibly
    # extended by a sample at which the shape equals the plateau value
    for j, sfs in by_piece.items():
        name, lo, hi, val = spec_pieces[j]
        chain = [sfs[0]]
        rest = list(sfs[1:])
        grew = True
        while rest and grew:
            grew = False
            for r_ in list(rest):
                if r_.lo == chain[-1].hi:
                    chain.append(r_)
                    rest.remove(r_)
                    grew = True
                elif r_.hi == chain[0].lo:
                    chain.insert(0, r_)
                    rest.remove(r_)
                    grew = True
        clo, chi = chain[0].lo, chain[-1].hi
        ok_lo = clo == lo
        if not ok_lo and clo == lo - C(1):
            ok_lo = sym.subst(val, {_a(st.i): lo - C(1)}) == y_k
        ok_hi = chi == hi
        if not ok_hi and chi == hi + C(1):
            ok_hi = sym.subst(val, {_a(st.i): hi}) == y_k
        ctx.check(ok_lo and ok_hi and not rest, 'C06.5', f"{clsname}: the stores of '{name}' cover its documented sample range",
                  f"code ranges {[f'[{sym.show(x.lo)}, {sym.show(x.hi)})' for x in sfs]} vs documented [{sym.show(lo)}, {sym.show(hi)})",
                  sfs[0].loc(), st.rfa.qualname, f"range:{name}")
    for j, (name, lo, hi, val) in enumerate(spec_pieces):
        ctx.check(j in used, 'C06.5', f"{clsname}: documented piece '{name}' is produced by some store",
                  f"no store of {st.rfa.qualname} has this value", st.rfa.loc(), st.rfa.qualname, f"piece:{name}")
    # border geometry (C06.4): consequence of the value equalities above (z0/z1 are part of every piece);
    # additionally state the self-agreement explicitly
    z0 = sp.rat('z0')
    z1 = sp.rat('z1')
    ctx.check(sym.subst(z0, {_a(st.k): st.k + C(1)}) == z1, 'C06.4',
              f"{clsname}: right border value of interval k == left border value of interval k+1 (documented geometry)",
              '', st.rfa.loc(), st.rfa.qualname, 'border-agreement')
    ctx.sample({'rule': 'C06.5', 'strategy': clsname, 'stores': [f"[{sym.show(s.lo)},{sym.show(s.hi)}) @ {s.loc()}" for s in st.stores],
                'tie_predicates_decided_false': sorted(set(st.decided))[:6]})
    if exp:
        # C06.3: the exponent reaching the blend functions is the constructor parameter
        e_sym = st.field_syms.get('exp')
        for sf in st.stores:
            for a in sym.atoms_with_head(sf.value, 'Pow'):
                ctx.check(sym.ATOMS.args(a)[1] == e_sym, 'C06.3', f"{clsname}: power exponent at {sf.loc()} is the exp field",
                          sym.show_atom(a)[:200], sf.loc(), st.rfa.qualname, 'exp-forward')
        ctx.check(isinstance(st.init_fields.get('exp'), Num) and st.init_fields['exp'].r == st.param_syms.get('exp'),
                  'C06.3', f"{clsname}.__init__ stores the exp parameter unchanged", show(st.init_fields.get('exp'), 100),
                  st.init.loc(), st.init.qualname, 'exp-init')
    return st


LEFT_TIES = [frozenset({('AR', -1), ('AL', 0)}), frozenset({('AL', 0)}), frozenset({('AR', -1)})]
RIGHT_TIES = [frozenset({('AR', 0), ('AL', 1)}), frozenset({('AR', 0)}), frozenset({('AL', 1)})]
EXP_TIES = [frozenset({('BL', 0)}), frozenset({('BL', 0), ('AR', -1)}), frozenset({('BR', 0)}), frozenset({('BR', 0), ('AL', 1)})]


def check_ties(ctx, clsname: str, exp: bool, rule='C06.8'):
    """tie cases of the adaptive strategies (a window, or its linear part, of zero samples), one scenario at a time: rfa() is evaluated with the zero
    tests of the scenario decided true; every store then either has an empty sample range or stores the documented shape (with the zero windows
    substituted), or re-writes the plateau value the sample already has"""
    ties = LEFT_TIES + RIGHT_TIES + (EXP_TIES if exp else [])
    return parallel_map(ctx, [(clsname, exp, rule, tie) for tie in ties], _tie_scenario)


def parallel_map(ctx, jobs, fn) -> int:
    """run independent scenario checks in forked workers (they share the loaded program and the atom table copy-on-write) and merge their
    obligations in job order; falls back to a sequential run when forking is not available"""
    global _PAR_CTX
    import multiprocessing as mp
    import os as _os
    total = 0
    results = None
    if len(jobs) > 1 and hasattr(_os, 'fork') and not _os.environ.get('TWVERIF_SEQUENTIAL'):
        _PAR_CTX = (ctx, fn)
        try:
            with mp.get_context('fork').Pool(min(len(jobs), _os.cpu_count() or 2, 16)) as pool:
                results = pool.map(_par_worker, jobs)
        except (OSError, ValueError):
            results = None
    if results is None:
        results = [_par_run(ctx, fn, j) for j in jobs]
    for obls, n, err in results:
        if err:
            raise AnalysisError(err)
        ctx.obls.extend(obls)
        total += n
    return total


_PAR_CTX = None


def _par_run(ctx, fn, job):
    mark = len(ctx.obls)
    try:
        n = fn(ctx, *job)
    except AnalysisError as ex:
        return [], 0, str(ex)
    out = ctx.obls[mark:]
    del ctx.obls[mark:]
    return out, n, None


def _par_worker(job):
    ctx, fn = _PAR_CTX
    return _par_run(ctx, fn, job)


def _tie_scenario(ctx, clsname: str, exp: bool, rule: str, tie) -> int:
    n_checked = 0
    for tie in [tie]:
        st = strategy(ctx.prog, clsname, tie=tie)
        if st.issues:
            raise AnalysisError(f"{rule}: {clsname} not canonicalisable under {sorted(tie)}: {st.issues[:3]}")
        sp = build_spec(ctx, st, True, exp)
        zero = {}
        label = ', '.join(f"{nm}[k{c:+d}]" if c else f"{nm}[k]" for nm, c in sorted(tie)) + ' = 0'
        for nm, c in tie:
            if nm in ('AL', 'AR'):
                r = sp.rat(f"{nm}[k + ({c})]")
            else:
                r = sp.rat('bL' if nm == 'BL' else 'bR')
            ats = list(r.atoms())
            if len(ats) != 1:
                raise AnalysisError(f"{rule}: window quantity {nm}[k{c:+d}] is not atomic: {sym.show(r)}")
            zero[ats[0]] = C(0)

        def z(r: Rat):
            try:
                return sym.subst(r, zero)
            except (ZeroDivisionError, sym.Unknown):
                return None
        pieces = EXP_PIECES if exp else LINEAR_PIECES
        spec_pieces = []
        for name, lo, hi, val in pieces:
            try:
                spec_pieces.append((name, z(sp.rat(lo)), z(sp.rat(hi)), z(sp.rat(val))))
            except (ZeroDivisionError, sym.Unknown, AnalysisError):
                spec_pieces.append((name, None, None, None))
        Y = st.Y
        for sf in st.stores:
            lo, hi, val = z(sf.lo), z(sf.hi), z(sf.value)
            inst = f"{clsname} [{label}]: store at {sf.loc()}"
            n_checked += 1
            if lo is None or hi is None:
                ctx.unknown(rule, inst, 'range not evaluable under the tie', sf.loc(), st.rfa.qualname, f"tie:{label}:{sym.show(sf.lo)}")
                continue
            width = hi - lo
            if width.is_const() and width.const_value() <= 0:
                ctx.ok(rule, inst + ' has an empty sample range', f"[{sym.show(lo)}, {sym.show(hi)})", sf.loc(), st.rfa.qualname, f"tie:{label}:{sym.show(sf.lo)}")
                continue
            ok = False
            if val is not None:
                for name, plo, phi, pval in spec_pieces:
                    if pval is None:
                        continue
                    want = sym.subst(pval, {_a(st.i): lo}) if sf.single else pval
                    if val == want:
                        ok = True
                        break
                if not ok and sf.single:
                    # the sample keeps the value it has: the average of the interval the written index belongs to
                    off = lo / st.n
                    if off.is_const() and off.const_value().denominator == 1:
                        ok = val == Y.at((st.k + C(int(off.const_value()))) * st.n).r
            ctx.check(ok, rule, inst + f" over samples [{sym.show(lo)}, {sym.show(hi)}) stores the documented shape for this tie (or the plateau value the sample has)",
                      f"code value: {sym.show(val)[:500] if val is not None else 'not evaluable (division by a zero-width window)'}", sf.loc(), st.rfa.qualname,
                      f"tie:{label}:{sym.show(sf.lo)}")
        if st.unkeyed:
            ctx.unknown(rule, f"{clsname} [{label}]: zero tests", f"tests on quantities that are not window-table entries: {sorted(set(st.unkeyed))[:3]}", st.rfa.loc(),
                        st.rfa.qualname, f"tie:{label}:unkeyed")
    return n_checked


def _a(r: Rat) -> int:
    (m, c), = r.n.t.items()
    return m[0][0]


def entry_index(ev, lctx, tables, rule) -> Rat:
    """the table position an iteration of the interval loop fills: entries present before the loop + iterations done so far (whatever the loop variable counts)"""
    ksym = lctx.sym
    log = [l for l in ev.loop_log if l['lid'] == lctx.lid]
    if log and log[0].get('lo') is not None and ksym is not None:
        pre = log[0]['pre'].env
        lens = set()
        for nm_ in tables:
            v0 = pre.get(nm_)
            lens.add(len(v0.items) if isinstance(v0, Tup) and v0.kind == 'list' else None)
        if len(lens) == 1 and None not in lens:
            return ksym - log[0]['lo'] + C(lens.pop())
        if log[0]['lo'] != C(1):
            raise AnalysisError(f"{rule}: cannot tell which table position an iteration of the interval loop fills")
    return ksym


def check_adaptive_windows(ctx):
    ctx.rule('C06.6', 'get_adaptive_transition_points: entry k of the left/right window tables is, in the general case, '
                      'int(min(max(g*a/(1+g),1),a)) and int(min(max(a/(1+g),1),a)) with g=|y[k+1]-y[k]|/|y[k]-y[k-1]| at the default adaptive_smooth=1 (the property fixes it there; other values are C07.3\'s concern) '
                      '(so a_l/a_r = g before clipping and a_l+a_r = a); tie cases give (0,0), (int(a/2),0), (0,int(a/2)); '
                      'the tables are framed by one entry for each virtual interval')
    fi = ctx.prog.func(ADAPT)
    icls = ctx.prog.cls('traffic_weaver.interval.IntervalArray')
    n = sym.sym('n')
    L = sym.sym('L')
    Y = arr_param('Yext', length=L)
    X = arr_param('Xext', length=L)
    heap = {}
    ox, oy = Obj(icls, fresh_serial()), Obj(icls, fresh_serial())
    heap[ox.oid] = {'a': X, 'n': Num(n)}
    heap[oy.oid] = {'a': Y, 'n': Num(n)}
    params = fi.params()
    if len(params) != 4:
        raise AnalysisError(f"C06.6: {fi.qualname} no longer has the (x, y, a, adaptive_smooth) signature")
    a, s = S('a'), S('adaptive_smooth')
    ev = Evaluator(ctx.prog, inline=no_sau, opaque_kind=REPO_RESULT_KIND)
    res, st = ev.run_function(fi, pos=[ox, oy, a, s], heap=heap)
    if ev.issues:
        raise AnalysisError(f"C06.6: {fi.qualname} not canonicalisable: {ev.issues[:3]}")
    # which returned position does each appended-to variable feed?
    from .common import result_positions
    pos_of = result_positions(ev, res)
    if not ({0, 1} <= set(pos_of.values())):
        raise AnalysisError(f"C06.6: {fi.qualname} does not return its two window tables in a tuple")
    apps = [e for e in ev.events if e.kind == 'append']
    table = {0: [], 1: []}
    for e in apps:
        recv = e.node.func.value if isinstance(e.node, ast.Call) and isinstance(e.node.func, ast.Attribute) else None
        if isinstance(recv, ast.Name) and pos_of.get(recv.id) in (0, 1):
            table[pos_of[recv.id]].append(e)
    ctx.floor('C06.6', min(len([e for e in table[0] if e.loops]), len([e for e in table[1] if e.loops])), 1, 'window-table appends inside the interval loop')
    from .common import tolerance_events
    tol_ = tolerance_events(ev)
    if tol_:
        ctx.fail('C06.6', 'the tie cases of the adaptive split are decided by exact zero tests of the two adjacent jumps',
                 f"tolerance-based comparison {sorted({e.data['name'] for e in tol_})} at {tol_[0].loc()}: with the default tolerances a real but small jump (small relative to the "
                 f"level of the series) counts as flat - the split then depends on the scale and offset of the data", tol_[0].loc(), fi.qualname, 'tolerance')
        return
    # spec
    kctxs = [l for e in apps for l in e.loops]
    if not kctxs:
        raise AnalysisError('C06.6: appends are not inside the interval loop')
    ksym = kctxs[0].sym
    # entry k of a table is the one appended when the table already holds k entries: the interval an iteration describes is its position in the
    # tables (entries present before the loop + iterations done), whatever the loop variable counts
    ksym = entry_index(ev, kctxs[0], [nm_ for nm_, p_ in pos_of.items() if p_ in (0, 1)], 'C06.6')
    sp = SpecEnv(ctx.prog, {'Y': Y, 'n': Num(n), 'k': Num(ksym), 'a': a, 's': s})
    sp.exec('nom = abs(Y[(k+1)*n] - Y[k*n])\ndenom = abs(Y[k*n] - Y[(k-1)*n])\ng = (nom/denom)**s\n'
            'al = int(min(max(g*a/(1+g), 1), a))\nar = int(min(max(a/(1+g), 1), a))\nhalf = int(a/2)\n')
    nom, denom = sp.rat('nom'), sp.rat('denom')

    def zero_test(q, r) -> bool:
        if isinstance(q, P) and q.op == '==':
            u, v = q.args
            for x_, y_ in ((u, v), (v, u)):
                if isinstance(x_, Num) and x_.is_const() and x_.const() == 0 and isinstance(y_, Num) and y_.length is None:
                    if y_.r == r:
                        return True
                    ra = list(r.atoms())
                    if len(ra) == 1 and sym.ATOMS.head(ra[0]) == 'Abs' and (r / Rat.atom(ra[0])).is_const():
                        inner = sym.ATOMS.args(ra[0])[0]
                        q_ = y_.r / inner
                        if q_.is_const() and q_.const_value() != 0:
                            return True         # the jump without its absolute value: zero exactly when the jump is
                    # the same jump times a factor that does not involve the averages (a width, a constant): zero exactly when the jump is
                    try:
                        ratio = y_.r / r
                    except Exception:
                        continue
                    if not ratio.is_const() or ratio.const_value() != 0:
                        if not any(sym.ATOMS.head(a_) == 'el' and isinstance(sym.ATOMS.args(a_)[0], Ref) and sym.ATOMS.args(a_)[0].label == 'Yext'
                                   for a_ in sym.all_atoms(ratio)):
                            return True
        return False

    expected = {
        'both-zero': (C(0), C(0)), 'nom-zero': (sp.rat('half'), C(0)), 'denom-zero': (C(0), sp.rat('half')),
        'general': (sp.rat('al'), sp.rat('ar')),
    }
    CASES = {'both-zero': (True, True), 'nom-zero': (True, False), 'denom-zero': (False, True), 'general': (False, False)}
    one = {_a(s.r): C(1)}
    for c, (nz, dz) in CASES.items():
        def leaf(q, nz=nz, dz=dz):
            if zero_test(q, nom):
                return nz
            if zero_test(q, denom):
                return dz
            return None

        def dec(q):
            return tri(q, leaf)
        for side in (0, 1):
            name = 'left' if side == 0 else 'right'
            inloop = [e for e in table[side] if e.loops]
            truth = [(e, [tri(g, leaf) for g in e.guard]) for e in inloop]
            open_ = [(e, ts) for e, ts in truth if any(t is None for t in ts) and not any(t is False for t in ts)]
            if open_:
                e = open_[0][0]
                foreign = []

                def leaves(q_):
                    if isinstance(q_, P) and q_.op in ('not', 'and', 'or'):
                        for a_ in q_.args:
                            leaves(a_)
                    elif isinstance(q_, P) and leaf(q_) is None:
                        foreign.append(q_)
                for g in e.guard:
                    leaves(g)
                on_y = [q_ for q_ in foreign if q_.op == '==' and any(isinstance(t_, Ref) and t_.label == 'Yext' for t_ in walk_vals(q_))]
                if foreign and len(on_y) == len(foreign):
                    ctx.fail('C06.6', f"{name} window, case {c}: the tie cases are decided by whether the two adjacent jumps |y[k+1]-y[k]|, |y[k]-y[k-1]| are zero",
                             f"append at {e.loc()} is decided by a zero test of another quantity: {[str(q_)[:120] for q_ in on_y[:2]]}", e.loc(), fi.qualname, f"{side}:{c}")
                else:
                    ctx.unknown('C06.6', f"{name} window, case {c}", f"append at {e.loc()}: cannot settle the branch condition {[str(g)[:80] for g in e.guard]}",
                                e.loc(), fi.qualname, f"{side}:{c}")
                continue
            live = [e for e, ts in truth if all(t is True for t in ts)]
            if len(live) != 1:
                ctx.fail('C06.6', f"{name} table: case {c} assigns exactly one entry per interval", f"{len(live)} appends apply", fi.loc(), fi.qualname, f"cases:{side}:{c}")
                continue
            e = live[0]
            v = assume(e.data['value'], dec)
            want = expected[c][side]
            got = v.r if isinstance(v, Num) and v.length is None else None
            if got is not None:
                got, want = sym.subst(got, one), sym.subst(want, one)
            ctx.check(got is not None and got == want, 'C06.6', f"{name} window, case {c}",
                      f"code:  {show(v, 400)}\nspec:  {sym.show(want)[:400]}", e.loc(), fi.qualname, f"{side}:{c}")
    ctx.sample({'rule': 'C06.6', 'general_left': sym.show(expected['general'][0])[:200]})
    check_adaptive_forwarding(ctx, 'C06.3')


def check_adaptive_forwarding(ctx, rule='C06.3'):
    """the adaptive split receives the constructor's window size and smoothing, and the extended averages"""
    fi = ctx.prog.func(ADAPT)
    for clsname in ('LinearAdaptiveRFA', 'ExpAdaptiveRFA'):
        st = strategy(ctx.prog, clsname)
        call = st.adapt_call
        if call is None:
            raise AnalysisError(f"C06.3: {clsname}.rfa does not call get_adaptive_transition_points")
        b = call.data['bound']
        pa, ps = fi.params()[2], fi.params()[3]
        ctx.check(isinstance(b.get(pa), Num) and b[pa].r == st.field_syms.get('a'), rule,
                  f"{clsname}: window size a is forwarded to the adaptive split", show(b.get(pa), 100), call.loc(), st.rfa.qualname, 'a-forward')
        ctx.check(isinstance(b.get(ps), Num) and b[ps].r == st.field_syms.get('adaptive_smooth'), rule,
                  f"{clsname}: adaptive_smooth is forwarded to the adaptive split", show(b.get(ps), 100), call.loc(), st.rfa.qualname, 's-forward')
        yobj = b.get(fi.params()[1])
        yarr = st.ev.top_state.heap.get(yobj.oid, {}).get('a') if isinstance(yobj, Obj) else None
        ctx.check(yarr is not None and any(veq(strip_state(yarr), y) for y in st.Y_ext_all), rule,
                  f"{clsname}: the adaptive split reads the extended averages", show(yarr, 100), call.loc(), st.rfa.qualname, 'y-forward')
        for nm, p in (('a', 'a'), ('adaptive_smooth', 'adaptive_smooth')):
            v = st.init_fields.get(nm)
            if nm == 'adaptive_smooth':
                ctx.check(isinstance(v, Num) and v.r == st.param_syms.get(p), rule, f"{clsname}.__init__ stores {p} unchanged",
                          show(v, 100), st.init.loc(), st.init.qualname, f"init:{nm}")



def run(ctx):  # noqa: F811  (rule entry point)
    check_fits(ctx)
    ctx.rule('C06.3', 'constructor parameters exp / beta / a / adaptive_smooth reach their uses unchanged (field value == parameter symbol; '
                      'every power in a stored sample has the exp field as exponent; the adaptive split is called with the a and adaptive_smooth fields)')
    ctx.rule('C06.4', 'border value of interval k = lin_fit at X[k*n] between the plateau ends (X[k*n-a_r], Y[(k-1)*n]) and (X[k*n+a_l], Y[k*n]); '
                      'right border of k equals left border of k+1')
    ctx.rule('C06.5', 'every in-place store of the four window strategies is sample i of interval k of the result array and its value is canonically '
                      'equal to the documented piece (linear / linear+power blend) for its sample range; every documented piece is produced; '
                      'tie branches (window == 0) are decided false here (general position) and examined one by one in C06.8')
    strategies = {}
    ctx.rule('C06.8', 'tie cases of the adaptive strategies, one scenario at a time (a left / right window of zero samples on either side of a border, a '
                      'linear part of zero samples): with the zero tests of the scenario decided true, every store has an empty sample range, or stores the '
                      'documented shape with the zero windows substituted, or re-writes the plateau value')
    n_t = check_ties(ctx, 'LinearAdaptiveRFA', False) + check_ties(ctx, 'ExpAdaptiveRFA', True)
    ctx.floor('C06.8', n_t, 40, 'stores examined under tie scenarios')
    from . import c05
    c05.check_window_sizes(ctx, rule='C06.7')
    check_strategy(ctx, 'LinearFixedRFA', False, False, strategies)
    check_strategy(ctx, 'ExpFixedRFA', False, True, strategies)
    check_strategy(ctx, 'LinearAdaptiveRFA', True, False, strategies)
    check_strategy(ctx, 'ExpAdaptiveRFA', True, True, strategies)
    check_adaptive_windows(ctx)
    ctx.trust('IntervalArray index map is read from its own __getitem__/__setitem__ (interpreted, not hard-wired)',
              'array helpers oversample_*/extend_* uninterpreted here; their contracts are C17 obligations',
              'field axioms over the reals; Pow(0,a)=0, Pow(1,a)=1 for a>0')
    ctx.assume('exponent parameters are positive (stated by the property)', 'floating-point rounding is not modelled')
