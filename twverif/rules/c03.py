"""C03 - matching moves only interior samples, along the documented profile (DESIGN 4.3)"""
from __future__ import annotations

import ast
from typing import Optional

from .. import sym
from ..sym import Rat, C
from ..values import Num, Const, Tup, Term, P, Val, arr_param, veq, Fn, walk_vals
from ..model import AnalysisError
from ..symeval import Evaluator
from .common import S, run as runf, need_num, show, REPO_RESULT_KIND, SAU
from . import c01
from .c01 import KERNEL, INTERVAL, PUBLIC, INTEGRAL, kernel_eval, opaque, _root


def w_spec(x: Num, L: Rat, alpha: Num) -> Rat:
    x0, xl = x.at(C(0)).r, x.at(L - C(1)).r
    c = (x0 + xl) / C(2)
    d = xl - x0
    sym.declare_positive(d)          # strictly increasing x: x[-1] - x[0] > 0
    return C(1) - sym.mk_pow(C(2) * sym.mk_abs(x.r - c) / d, alpha.r)


def check_profile(ctx, rule_prefix='C03', only_ends=False):
    lits, _, _ = c01.method_literals_of_integral(ctx)
    for m in lits:
        res, ev, fi, x, y, Pv, alpha, L = kernel_eval(ctx, m)
        if ev.issues:
            raise AnalysisError(f"{rule_prefix}: kernel not canonicalisable for '{m}': {ev.issues[:3]}")
        # declare positivity before re-evaluating so that Abs normalises identically in code and spec
        w = w_spec(x, L, alpha)
        res, ev, fi, x, y, Pv, alpha, L = kernel_eval(ctx, m)
        from .common import split_branches, post_processed
        clamped = [(pth, post_processed(val)) for pth, val in split_branches(res) if post_processed(val)]
        if clamped:
            pth, head = clamped[0]
            ctx.fail(f'{rule_prefix}.1', f"kernel ('{m}'): the displacement follows the documented profile on every path",
                     f"when {[str(q)[:100] for q in pth] or 'always'} the result is passed through {head}(...): the displacement is no longer one scalar times the weight",
                     fi.loc(), fi.qualname, 'profile:clamped')
            continue
        r = need_num(ctx, rule_prefix, 'kernel result', res, fi)
        if r.length is None:
            ctx.fail(f'{rule_prefix}.3', f"{m}: kernel returns an array", show(r, 200), fi.loc(), fi.qualname, f"array:{m}")
            continue
        disp = r.r - y.r
        i = sym.idx_atom()
        d0 = sym.subst(disp, {i: C(0)})
        dl = sym.subst(disp, {i: L - C(1)})
        rid = f'{rule_prefix}.2' if rule_prefix == 'C03' else 'C01.6'
        ctx.check(d0.is_zero(), rid, f"rule '{m}': the first sample of a window is not displaced (weight vanishes at the window start)",
                  f"displacement at i=0: {sym.show(d0)[:400]}", fi.loc(), fi.qualname, f"end0:{m}")
        ctx.check(dl.is_zero(), rid, f"rule '{m}': the last sample of a window is not displaced (weight vanishes at the window end)",
                  f"displacement at i=L-1: {sym.show(dl)[:400]}", fi.loc(), fi.qualname, f"endL:{m}")
        if only_ends:
            continue
        q = disp / w
        # index-free <=> q(i) == q(j) for a fresh symbol j (decided by cross-multiplication)
        qj = sym.subst(q, {i: sym.sym('$j0')})
        ctx.check(q == qj, 'C03.1', f"rule '{m}': displacement of sample i is (one scalar) x (1 - (2|x_i - centre|/width)^alpha), "
                                                 f"centre = middle abscissa, exponent = alpha",
                  f"displacement / documented weight still depends on the sample index:\n{sym.show(q)[:700]}", fi.loc(), fi.qualname, f"profile:{m}")
        # C03.3: the scalar is a multiple of (target - current integral): matched window => unchanged
        cur, _, _, ifi = runf(ctx.prog, INTEGRAL, pos=[x, y, Const(m)])
        cur = need_num(ctx, 'C03.3', 'integration rule', cur, ifi)
        tot = sym.mk_sum(cur.r, cur.length)
        pa = sym.ATOMS.intern('sym', ('P',))
        z = sym.subst(disp, {pa: tot})
        ctx.check(z.is_zero(), 'C03.3', f"rule '{m}': a window whose integral already equals the target is returned unchanged (idempotence core)",
                  f"displacement with integral_value := current integral: {sym.show(z)[:400]}", fi.loc(), fi.qualname, f"idem:{m}")
        # symmetric: reflecting x about the centre leaves the weight unchanged  (property of the documented form, evaluated on the code's value)
        ctx.sample({'rule': 'C03.1', 'method': m, 'displacement_over_weight': sym.show(q)[:240]})


def check_frame(ctx):
    ctx.rule('C03.4', 'the only in-place writes of the interval function are the per-window slice stores (bounds = consecutive fixed indices, C01.4); '
                      'the array written is created with floating-point dtype, so non-integral displacements are not truncated (that it is a fresh copy is C09\'s obligation); alpha is forwarded unchanged')
    fi = ctx.prog.func(INTERVAL)
    L = sym.sym('L')
    x, y = arr_param('x', length=L), arr_param('y', length=L)
    J = sym.sym('J')
    args = {'x': x, 'y': y, 'integral_values': arr_param('IV', length=J), 'fixed_points_indices_in_x': arr_param('IDX', length=J + C(1)),
            'integral_method': Term('param', (Const('method'),), kind='str'), 'alpha': S('alpha'), 's': Const(None)}
    ev = Evaluator(ctx.prog, inline=opaque, opaque_kind=REPO_RESULT_KIND)
    res, st = ev.run_function(fi, args=args)
    stores = [e for e in ev.events if e.kind == 'store']
    ctx.floor('C03.4', len(stores), 1, 'stores in the interval function')
    for e in stores:
        idx = e.data['index']
        if not (isinstance(idx, Term) and idx.head == 'slice') and any(isinstance(t_, Term) and t_.head in ('item', 'loopvar', 'loopstate', 'apply', 'attr')
                                                                      for t_ in walk_vals(idx)):
            # the window is taken from something prepared beforehand (a list of slice objects, a plan): which samples it names is not read here
            ctx.unknown('C03.4', f"store at {e.loc()} is a per-window slice store", f"the index is not a slice the evaluator resolves: {show(idx, 100)}",
                        e.loc(), fi.qualname, 'slice-store')
            continue
        ctx.check(isinstance(idx, Term) and idx.head == 'slice' and len(e.loops) == 1, 'C03.4',
                  f"store at {e.loc()} is a per-window slice store", show(idx, 100), e.loc(), fi.qualname, 'slice-store')
    # the working copy: which library call produced the array that is written?
    creators = [e for e in ev.events if e.kind == 'lib' and e.data['name'] in ('numpy.array', 'numpy.asarray', 'numpy.asanyarray', 'numpy.copy')
                and e.data['pos'] and veq(e.data['pos'][0], y)]
    target_root = _root(stores[0].data['base']) if stores else None
    made = [e for e in creators if veq(e.data['result'], target_root)]
    if not made:
        # e.g. y.astype(float) / y.copy()
        meth = [e for e in ev.events if e.kind == 'method' and e.data['name'] in ('astype', 'copy') and veq(e.data['recv'], y)]
        if meth:
            e = meth[-1]
            isf = e.data['name'] == 'astype' and e.data['pos'] and isinstance(e.data['pos'][0], Fn) and str(e.data['pos'][0].ref) in ('float', 'numpy.float64')
            ctx.check(isf, 'C03.4', 'the working copy has floating-point dtype', f"created by .{e.data['name']}({show(e.data['pos'], 60)})",
                      e.loc(), fi.qualname, 'float-copy')
        else:
            ctx.unknown('C03.4', 'working copy', 'cannot find the statement creating the array that is written in place', fi.loc(), fi.qualname, 'copy')
        return
    e = made[-1]
    dt = e.data['kw'].get('dtype')
    isf = isinstance(dt, Fn) and str(dt.ref) in ('float', 'numpy.float64', 'numpy.double', 'numpy.float_')
    ctx.check(isf, 'C03.4', 'the working copy has floating-point dtype (slice stores of real-valued displacements are not truncated)',
              f"created by {e.data['name']}(..., dtype={show(dt, 40)})", e.loc(), fi.qualname, 'float-copy')


def check_two_point(ctx):
    ctx.rule('C03.5', 'the two-sample window (len(x) == 2) is the documented exception: constant weights [1, 1]; recorded, not judged')
    fi = ctx.prog.func(KERNEL)
    found = any(isinstance(n, ast.Compare) and isinstance(n.left, ast.Call) and isinstance(n.left.func, ast.Name) and n.left.func.id == 'len'
                and isinstance(n.comparators[0], ast.Constant) and n.comparators[0].value == 2 for n in ast.walk(fi.node))
    ctx.ok('C03.5', 'two-point special case ' + ('present' if found else 'absent (general formula used for every window)'), '', fi.loc(), fi.qualname, 'two-point')


def run(ctx):
    ctx.rule('C03.1', 'kernel, general case: (result - y) / (1 - Pow(2*Abs(x - (x[0]+x[-1])/2)/(x[-1]-x[0]), alpha)) does not depend on the sample index '
                      '(value numbering; Abs modulo sign; x[-1]-x[0] declared positive)')
    ctx.rule('C03.2', 'the displacement is identically zero at the first and the last sample of a window (fixed points and shared window ends do not move)')
    ctx.rule('C03.3', 'substituting integral_value := current integral makes the displacement identically zero')
    ctx.rule('C01.1', 'library references of the matching code exist and bind (shared with C01)')
    from .. import api, callgraph
    funcs = [ctx.prog.func(KERNEL), ctx.prog.func(INTERVAL), ctx.prog.func(PUBLIC)]
    api.check_api(ctx, 'C01.1', funcs, floor=10)
    check_profile(ctx)
    check_frame(ctx)
    check_two_point(ctx)
    c01.check_interval_loop(ctx)
    c01.check_dtype(ctx, rule='C03.5')
    lits_ = c01.check_tables(ctx)
    c01.check_public(ctx, lits_)         # which samples are the fixed points (three modes): outside their span nothing is handed to the kernel
    from . import c10
    c10.check_dispatcher(ctx)       # which sample is pinned for a reference point is decided by the neighbour search the strategy name selects
    c10.check_scans(ctx, fill_true_only=True)       # ... and by that search returning the documented neighbour (structural table only; C10)
    ctx.trust('field axioms; Abs(c*e)=|c|*Abs(e); Abs(e)=e for e declared positive: x[-1]-x[0]; Pow(1,a)=1, Pow(0,a)=0')
    ctx.assume('alpha > 0; strictly increasing x; every window holds at least one interior sample (else the documented [1,1] case)',
               'smoothing (s given) is outside the rule')
