"""C19 - remote dataset cache is never corrupt, stale-crossed or fed unchecked data (DESIGN 4.19)

Crash points, fault sequences and schedules are not enumerated; they are covered by a structural argument whose premises
are the rules below: the cache slot is written only by one atomic publish (rename) of a file that was completely written,
closed, and derived from verified bytes, inside a directory private to the loading call."""
from __future__ import annotations

import ast
from typing import Dict, List, Optional

from .. import sym
from ..values import Num, Const, Tup, Term, Val, Kw, Gam, P, Fn, veq, walk_vals, p_not
from ..model import AnalysisError
from ..symeval import Evaluator, State
from ..datasets_model import DS, BASE, REMOTE_LOADER, const_str
from .common import show, REPO_RESULT_KIND, ModSpec, targ, inline_except
from ..truth import equivalent
from ..sym import C
from . import c18

FETCH = BASE + '._fetch_remote'
SHA = BASE + '._sha256'
WRITE_FUNCS = {'urllib.request.urlretrieve': ('filename', 1), 'numpy.save': ('file', 0), 'numpy.savetxt': ('fname', 0), 'numpy.savez': ('file', 0),
               'shutil.copy': ('dst', 1), 'shutil.copy2': ('dst', 1), 'shutil.copyfile': ('dst', 1), 'shutil.move': ('dst', 1)}
PUBLISH_FUNCS = {'os.rename': (('src', 0), ('dst', 1)), 'os.replace': (('src', 0), ('dst', 1)), 'shutil.move': (('src', 0), ('dst', 1))}
NETWORK = ('urllib.request.urlretrieve', 'urllib.request.urlopen', 'requests.get')


def evaluate(ctx, flags: Dict[str, Val], available: Optional[bool], gzip=Const(False)):
    fi = ctx.prog.func(REMOTE_LOADER)
    need = ['remote', 'dataset_filename', 'dataset_folder', 'data_home', 'download_if_missing', 'download_even_if_available', 'validate_checksum',
            'n_retries', 'delay', 'gzip', 'unpack_dataset_columns']
    missing = [p for p in need if p not in fi.params()]
    if missing:
        raise AnalysisError(f"C19: load_csv_dataset_from_remote lost parameters {missing}")
    args = {p: Term('param', (Const(p),)) for p in fi.params()}
    args['n_retries'] = Num(sym.sym('n_retries'))
    args['delay'] = Num(sym.sym('delay'))
    args['gzip'] = gzip
    args['unpack_dataset_columns'] = Const(False)
    args.update(flags)      # (flags may override the unpack flag)

    def decide(p):
        if available is None:
            return None
        q, neg = p, False
        if isinstance(q, P) and q.op == 'not':
            q, neg = q.args[0], True
        if isinstance(q, P) and q.op == 'truthy' and isinstance(q.args[0], Term) and q.args[0].head == 'lib:os.path.exists':
            return available != neg
        return None
    ev = Evaluator(ctx.prog, inline=inline_except(SHA, BASE + '.get_data_home'), opaque_kind=REPO_RESULT_KIND, decide=decide)
    res, st = ev.run_function(fi, args=args)
    return fi, ev, res, args


def paths(ctx, args):
    sp = ModSpec(ctx.prog, BASE, dict(args))
    sp.exec('dataset_dir = path.join(get_data_home(data_home), dataset_folder)\nfinal = path.join(dataset_dir, dataset_filename)\n')
    return sp.val('dataset_dir'), sp.val('final')


def is_join_of(t, base) -> bool:
    if isinstance(t, Term) and t.head == 'lib:os.path.join':
        first = t.kw('a') if t.kw('a') is not None else (t.args[0] if t.args else None)
        return first is not None and veq(first, base)
    return False


def dest_of(e):
    name = e.data['name']
    if name in WRITE_FUNCS:
        kwn, i = WRITE_FUNCS[name]
        return e.data['kw'].get(kwn, e.data['pos'][i] if i < len(e.data['pos']) else None)
    return None


def open_mode(e):
    pos, kw = e.data['pos'], e.data['kw']
    m = kw.get('mode', pos[1] if len(pos) > 1 else Const('r'))
    return m.v if isinstance(m, Const) else None


def check_slot_writers(ctx):
    ctx.rule('C19.1', 'who may write the cache slot: in the download path the only effect whose destination is <data home>/<folder>/<dataset_filename> is one '
                      'os.rename/os.replace whose source lies in the temporary directory; every other write (urlretrieve, open(..., "w*"), dump) targets '
                      'the temporary directory, which is created by TemporaryDirectory/mkdtemp with dir= the slot\'s own directory (unique per call; same file '
                      'system, so the rename is atomic)')
    ctx.rule('C19.2', 'order on every path: download -> checksum comparison -> parse -> dump -> handle closed -> publish; the dumped object is the parsed '
                      'array; the parsed file is the one _fetch_remote returns, which is the one urlretrieve wrote and _sha256 hashed; a mismatch raises OSError; '
                      'the validate_checksum flag reaches _fetch_remote unchanged')
    # forced refresh of an existing entry: the download path runs and publishes just the same (the entry must not stay stale)
    fi2, ev2, _, _ = evaluate(ctx, {'download_if_missing': Const(True), 'download_even_if_available': Const(True), 'validate_checksum': Const(True)}, available=True)
    if not ev2.issues:
        libs2 = [e for e in ev2.events if e.kind == 'lib']
        n_dl = len([e for e in libs2 if e.data['name'] == 'urllib.request.urlretrieve'])
        pubs2 = [e for e in libs2 if e.data['name'] in PUBLISH_FUNCS]
        dumps2 = [e for e in libs2 if e.data['name'] == 'pickle.dump']
        extra2 = [g for g in pubs2[0].guard if not (dumps2 and any(veq(g, h) for h in dumps2[0].guard))] if len(pubs2) == 1 else []
        ctx.check(n_dl >= 1 and len(pubs2) == 1 and not extra2, 'C19.1',
                  'forced refresh (entry present, download_even_if_available): the freshly verified data is published over the old entry',
                  f"downloads: {n_dl}; publishes: {[(e.data['name'], e.loc(), [str(g)[:60] for g in e.guard]) for e in pubs2]}", fi2.loc(), fi2.qualname, 'pub-refresh')
    for gz in (Const(False), Const(True)):
        fi, ev, res, args = evaluate(ctx, {'download_if_missing': Const(True), 'download_even_if_available': Const(True), 'validate_checksum': Const(True)},
                                     available=False, gzip=gz)
        tag = 'gzip' if gz.v else 'plain'
        if [i for i in ev.issues]:
            raise AnalysisError(f"C19: loader not canonicalisable: {ev.issues[:3]}")
        ddir, final = paths(ctx, args)
        libs = [e for e in ev.events if e.kind == 'lib']
        tmps = [e for e in libs if e.data['name'] in ('tempfile.TemporaryDirectory', 'tempfile.mkdtemp')]
        ctx.check(len(tmps) == 1, 'C19.1', f"{tag}: one private temporary directory per download", f"{[e.data['name'] for e in tmps]}", fi.loc(), fi.qualname, f"tmp-one:{tag}")
        if len(tmps) != 1:
            continue
        tdir_term = tmps[0].data['result']
        dir_arg = targ(tdir_term, 'dir', 2)
        ctx.check(dir_arg is not None and veq(dir_arg, ddir), 'C19.1', f"{tag}: the temporary directory is created inside the slot's directory (dir=dataset_dir)",
                  f"dir={show(dir_arg, 120)}", tmps[0].loc(), fi.qualname, f"tmp-dir:{tag}")
        tmpdir = Term('enter', (tdir_term,), kind='unknown') if tmps[0].data['name'].endswith('TemporaryDirectory') else tdir_term
        in_tmp = lambda p: is_join_of(p, tmpdir)
        # writes
        writes = []
        for e in libs:
            d = dest_of(e)
            if d is not None:
                writes.append((e, d, e.data['name']))
            if e.data['name'] == 'builtins.open' and (open_mode(e) or 'r')[0] in 'wax':
                writes.append((e, e.data['pos'][0] if e.data['pos'] else e.data['kw'].get('file'), f"open(mode={open_mode(e)})"))
            if e.data['name'] in ('os.open', 'os.mknod', 'os.mkfifo'):
                # a file created through the descriptor interface (a lock file, a marker): it stays behind when the process dies
                flags = e.data['kw'].get('flags', e.data['pos'][1] if len(e.data['pos']) > 1 else None)
                if e.data['name'] != 'os.open' or any(w in str(flags) for w in ('O_CREAT', 'O_WRONLY', 'O_RDWR', 'O_APPEND', 'O_TRUNC')):
                    writes.append((e, e.data['pos'][0] if e.data['pos'] else e.data['kw'].get('path'), f"{e.data['name']}({str(flags)[:40]})"))
        ctx.floor('C19.1', len(writes), 2, 'file-writing effects in the download path')
        # concurrent loaders: creating the slot's directory must be idempotent (exist_ok=True), not check-then-create
        mk = [e for e in libs if e.data['name'] in ('os.makedirs', 'os.mkdir')]
        for e in mk:
            eo = e.data['kw'].get('exist_ok', e.data['pos'][2] if len(e.data['pos']) > 2 else None)
            ctx.check(e.data['name'] == 'os.makedirs' and isinstance(eo, Const) and eo.v is True, 'C19.1',
                      f"{tag}: directory creation at {e.loc()} tolerates a directory made meanwhile by a concurrent loader (makedirs(..., exist_ok=True))",
                      f"{e.data['name']}(exist_ok={show(eo, 20) if eo is not None else 'absent'}) under {[str(g)[:60] for g in e.guard][-1:]}", e.loc(), fi.qualname, f"mkdir:{tag}")
        for e, d, how in writes:
            ctx.check(d is not None and in_tmp(d), 'C19.1', f"{tag}: {how} at {e.loc()} writes inside the temporary directory",
                      f"destination {show(d, 160)}", e.loc(), fi.qualname, f"write:{how}:{tag}")
        pubs = [e for e in libs if e.data['name'] in PUBLISH_FUNCS]
        ctx.check(len(pubs) == 1, 'C19.1', f"{tag}: exactly one publish (rename) into the cache", f"{[(e.data['name'], e.loc()) for e in pubs]}", fi.loc(), fi.qualname,
                  f"pub-one:{tag}")
        if len(pubs) != 1:
            continue
        pub = pubs[0]
        (sk, si), (dk, di) = PUBLISH_FUNCS[pub.data['name']]
        src = pub.data['kw'].get(sk, pub.data['pos'][si] if si < len(pub.data['pos']) else None)
        dst = pub.data['kw'].get(dk, pub.data['pos'][di] if di < len(pub.data['pos']) else None)
        ctx.check(dst is not None and veq(dst, final), 'C19.1', f"{tag}: the publish targets the cache slot", show(dst, 160), pub.loc(), fi.qualname, f"pub-dst:{tag}")
        ctx.check(src is not None and in_tmp(src), 'C19.1', f"{tag}: the published file comes from the temporary directory", show(src, 160), pub.loc(), fi.qualname,
                  f"pub-src:{tag}")
        # anything else touching FINAL for writing?
        others = [(e, d) for e, d, how in writes if d is not None and veq(d, final)]
        ctx.check(not others, 'C19.1', f"{tag}: nothing but the rename writes the cache slot", f"{[(e.data['name'], e.loc()) for e, d in others]}", fi.loc(), fi.qualname,
                  f"direct:{tag}")
        # ---- order
        dl = [e for e in libs if e.data['name'] == 'urllib.request.urlretrieve']
        parse = [e for e in libs if e.data['name'] == 'numpy.loadtxt']
        dump = [e for e in libs if e.data['name'] == 'pickle.dump']
        sha = [e for e in ev.events if e.kind == 'call' and e.data['callee'] is not None and e.data['callee'].qualname == SHA]
        if len(dump) == 1:
            extra = [g for g in pub.guard if not any(veq(g, h) for h in dump[0].guard)]
            ctx.check(not extra, 'C19.1', f"{tag}: what was downloaded, verified and written is always published (the cache entry is the data just verified, "
                                          f"also on a forced refresh)", f"the rename at {pub.loc()} happens only when {[str(g)[:100] for g in extra]}", pub.loc(), fi.qualname,
                      f"pub-always:{tag}")
        ok_counts = len(dl) == 1 and len(parse) == 1 and len(dump) == 1 and len(sha) == 1
        ctx.check(ok_counts, 'C19.2', f"{tag}: one download, one hash, one parse, one dump", f"download {len(dl)}, hash {len(sha)}, parse {len(parse)}, dump {len(dump)}",
                  fi.loc(), fi.qualname, f"counts:{tag}")
        if not ok_counts:
            continue
        dl, parse, dump, sha = dl[0], parse[0], dump[0], sha[0]
        order = [('download', dl.seq), ('hash', sha.seq), ('parse', parse.seq), ('dump', dump.seq), ('publish', pub.seq)]
        ctx.check(all(a[1] < b[1] for a, b in zip(order, order[1:])), 'C19.2', f"{tag}: download < hash < parse < dump < publish in program order",
                  f"{order}", fi.loc(), fi.qualname, f"order:{tag}")
        dl_dst = dest_of(dl)
        hashed = sha.data['bound'].get('path')
        ctx.check(dl_dst is not None and veq(hashed, dl_dst), 'C19.2', f"{tag}: the hashed file is the downloaded file", f"hashed {show(hashed, 100)}; downloaded {show(dl_dst, 100)}",
                  sha.loc(), fi.qualname, f"hash-same:{tag}")
        # mismatch raises OSError, and the parse happens only on the equality branch
        mism = [e for e in ev.events if e.kind == 'raise' and e.data.get('exc') == 'OSError' and
                any(any(veq(t, sha.data['term']) for t in walk_vals(g)) for g in e.guard)]
        ctx.check(bool(mism), 'C19.2', f"{tag}: a checksum mismatch raises OSError", f"raises: {[(e.data.get('exc'), [str(g)[:60] for g in e.guard]) for e in ev.events if e.kind == 'raise']}",
                  sha.loc(), fi.qualname, f"mismatch:{tag}")
        if mism:
            cond = [g for g in mism[0].guard if any(veq(t, sha.data['term']) for t in walk_vals(g))][0]
            ok_cmp = any(isinstance(t, Term) and t.head == 'attr' and veq(t.args[1], Const('checksum')) for t in walk_vals(cond))
            ctx.check(ok_cmp, 'C19.2', f"{tag}: the hash is compared with the pinned remote.checksum", str(cond)[:200], mism[0].loc(), fi.qualname, f"pinned:{tag}")
            passed = any(veq(g, p_not(cond)) for g in parse.guard)
            ctx.check(passed, 'C19.2', f"{tag}: parsing (and everything after it) happens only when the checksum matched", f"parse guards {[str(g)[:80] for g in parse.guard]}",
                      parse.loc(), fi.qualname, f"dominates:{tag}")
        # the parsed file is the verified one
        pf = targ(parse.data['result'], 'fname', 0)
        while isinstance(pf, Term) and pf.head == 'enter' and pf.args:
            pf = pf.args[0]         # `with GzipFile(...) as f: loadtxt(f)`: the handle entered is the file object itself
        src_ok = pf is not None and (veq(pf, dl_dst) or (isinstance(pf, Term) and pf.head == 'lib:gzip.GzipFile' and veq(targ(pf, 'filename', 0), dl_dst)))
        ctx.check(src_ok, 'C19.2', f"{tag}: the parsed file is the downloaded, verified file", show(pf, 160), parse.loc(), fi.qualname, f"parsed:{tag}")
        if gz.v:
            ctx.check(isinstance(pf, Term) and pf.head == 'lib:gzip.GzipFile', 'C19.2', 'gzip payloads are read through GzipFile', show(pf, 100), parse.loc(), fi.qualname, 'gz')
        dobj = targ(dump.data['result'], 'obj', 0)
        ctx.check(dobj is not None and veq(dobj, parse.data['result']), 'C19.2', f"{tag}: the dumped object is the parsed array", show(dobj, 120), dump.loc(), fi.qualname,
                  f"dumped:{tag}")
        # handle typestate
        dfile = targ(dump.data['result'], 'file', 1)
        opens = [e for e in libs if e.data['name'] == 'builtins.open' and any(veq(t, e.data['result']) for t in walk_vals(dfile))] if dfile is not None else []
        closed_at = None
        how = 'no open() found for the dump target'
        if opens:
            o = opens[0]
            ctx.check(veq(o.data['pos'][0] if o.data['pos'] else None, src), 'C19.2', f"{tag}: the file that is dumped into is the file that is published",
                      f"dump target {show(o.data['pos'][0] if o.data['pos'] else None, 120)}; publish source {show(src, 120)}", o.loc(), fi.qualname, f"same-file:{tag}")
            withs = [e for e in ev.events if e.kind == 'with_exit' and veq(e.data['ctx'], o.data['result'])]
            closes = [e for e in ev.events if e.kind == 'method' and e.data['name'] == 'close' and any(veq(t, o.data['result']) for t in walk_vals(e.data['recv']))]
            if withs:
                closed_at, how = withs[0].seq, 'with block'
            elif closes:
                closed_at, how = closes[0].seq, '.close()'
            elif _nested(o.node, dump.node):
                closed_at, how = dump.seq, 'anonymous temporary of the dump statement (closed by reference counting when the statement ends)'
                ctx.assume('CPython reference counting closes an anonymous file object at the end of the call statement')
            else:
                how = 'handle bound to a name and never closed before the rename'
        ctx.check(closed_at is not None and closed_at <= pub.seq and (closed_at < pub.seq or how.startswith('anonymous')), 'C19.2',
                  f"{tag}: the dump's file handle is closed (data flushed) before the publish", f"handle closed by: {how}", pub.loc(), fi.qualname, f"closed:{tag}")
        wx = [e for e in ev.events if e.kind == 'with_exit' and veq(e.data['ctx'], tdir_term)]
        ctx.check(not wx or pub.seq < wx[0].seq, 'C19.2', f"{tag}: the publish happens before the temporary directory is removed", '', pub.loc(), fi.qualname, f"in-with:{tag}")
        ctx.sample({'rule': 'C19.1/2', 'payload': tag, 'order': order, 'handle': how})
    # flag forwarding
    fi, ev, res, args = evaluate(ctx, {'download_if_missing': Const(True), 'download_even_if_available': Const(False)}, available=False)
    # _fetch_remote inlined: find the guard on the validate flag
    vflag = args['validate_checksum']
    shas = [e for e in ev.events if e.kind == 'call' and e.data['callee'] is not None and e.data['callee'].qualname == SHA]
    okf = bool(shas) and all(any(isinstance(g, P) and g.op == 'truthy' and veq(g.args[0], vflag) for g in e.guard) and
                             sum(1 for g in e.guard if any(veq(t, vflag) for t in walk_vals(g))) == 1 for e in shas)
    ctx.check(okf, 'C19.3', 'the validate_checksum flag alone decides whether the download is verified (no other condition weakens it)',
              f"hash guards: {[[str(g)[:100] for g in e.guard] for e in shas]}", fi.loc(), fi.qualname, 'flag-forward')


def _nested(inner, outer) -> bool:
    return any(n is inner for n in ast.walk(outer)) if inner is not None and outer is not None else False


def check_checksum_on(ctx):
    ctx.rule('C19.3', 'checksum always on: every loader passes validate_checksum=True (C18.3), the default is True, and the flag reaches the verification unchanged')
    fi = ctx.prog.func(REMOTE_LOADER)
    a = fi.node.args
    params = fi.params()
    d = dict(zip(params[len(params) - len(a.defaults):], a.defaults))
    for f in (fi, ctx.prog.func(FETCH)):
        a = f.node.args
        ps = f.params()
        dd = dict(zip(ps[len(ps) - len(a.defaults):], a.defaults)).get('validate_checksum')
        ctx.check(isinstance(dd, ast.Constant) and dd.value is True, 'C19.3', f"{f.name}: validate_checksum defaults to True", ast.unparse(dd) if dd is not None else 'none',
                  f.loc(), f.qualname, f"default:{f.name}")
    loaders = [l for l in c18.all_loaders(ctx).values() if l.kind == 'remote']
    ctx.floor('C19.3', len(loaders), 76, 'remote loaders')
    bad = [l.fi.name for l in loaders if not (isinstance(l.validate_checksum, Const) and l.validate_checksum.v is True)]
    ctx.check(not bad, 'C19.3', 'all remote loaders verify their download', f"not verifying: {bad}", BASE, BASE, 'all-on')


def check_retry(ctx):
    ctx.rule('C19.4', 'retry loop, read off the evaluated download path (helpers inlined): the download sits in a try inside a loop; the handler catches exactly '
                      'URLError and TimeoutError and re-raises the caught exception (bare raise) exactly when the retries are used up - the number of retries '
                      'left is a loop-carried quantity that starts as n_retries and is one lower after each absorbed failure (counted down to 0, or failures '
                      'counted up to n_retries) - otherwise it goes on to the next attempt; success leaves the loop (break / return / a loop condition that the '
                      'success path turns false); the handler neither returns, breaks nor raises something else; hence up to n_retries failures are absorbed and '
                      'the next one propagates')
    fi, ev, res, args = evaluate(ctx, {'download_if_missing': Const(True), 'download_even_if_available': Const(True), 'validate_checksum': Const(True)}, available=False)
    dls = [e for e in ev.events if e.kind == 'lib' and e.data['name'] == 'urllib.request.urlretrieve']
    if len(dls) != 1:
        raise AnalysisError(f"C19.4: expected one urlretrieve call in the download path, found {len(dls)}")
    dl = dls[0]
    owner = dl.func if dl.func is not None else fi
    tries = [e for e in ev.events if e.kind == 'try' and e.data['body_events'][0] <= ev.events.index(dl) < e.data['body_events'][1]]
    if not tries or not dl.loops:
        raise AnalysisError('C19.4: retry idiom around urlretrieve not recognised (the download is not inside a try inside a loop)')
    tev = tries[-1]
    lp = dl.loops[-1]
    logs = [e for e in ev.loop_log if e['lid'] == lp.lid]
    if not logs:
        raise AnalysisError('C19.4: retry loop not recorded by the evaluator')
    log = logs[0]
    if lp.kind == 'range' or (log.get('for') and lp.kind not in ('count',)):
        return check_retry_bounded(ctx, ev, fi, dl, tev, args, owner)
    inst = f"retry loop at {owner.loc(lp.node)}"
    nparam = args['n_retries']
    hs = tev.data['handlers']
    ctx.check(len(hs) == 1, 'C19.4', inst + ': one handler', f"{len(hs)} handlers", owner.loc(tev.node), owner.qualname, 'one-handler')
    names = sorted(n if isinstance(n, str) else str(n) for h in hs for n in (h if isinstance(h, list) else [h]))
    ctx.check(names == ['TimeoutError', 'URLError'] or names == ['TimeoutError', 'urllib.error.URLError'], 'C19.4', inst + ': the handler catches exactly URLError and TimeoutError',
              f"catches {names or 'everything'}", owner.loc(tev.node), owner.qualname, 'types')

    def in_handler(e) -> bool:
        return any(isinstance(g, P) and g.op == 'except' and veq(g.args[1], Const(tev.seq)) for g in e.guard)

    def handler_guard(e):
        out, seen = [], False
        for g in e.guard:
            if isinstance(g, P) and g.op == 'except' and veq(g.args[1], Const(tev.seq)):
                seen = True
                continue
            if seen:
                out.append(g)
        return out
    inside = [e for e in ev.events if lp in e.loops]
    ends = tev.data.get('handler_ends', [])
    hend = ends[0]['env'] if len(ends) == 1 else {}
    cond = log['cond']
    # ---- the loop goes on after an absorbed failure and stops after a success
    def cond_with(envmap) -> Optional[bool]:
        """the loop condition with the loop-carried names replaced by their values at the end of a path"""
        if isinstance(cond, Const):
            return bool(cond.v)
        from ..truth import substitute_terms
        pairs = [(log['entry'][nm], envmap.get(nm)) for nm in log['names'] if nm in log['entry'] and envmap.get(nm) is not None]
        if all(veq(a_, b_) for a_, b_ in pairs if any(veq(t_, (a_ if not isinstance(a_, Num) else a_)) for t_ in walk_vals(cond))) and \
                all(veq(a_, b_) for a_, b_ in pairs if str(a_) in str(cond)):
            return True         # nothing the condition reads has changed: it holds as it did when the iteration began

        def fn(t):
            for ent, val in pairs:
                et = ent
                if isinstance(et, Num):
                    from ..scanmodel import _single_val_term
                    et = _single_val_term(et) or et
                if isinstance(et, Term) and et.head == t.head and et.uid == t.uid and veq(et, t):
                    return val
            return None
        c2 = substitute_terms(cond, fn)
        c2 = ev.truth(c2, State(), lp.node) if not isinstance(c2, (Const, P)) else c2
        if isinstance(c2, P) and c2.op == 'not' and isinstance(c2.args[0], P) and c2.args[0].op == 'truthy' and isinstance(c2.args[0].args[0], Const):
            return not bool(c2.args[0].args[0].v)
        if isinstance(c2, P) and c2.op == 'truthy' and isinstance(c2.args[0], Const):
            return bool(c2.args[0].v)
        return bool(c2.v) if isinstance(c2, Const) else None
    leave = [e for e in inside if e.kind in ('break', 'return') and not in_handler(e) and e.seq > dl.seq and e.loops and e.loops[-1] is lp]
    success_end = log['end'].env
    stops = cond_with(success_end)
    ok_leave = (bool(leave) and all(not e.guard[len(dl.guard):] for e in leave[:1])) or stops is False
    ctx.check(ok_leave if (leave or stops is not None) else None, 'C19.4', inst + ': success leaves the loop (break / return after the download, or a loop condition the '
              'success path turns false)', f"exits {[(e.kind, e.loc()) for e in leave]}; loop condition after a success: {stops}", owner.loc(tev.node), owner.qualname, 'break')
    goes_on = cond_with(hend) if hend else None
    ctx.check(goes_on if goes_on is not None else None, 'C19.4', inst + ': after an absorbed failure the loop makes another attempt (its condition still holds)',
              f"loop condition {cond} after the handler: {goes_on}", owner.loc(lp.node), owner.qualname, 'loop-form')
    # ---- the handler: re-raise exactly when no retry is left
    raises = [e for e in inside if e.kind == 'raise' and in_handler(e)]
    rer = [e for e in raises if e.data.get('reraise')]
    other = [e for e in raises if not e.data.get('reraise')]
    ctx.check(not other, 'C19.4', inst + ': the original exception propagates (no replacement exception)', f"{[(e.data.get('exc'), e.loc()) for e in other]}",
              owner.loc(tev.node), owner.qualname, 'same-exc')
    swallow = [e for e in inside if e.kind in ('break', 'return') and in_handler(e)]
    ctx.check(not swallow, 'C19.4', inst + ': the handler neither returns nor breaks (no swallowed failure)', f"{[(e.kind, e.loc()) for e in swallow]}",
              owner.loc(tev.node), owner.qualname, 'no-swallow')
    counter, mode = None, None
    detail = 'no bare `raise` in the handler'
    if len(rer) == 1:
        g = handler_guard(rer[0])
        gp = g[0] if len(g) == 1 else (P('and', *g) if g else Const(True))
        detail = f"re-raises when {[str(x) for x in g]}"
        cands = sorted(log['names']) + ([log['var']] if log.get('for') and log.get('var') else [])
        for nm in cands:
            if nm not in log['entry']:
                continue
            cin = ev.as_num(log['entry'][nm])
            if cin is None or cin.length is not None:
                continue
            pre = ev.as_num(log['pre'].env.get(nm)) if log['pre'].env.get(nm) is not None else None
            is_loopvar = bool(log.get('for')) and nm == log.get('var')
            # counting the retries left down to 0 ...
            if pre is not None and veq(pre, nparam) and not is_loopvar:
                for want in (P('==', cin, Num(C(0))), p_not(P('<', Num(C(0)), cin))):
                    if equivalent(gp, want)[0]:
                        counter, mode = nm, 'down'
            # ... or the failures up to n_retries
            starts0 = (is_loopvar and log.get('lo') is not None and log['lo'] == C(0)) or (pre is not None and pre.is_const() and pre.const() == 0)
            if counter is None and starts0:
                for want in (P('==', cin, nparam), p_not(P('<', cin, nparam))):
                    if equivalent(gp, want)[0]:
                        counter, mode = nm, 'up'
    ctx.check(len(rer) == 1 and counter is not None, 'C19.4', inst + ': the handler re-raises the caught exception (bare raise) exactly when the retries are used up '
              '(retries left == 0, or failures so far == n_retries)', detail, owner.loc(tev.node), owner.qualname, 'reraise')
    # a handler that ends in `continue` goes on to the next attempt just like one that falls off its end (when the try is the last statement of the loop body)
    for h_, hn_ in zip(ends, tev.node.handlers):
        last_ = hn_.body[-1] if hn_.body else None
        if isinstance(last_, ast.Continue) or (isinstance(last_, ast.If) and False):
            h_['falls_through'] = True
    if counter is not None:
        cin = ev.as_num(log['entry'][counter])
        is_loopvar = bool(log.get('for')) and counter == log.get('var')
        if is_loopvar:
            okd = len(ends) == 1 and ends[0]['falls_through'] and veq(ev.as_num(ends[0]['env'].get(counter)), cin)
            what = 'the loop counter counts the failures (the handler leaves it alone and falls through to the next attempt)'
        else:
            step = C(-1) if mode == 'down' else C(1)
            okd = len(ends) == 1 and ends[0]['falls_through'] and ev.as_num(ends[0]['env'].get(counter)) is not None \
                and ev.as_num(ends[0]['env'][counter]).r == cin.r + step
            what = f"each absorbed failure moves the counter by exactly one ({'down' if mode == 'down' else 'up'}) and goes on to the next attempt"
        ctx.check(okd, 'C19.4', inst + ': ' + what, f"{[(h['falls_through'], show(h['env'].get(counter), 60)) for h in ends]}", owner.loc(tev.node), owner.qualname, 'decrement')
        # the success path must not consume retries either way (only failures count)
    t = tev.node
    ctx.check(not t.finalbody or not any(isinstance(n, (ast.Return, ast.Break, ast.Continue)) for s_ in t.finalbody for n in ast.walk(s_)), 'C19.4',
              inst + ': no finally clause overrides the propagation', '', owner.loc(t), owner.qualname, 'finally')
    ctx.sample({'rule': 'C19.4', 'handler': names, 'counter': counter, 'counting': mode, 'function': owner.qualname})


def check_retry_bounded(ctx, ev, fi, dl, tev, args, owner):
    """idiom 2: `for attempt in range(...)`: the loop bounds the number of attempts, which has to be n_retries + 1, and the last failure has to propagate"""
    lp = dl.loops[-1]
    inst = f"retry loop at {owner.loc(lp.node)}"
    n = args['n_retries'].r
    count = None
    itn = lp.node.iter if isinstance(lp.node, ast.For) else None
    if lp.kind == 'range' and lp.lo is not None and lp.hi is not None:
        count = lp.hi - lp.lo
    elif isinstance(itn, ast.Call) and getattr(itn.func, 'id', '') == 'range' and len(itn.args) == 3:
        # range(start, stop, -1): start - stop attempts
        sub = Evaluator(ctx.prog, opaque_kind=REPO_RESULT_KIND)
        from ..symeval import State
        st = State({k: v for k, v in args.items()})
        try:
            sub.frames.append(type('F', (), {'func': owner, 'module': owner.module, 'defcls': None})())
            vals = [sub.as_num(sub.eval(a, st)) for a in itn.args]
        except Exception:
            vals = [None]
        if all(v is not None and v.length is None for v in vals) and vals[2].is_const() and vals[2].const() == -1:
            count = vals[0].r - vals[1].r
    if count is None:
        return ctx.unknown('C19.4', inst + ': number of attempts', f"loop over {ast.unparse(itn) if itn is not None else lp.kind}: iteration count not recognised",
                           owner.loc(lp.node), owner.qualname, 'attempts')
    ctx.check(count == n + C(1), 'C19.4', inst + ': the loop makes n_retries + 1 attempts (up to n_retries failures are absorbed)',
              f"{sym.show(count)} attempts", owner.loc(lp.node), owner.qualname, 'attempts')
    inside = [e for e in ev.events if lp in e.loops]

    def in_handler(e) -> bool:
        return any(isinstance(g, P) and g.op == 'except' and veq(g.args[1], Const(tev.seq)) for g in e.guard)
    hs = tev.data['handlers']
    names = sorted(n_ if isinstance(n_, str) else str(n_) for h in hs for n_ in (h if isinstance(h, list) else [h]))
    ctx.check(names in (['TimeoutError', 'URLError'], ['TimeoutError', 'urllib.error.URLError']), 'C19.4', inst + ': the handler catches exactly URLError and TimeoutError',
              f"catches {names or 'everything'}", owner.loc(tev.node), owner.qualname, 'types')
    leave = [e for e in inside if e.kind in ('break', 'return') and not in_handler(e) and e.seq > dl.seq]
    ctx.check(bool(leave), 'C19.4', inst + ': success leaves the loop', '', owner.loc(tev.node), owner.qualname, 'break')
    rer = [e for e in inside if e.kind == 'raise' and in_handler(e) and e.data.get('reraise')]
    ok = False
    detail = 'no bare `raise` in the handler'
    if len(rer) == 1 and lp.kind == 'range' and lp.sym is not None:
        g = [x for x in rer[0].guard if not (isinstance(x, P) and x.op == 'except')][len([x for x in dl.guard]):]
        want = P('==', Num(lp.sym), Num(lp.hi - C(1)))
        verdict, detail = equivalent(g[0] if len(g) == 1 else (P('and', *g) if g else Const(True)), want)
        ok = bool(verdict)
    ctx.check(ok, 'C19.4', inst + ': the handler re-raises the caught exception exactly on the last attempt', detail, owner.loc(tev.node), owner.qualname, 'reraise')
    swallow = [e for e in inside if e.kind in ('break', 'return') and in_handler(e)]
    ctx.check(not swallow, 'C19.4', inst + ': the handler neither returns nor breaks (no swallowed failure)', f"{[(e.kind, e.loc()) for e in swallow]}",
              owner.loc(tev.node), owner.qualname, 'no-swallow')


def check_hit_path(ctx):
    ctx.rule('C19.5', 'download condition, enumerated over its three boolean atoms (8 rows): a download happens exactly for download_if_missing and '
                      '(not available or download_even_if_available); otherwise an available dataset is served by pickle.load of the cache slot with no network '
                      'call, and not available and not download_if_missing raises OSError')
    rows = 0
    for dim in (True, False):
        for deia in (True, False):
            for avail in (True, False):
                fi, ev, res, args = evaluate(ctx, {'download_if_missing': Const(dim), 'download_even_if_available': Const(deia)}, available=avail)
                _, final = paths(ctx, args)
                libs = [e for e in ev.events if e.kind == 'lib']
                net = [e for e in libs if e.data['name'] in NETWORK]
                want_dl = dim and ((not avail) or deia)
                rows += 1
                tag = f"download_if_missing={dim}, download_even_if_available={deia}, available={avail}"
                ctx.check(bool(net) == want_dl, 'C19.5', f"{tag}: {'downloads' if want_dl else 'no network access'}",
                          f"network calls: {[(e.data['name'], e.loc()) for e in net]}", fi.loc(), fi.qualname, f"row:{dim}:{deia}:{avail}")
                loads = [e for e in libs if e.data['name'] == 'pickle.load']
                # (raises of the loader itself, and those a helper it calls makes unconditionally on this row)
                unc_raise = [e for e in ev.events if e.kind == 'raise' and (e.func is fi or not e.guard)]
                if not want_dl and avail:
                    okl = len(loads) == 1
                    if okl:
                        f = targ(loads[0].data['result'], 'file', 0)
                        op = [e for e in libs if e.data['name'] == 'builtins.open' and f is not None and any(veq(t, e.data['result']) for t in walk_vals(f))]
                        okl = len(op) == 1 and veq(op[0].data['pos'][0] if op[0].data['pos'] else None, final) and (open_mode(op[0]) or 'r').startswith('r')
                        okl = okl and veq(res, loads[0].data['result'])
                    ctx.check(okl, 'C19.5', f"{tag}: served by pickle.load of the cache slot", show(res, 160), fi.loc(), fi.qualname, f"hit:{dim}:{deia}:{avail}")
                    ctx.check(not unc_raise, 'C19.5', f"{tag}: no exception", f"{[(e.data.get('exc')) for e in unc_raise]}", fi.loc(), fi.qualname, f"hit-noraise:{dim}:{deia}:{avail}")
                if not want_dl and not avail:
                    ctx.check(any(e.data.get('exc') == 'OSError' and not e.guard for e in unc_raise), 'C19.5', f"{tag}: raises OSError",
                              f"{[(e.data.get('exc'), len(e.guard)) for e in unc_raise]}", fi.loc(), fi.qualname, f"miss:{dim}:{deia}:{avail}")
                if want_dl:
                    parse = [e for e in libs if e.data['name'] == 'numpy.loadtxt']
                    ctx.check(len(parse) == 1 and veq(res, parse[0].data['result']) and not loads, 'C19.5',
                              f"{tag}: returns the freshly parsed (verified) data", show(res, 160), fi.loc(), fi.qualname, f"fresh:{dim}:{deia}:{avail}")
    ctx.floor('C19.5', rows, 8, 'truth-table rows')


def check_independence(ctx):
    ctx.rule('C19.6', 'independence of datasets: the cache slot is a function of the loader\'s literals only (pairwise distinct, C18.3) and the datasets '
                      'package keeps no module-level mutable state (no global statements, no module-level containers that functions mutate, no memoising '
                      'decorators)')
    n = 0
    for mname, mi in ctx.prog.modules.items():
        if not mname.startswith(DS):
            continue
        n += 1
        for node in ast.walk(mi.tree):
            if isinstance(node, ast.Global):
                ctx.fail('C19.6', f"{mname}: no global statement", '', f"{mi.relpath}:{node.lineno}", mname, f"global:{mname}:{node.lineno}")
        containers = {k for k, v in mi.constants.items() if isinstance(v, (ast.Dict, ast.List, ast.Set)) or
                      (isinstance(v, ast.Call) and getattr(v.func, 'id', '') in ('dict', 'list', 'set', 'defaultdict', 'OrderedDict'))}
        if mi.is_pkg:
            containers -= {'__all__'}
        mutated = set()
        for fi in list(mi.functions.values()):
            for nd in ast.walk(fi.node):
                if isinstance(nd, ast.Subscript) and isinstance(nd.ctx, ast.Store) and isinstance(nd.value, ast.Name) and nd.value.id in containers:
                    mutated.add(nd.value.id)
                if isinstance(nd, ast.Call) and isinstance(nd.func, ast.Attribute) and isinstance(nd.func.value, ast.Name) and nd.func.value.id in containers \
                        and nd.func.attr in ('append', 'update', 'setdefault', 'add', 'extend', 'pop', 'clear'):
                    mutated.add(nd.func.value.id)
        ctx.check(not mutated, 'C19.6', f"{mname}: no module-level container is mutated by a function", f"{sorted(mutated)}", mi.relpath, mname, f"state:{mname}")
        for fi in mi.functions.values():
            decs = [ast.unparse(d) for d in fi.node.decorator_list]
            memo = [d for d in decs if any(k in d for k in ('cache', 'memo', 'lru'))]
            remote_path = fi.qualname in (REMOTE_LOADER, FETCH, SHA, BASE + '.get_data_home') or fi.name.startswith('fetch_')
            ctx.check(not memo, 'C19.6', f"{fi.name}: not memoised", f"{memo}", fi.loc(), fi.qualname, f"memo:{fi.qualname}") if decs and remote_path else None
    ctx.floor('C19.6', n, 6, 'modules in the datasets package')
    loaders = [l for l in c18.all_loaders(ctx).values() if l.kind == 'remote']
    slots = {}
    for l in loaders:
        k = (l.dataset_folder, l.dataset_filename)
        ctx.check(k not in slots, 'C19.6', f"{l.fi.name}: cache slot not shared", f"{k} also used by {slots.get(k)}", l.fi.loc(), l.fi.qualname, f"slot:{l.fi.name}")
        slots.setdefault(k, l.fi.name)


def run(ctx):
    check_slot_writers(ctx)
    check_checksum_on(ctx)
    check_retry(ctx)
    check_hit_path(ctx)
    check_independence(ctx)
    ctx.notes.append('NOT DECIDED: behaviour under power loss (no fsync; the property speaks of process crashes), non-POSIX rename semantics, left-over temporary '
                     'directories after a kill (they are not the cache entry), pickle round-trip fidelity.')
    ctx.trust('POSIX rename within one file system is atomic', 'TemporaryDirectory / mkdtemp names are unique per call',
              'urlretrieve(url, path) writes path; pickle.dump(obj, f) writes f; np.loadtxt parses its argument')
