"""C04 - recreated series has an exact n-fold grid structure (DESIGN 4.4)"""
from __future__ import annotations

import ast
from typing import Optional

from .. import sym
from ..sym import Rat, C
from ..values import Num, Const, Tup, Term, Obj, P, Val, Fn, Gam, arr_param, veq, walk_vals, Ref, term_as_num
from ..model import AnalysisError
from ..rfa_model import Strategy, strategy, RFA, strip_state
from .common import S, show, SAU
from .c05 import call_is, unwrap, check_initial


def concrete_strategies(prog):
    base = prog.cls(RFA + 'AbstractRFA')
    out = []
    for c in prog.subclasses(base):
        if not prog.is_abstract(c):
            out.append(c)
    return sorted(out, key=lambda c: c.node.lineno)


def kind_of(v: Val) -> str:
    if isinstance(v, Num):
        return v.kind if v.length is not None else 'scalar'
    if isinstance(v, Gam):
        a, b = kind_of(v.a), kind_of(v.b)
        return a if a == b else f"{a}|{b}"
    if isinstance(v, Tup):
        return v.kind
    if isinstance(v, Const):
        return 'None' if v.v is None else type(v.v).__name__
    return getattr(v, 'kind', 'unknown')


def resolve_len(r: Rat, m: Rat) -> Rat:
    """rewrite Len(<helper call>) with the helpers' length contracts (C17.1/C17.2)"""
    changed = True
    guard = 0
    while changed and guard < 12:
        changed = False
        guard += 1
        mapping = {}
        for a in sym.direct_atoms(r):
            if sym.ATOMS.head(a) != 'Len':
                continue
            ref = sym.ATOMS.args(a)[0]
            t = ref.term if isinstance(ref, Ref) else None
            if t is None:
                continue
            t = strip_state(t)
            if isinstance(t, Num) and t.length is not None:
                mapping[a] = t.length
                continue
            if call_is(t, 'oversample_linspace') or call_is(t, 'oversample_piecewise_constant'):
                inner = t.kw('a')
                il = inner.length if isinstance(inner, Num) else sym.A('Len', Ref('$t', inner))
                mapping[a] = (il - C(1)) * t.kw('num').r + C(1)
            elif call_is(t, 'extend_linspace') or call_is(t, 'extend_constant'):
                inner = t.kw('a')
                il = inner.length if isinstance(inner, Num) else sym.A('Len', Ref('$t', inner))
                d = t.kw('direction')
                k = 2 if veq(d, Const('both')) else 1
                mapping[a] = il + C(k) * t.kw('n').r
            elif isinstance(t, Term) and t.head == 'listcomp' and isinstance(t.args[1], Num):
                mapping[a] = t.args[1].r
        if mapping:
            r2 = sym.subst(r, mapping)
            if not (r2 == r):
                r, changed = r2, True
    return r


def as_array(v: Val) -> Optional[Num]:
    if isinstance(v, Num):
        return v if v.length is not None else None
    if isinstance(v, Term) and v.kind in ('ndarray', 'list'):
        return term_as_num(v, True, v.kind)
    return None


def check_function_rfa(ctx):
    """C04.5: FunctionRFA returns function(x_i) over its grid, as computed (no post-processing of the sampled values)"""
    st = strategy(ctx.prog, 'CubicSplineRFA')
    res = st.result
    if isinstance(res, Tup) and len(res.items) == 2:
        xs, ys = as_array(res.items[0]), as_array(res.items[1])
        ok = xs is not None and ys is not None
        if ok:
            apps = [t for t in walk_vals(ys) if isinstance(t, Term) and t.head == 'apply' and len(t.args) == 2]
            ok = any(isinstance(t.args[1], Num) and t.args[1].r == xs.r for t in apps) and ys.length == xs.length
        ctx.check(ok, 'C04.5', 'FunctionRFA: y[i] = function(x[i]) over the returned grid, same extent', show(res.items[1], 300),
                  st.rfa.loc(), st.rfa.qualname, 'function-y')
        from .common import split_branches, post_processed
        altered = [(pth, post_processed(v_)) for pth, v_ in split_branches(res.items[1]) if post_processed(v_)]
        ctx.check(not altered, 'C04.5', 'FunctionRFA returns the sampled values as computed (no clamping / rounding of the result, on any path)',
                  f"{[(h_, [str(q)[:80] for q in pth]) for pth, h_ in altered[:2]]}", st.rfa.loc(), st.rfa.qualname, 'function-y-raw')


def run(ctx):
    ctx.rule('C04.1', 'for every concrete subclass of AbstractRFA, rfa() returns a 2-tuple whose elements are one-dimensional ndarrays (container-kind inference)')
    ctx.rule('C04.2', 'both elements have symbolic extent (m-1)*n+1 (helper length contracts of C17 applied); the abscissae are oversample_linspace(self.x, n), '
                      'reached only through element-preserving operations: extension by n on both sides and the cut [n:-n] with the same symbol n')
    ctx.rule('C04.3', 'every strategy constructor passes its own (x, y, n) to AbstractRFA.__init__ before using them (fields x, y, n hold the parameters)')
    ctx.rule('C04.4', 'AbstractRFA.__init__ raises ValueError on the path n < 2, inherited by every strategy')
    ctx.rule('C04.5', 'FunctionRFA builds y as function(x_i) for each x_i of the grid it returns, converted to a float ndarray of the same extent')
    classes = concrete_strategies(ctx.prog)
    ctx.floor('C04.1', len(classes), 6, 'concrete strategy classes')
    for ci in classes:
        name = ci.name
        st = strategy(ctx.prog, name)
        if st.issues:
            raise AnalysisError(f"C04: {name} not canonicalisable: {st.issues[:3]}")
        res = st.result
        m, n = st.m, st.n
        want = (m - C(1)) * n + C(1)
        if not (isinstance(res, Tup) and len(res.items) == 2):
            ctx.fail('C04.1', f"{name}.rfa returns a pair", show(res, 200), st.rfa.loc(), st.rfa.qualname, 'pair')
            continue
        for j, what in ((0, 'x'), (1, 'y')):
            v = res.items[j]
            k = kind_of(v)
            ctx.check(k == 'ndarray', 'C04.1', f"{name}.rfa()[{j}] ({what}) is an ndarray", f"inferred container kind: {k}; value {show(v, 160)}",
                      st.rfa.loc(), st.rfa.qualname, f"kind:{what}")
            arr = as_array(v)
            if arr is None:
                ctx.fail('C04.2', f"{name}.rfa()[{j}] has a length", show(v, 160), st.rfa.loc(), st.rfa.qualname, f"len:{what}")
                continue
            ln = resolve_len(arr.length, m)
            ctx.check(ln == want, 'C04.2', f"{name}.rfa()[{j}] ({what}) has (m-1)*n+1 elements", f"symbolic extent {sym.show(ln)[:200]}",
                      st.rfa.loc(), st.rfa.qualname, f"extent:{what}")
        # layout of x
        xv = as_array(res.items[0])
        if xv is not None:
            if st.X_ext is not None:
                check_initial(ctx, st, name)
                ok = xv.r == st.X.at(sym.idx() + n).r
                ctx.check(ok, 'C04.2', f"{name}: returned abscissae are the extended grid cut by the extension count on both sides ([n:-n])",
                          show(xv, 200), st.rfa.loc(), st.rfa.qualname, 'cut')
                yv = as_array(res.items[1])
                if yv is not None and st.Y_ext is None:
                    ctx.unknown('C04.2', f"{name}: returned values are the result array cut the same way ([n:-n])",
                                'the strategy builds no extended result array: layout not recognised', st.rfa.loc(), st.rfa.qualname, 'cut-y')
                elif yv is not None:
                    root = strip_state(yv)
                    atoms = [a for a in yv.r.atoms()]
                    ok = len(atoms) == 1 and sym.ATOMS.head(atoms[0]) == 'el' and sym.ATOMS.args(atoms[0])[1] == sym.idx() + n \
                        and any(veq(root, y) for y in st.Y_ext_all)
                    ctx.check(ok, 'C04.2', f"{name}: returned values are the result array cut the same way ([n:-n])", show(yv, 200),
                              st.rfa.loc(), st.rfa.qualname, 'cut-y')
            else:
                g = unwrap(xv)
                ok = call_is(g, 'oversample_linspace') and veq(unwrap(g.kw('a')), unwrap(st.X0)) and g.kw('num').r == n
                ctx.check(ok, 'C04.2', f"{name}: returned abscissae are oversample_linspace(self.x, n)", show(xv, 200), st.rfa.loc(), st.rfa.qualname, 'grid')
        # C04.3 / C04.4
        fx, fy, fn = st.init_fields.get('x'), st.init_fields.get('y'), st.init_fields.get('n')
        ok = isinstance(fx, Num) and fx.r == st.X0.r and isinstance(fy, Num) and fy.r == st.Y0.r and isinstance(fn, Num) and fn.r == n
        ctx.check(ok, 'C04.3', f"{name}.__init__ hands its own (x, y, n) to the base constructor",
                  f"fields: x={show(fx, 60)} y={show(fy, 60)} n={show(fn, 60)}", st.init.loc(), st.init.qualname, 'super')
        r = [e for e in st.init_raises if e.data.get('exc') == 'ValueError' and any(_is_n_lt_2(g, n) for g in e.guard)]
        ctx.check(bool(r), 'C04.4', f"{name}: construction raises ValueError when n < 2",
                  f"raises in constructor: {[(e.data.get('exc'), [str(g) for g in e.guard]) for e in st.init_raises]}", st.init.loc(), st.init.qualname, 'n<2')
        # no refusal of an admissible size: a raise whose condition is settled by the sizes alone must not fire for m >= 2 samples and n >= 2
        from ..truth import tri
        m_at, n_at = _atom_of(m), _atom_of(n)
        for e in st.init_raises:
            if any(_is_n_lt_2(g, n) for g in e.guard):
                continue
            hit = None
            for mv in (2, 3, 4, 9):
                for nv in (2, 3, 7):
                    def leaf(q, mv=mv, nv=nv):
                        if isinstance(q, P) and q.op in ('<', '==') and all(isinstance(a_, Num) and a_.length is None for a_ in q.args):
                            rs = [sym.subst(a_.r, {m_at: C(mv), n_at: C(nv)}) for a_ in q.args]
                            if all(r_.is_const() for r_ in rs):
                                a_, b_ = rs[0].const_value(), rs[1].const_value()
                                return a_ < b_ if q.op == '<' else a_ == b_
                        if isinstance(q, P) and q.op.startswith('cmp:') and len(q.args) == 2 and veq(q.args[0], q.args[1]):
                            return q.op in ('cmp:Eq', 'cmp:LtE', 'cmp:GtE')     # the same value on both sides
                        # an admissible series is one-dimensional, and a whole-array validation `all(<condition>)` holds / `any(<defect>)` does not
                        if isinstance(q, P) and q.op == '==' and any(isinstance(t, Term) and t.head == 'attr' and veq(t.args[1], Const('ndim')) for t in walk_vals(q)):
                            return True
                        if isinstance(q, P) and q.op == 'truthy' and isinstance(q.args[0], Term) and q.args[0].head in ('lib:numpy.all', 'lib:numpy.any',
                                                                                                                     'method:all', 'method:any'):
                            return q.args[0].head.endswith('all')
                        return None
                    if all(tri(g, leaf) is True for g in e.guard):
                        hit = hit or (mv, nv)
            ctx.check(hit is None, 'C04.4', f"{name}: construction does not refuse an admissible size (m >= 2 samples, n >= 2)",
                      f"{e.data.get('exc')} at {e.loc()} fires for m = {hit[0] if hit else '?'} samples, n = {hit[1] if hit else '?'}: "
                      f"{[str(g)[:100] for g in e.guard]}", e.loc(), st.init.qualname, f"admissible:{e.loc().split(':')[-1]}")
        ctx.sample({'rule': 'C04.1/2', 'strategy': name, 'kinds': [kind_of(v) for v in res.items],
                    'extents': [sym.show(resolve_len(as_array(v).length, m)) if as_array(v) is not None else None for v in res.items]})
    check_function_rfa(ctx)
    # the helper contracts the derivation above relies on (C17.1 / C17.2)
    from . import c17, c05
    c17.check_oversample(ctx)
    c17.check_extend(ctx)
    c05.check_other_strategies(ctx)      # every strategy, the cubic spline included, is defined for m >= 2 points: it is the documented library interpolant
    ctx.trust('helper length contracts: len(oversample_*(a, k)) = (len(a)-1)*k+1; extend_*(a, n, both) adds n per side (decided under C17)',
              'numpy.linspace(a, b, k)[0] == a exactly (bit-for-bit alignment of every n-th abscissa is this library guarantee)')
    ctx.notes.append('NOT DECIDED: finiteness of values; strict monotonicity of the abscissae (numeric consequences of the precondition).')


def _atom_of(r: Rat) -> int:
    (mm, c), = r.n.t.items()
    return mm[0][0]


def _is_n_lt_2(g, n: Rat) -> bool:
    return isinstance(g, P) and g.op == '<' and isinstance(g.args[0], Num) and g.args[0].r == n and isinstance(g.args[1], Num) \
        and g.args[1].is_const() and g.args[1].const() == 2
