"""C12 - repeat is a periodic extension with the original spacing (DESIGN 4.12)"""
from __future__ import annotations

import ast

from .. import sym
from ..sym import Rat, C
from ..values import Num, Const, Tup, Term, Obj, P, Val, Ref, veq, walk_vals, arr_param, term_as_num, p_not
from ..model import AnalysisError
from ..symeval import Evaluator
from ..weaver_model import WeaverModel, rename_refs
from ..rfa_model import strip_state
from .common import show, REPO_RESULT_KIND, S, ModSpec, same, arr_term, targ
from .c08 import model, last_stores, alias
from . import c08

PROC = 'traffic_weaver.process.'
REPEAT = PROC + 'repeat'


def check_repeat(ctx):
    ctx.rule('C12.1', 'process.repeat returns two arrays of extent r*len: y is tile(y, r) and is never written; x starts as tile(x, r); inputs are not written')
    ctx.rule('C12.2', 'offset stencil: the only stores into x are x[n*i : n*(i+1)] += d_i for i in range(1, r) - copy i, each copy once, copy 0 never - with '
                      'd_i == (x[n*i-1] - x[0]) + (x[n*i-1] - x[n*i-2]) read from the array being built (end of the previous copy minus the start, plus the '
                      'last step); every path returns this construction (no alternative fast path)')
    fi = ctx.prog.func(REPEAT)
    if fi.params() != ['x', 'y', 'repeats']:
        raise AnalysisError(f"C12: repeat signature changed: {fi.params()}")
    L = sym.sym('L')
    x, y = arr_param('x', length=L), arr_param('y', length=L)
    r = S('repeats')
    ev = Evaluator(ctx.prog, opaque_kind=REPO_RESULT_KIND)
    res, st = ev.run_function(fi, args={'x': x, 'y': y, 'repeats': r})
    if ev.issues:
        raise AnalysisError(f"C12: repeat not canonicalisable: {ev.issues[:3]}")
    sp = ModSpec(ctx.prog, 'traffic_weaver.process', {'x': x, 'y': y, 'repeats': r})
    tx, ty = sp.val('np.tile(x, repeats)'), sp.val('np.tile(y, repeats)')
    rets = [e for e in ev.events if e.kind == 'return' and e.func is fi]
    raise_guards = [g for e in ev.events if e.kind == 'raise' for g in e.guard]

    def validation_only(guard) -> bool:
        """the return is reached exactly when no argument check raised"""
        return all(any(veq(g, p_not(rg)) for rg in raise_guards) for g in guard)
    ctx.check(len(rets) == 1 and validation_only(rets[0].guard), 'C12.2', 'repeat has a single unconditional return (no alternative construction for special inputs)',
              f"{len(rets)} returns; guards {[[str(g)[:80] for g in e.guard] for e in rets]}", fi.loc(), fi.qualname, 'single-return')
    ok = isinstance(res, Tup) and len(res.items) == 2
    ctx.check(ok, 'C12.1', 'repeat returns a pair', show(res, 200), fi.loc(), fi.qualname, 'pair')
    if not ok:
        return
    rx, ry = res.items
    ctx.check(same(ry, ty), 'C12.1', 'y result is tile(y, repeats), untouched', show(arr_term(ry), 200), fi.loc(), fi.qualname, 'y-tile')
    for nm, v in (('x', rx), ('y', ry)):
        ln = v.length if isinstance(v, Num) else (term_as_num(v, True).length if isinstance(v, Term) else None)
        ctx.check(ln is not None and ln == L * r.r, 'C12.1', f"{nm} result has repeats*len elements", f"extent {sym.show(ln) if ln is not None else None}",
                  fi.loc(), fi.qualname, f"extent:{nm}")
    stores = [e for e in ev.events if e.kind == 'store']
    aa = alias(ctx)
    s_ = aa.summ.get(REPEAT)
    ctx.check(s_ is not None and not s_.mutates, 'C12.1', 'repeat does not write its inputs', f"mutates {sorted(s_.mutates) if s_ else None}", fi.loc(), fi.qualname, 'pure')
    if not stores:
        ctx.unknown('C12.2', 'offset construction', 'repeat no longer shifts the copies with in-place slice updates inside a loop: construction not recognised '
                                                    '(this rule reasons about the per-copy offset stencil only)', fi.loc(), fi.qualname, 'skeleton')
        return
    ctx.check(same(strip_state(rx), ty) is False and veq(arr_term(strip_state(rx)), arr_term(tx)), 'C12.1', 'x result starts as tile(x, repeats)',
              show(arr_term(strip_state(rx)), 200), fi.loc(), fi.qualname, 'x-tile')
    ctx.check(len(stores) == 1, 'C12.2', 'exactly one in-place store statement', f"{len(stores)} stores", fi.loc(), fi.qualname, 'one-store')
    for e in stores:
        inst = f"store at {e.loc()}"
        ok_loop = len(e.loops) == 1 and e.loops[0].kind == 'range' and e.loops[0].lo == C(1) and e.loops[0].hi == r.r
        ctx.check(ok_loop, 'C12.2', inst + ': inside `for i in range(1, repeats)` (copy 0 is never shifted, every other copy once)',
                  f"loops {[(l.kind, sym.show(l.lo) if l.lo is not None else None, sym.show(l.hi) if l.hi is not None else None) for l in e.loops]}", e.loc(), fi.qualname,
                  'loop')
        if not ok_loop:
            continue
        i = e.loops[0].sym
        idx = e.data['index']
        ok_idx = isinstance(idx, Term) and idx.head == 'slice' and isinstance(idx.args[0], Num) and isinstance(idx.args[1], Num) \
            and idx.args[0].r == L * i and idx.args[1].r == L * (i + C(1)) and isinstance(idx.args[2], Const)
        ctx.check(ok_idx, 'C12.2', inst + ': the slice is exactly copy i: [n*i : n*(i+1)] with n = len(x)', show(idx, 160), e.loc(), fi.qualname, 'slice')
        base = e.data['base']
        ctx.check(veq(arr_term(strip_state(base)), arr_term(tx)), 'C12.2', inst + ': the array written is the tiled x', show(arr_term(strip_state(base)), 120),
                  e.loc(), fi.qualname, 'base')
        val = e.data['value']
        okv = False
        detail = show(val, 300)
        if isinstance(base, Term) and base.kind in ('ndarray', 'list'):
            base = term_as_num(base, True, base.kind)
        if isinstance(val, Num) and isinstance(base, Num) and ok_idx:
            # frame of the loop (each iteration writes only its own copy [n*i, n*(i+1)), i >= 1 increasing): at iteration i the
            # slots of copy i and of copy 0 still hold the tiled values x[j]
            bref = _ref_of(base)

            def frame(rt: Rat) -> Rat:
                mapping = {}
                for a in sym.all_atoms(rt):
                    if sym.ATOMS.head(a) != 'el':
                        continue
                    rf, ix = sym.ATOMS.args(a)
                    if bref is None or not veq(rf, bref) or not isinstance(ix, Rat):
                        continue
                    if ix - L * i == sym.idx():
                        mapping[a] = x.r
                    elif ix == C(0):
                        mapping[a] = x.at(C(0)).r
                return sym.subst(rt, mapping) if mapping else rt
            inc = frame(val.r) - x.r
            B = lambda k: base.at(k).r
            want = frame((B(L * i - C(1)) - B(C(0))) + (B(L * i - C(1)) - B(L * i - C(2))))
            okv = inc == want
            detail = f"offset added: {sym.show(inc)[:300]}\nexpected:     {sym.show(want)[:300]}"
        ctx.check(okv, 'C12.2', inst + ': copy i is shifted by (end of previous copy - start) + last step, read from the array being built', detail,
                  e.loc(), fi.qualname, 'offset')
    ctx.sample({'rule': 'C12.2', 'store': show(stores[0].data['index'], 100) if stores else None})


def _ref_of(n: Num):
    for a in n.r.atoms():
        if sym.ATOMS.head(a) == 'el':
            return sym.ATOMS.args(a)[0]
    return None


def check_weaver(ctx, wm: WeaverModel):
    ctx.rule('C12.3', 'Weaver.repeat(n): (x, y) <- repeat(self.x, self.y, repeats=n) and the reference pair receives the same call on the reference series')
    mf = wm.methods.get('repeat')
    if mf is None:
        raise AnalysisError('C12.3: Weaver.repeat not found')
    ls = last_stores(mf)
    for pair, fx, fy in (('working', 'x', 'y'), ('reference', 'reference_x', 'reference_y')):
        ok = fx in ls and fy in ls
        detail = f"stores {sorted(ls)}"
        if ok:
            vx, vy = ls[fx][-1].data['value'], ls[fy][-1].data['value']
            ok = isinstance(vx, Term) and vx.head == 'item' and isinstance(vy, Term) and vy.head == 'item' and veq(vx.args[0], vy.args[0]) \
                and veq(vx.args[1], Const(0)) and veq(vy.args[1], Const(1))
            if ok:
                c = vx.args[0]
                ok = c.head == 'call:' + REPEAT and same(c.kw('x'), wm.fields[fx]) and same(c.kw('y'), wm.fields[fy]) and veq(c.kw('repeats'), mf.params.get('n'))
            detail = f"{fx} = {show(vx, 160)}; {fy} = {show(vy, 160)}"
        ctx.check(ok, 'C12.3', f"Weaver.repeat: the {pair} pair <- repeat(<{pair} series>, repeats=n)", detail, mf.fi.loc(), mf.fi.qualname, f"weaver:{pair}")
    guards = [g for e in mf.stores for g in e.guard]
    ctx.check(not guards, 'C12.3', 'Weaver.repeat: every store is unconditional', f"{[str(g)[:80] for g in guards]}", mf.fi.loc(), mf.fi.qualname, 'weaver:uncond')


def run(ctx):
    wm = model(ctx)
    check_repeat(ctx)
    check_weaver(ctx, wm)
    from .common import dt_function, dt_weaver, DT_RULE
    ctx.rule('C12.4', DT_RULE)
    n_ = dt_function(ctx, 'C12.4', REPEAT, {'x': 'x', 'y': 'x'}) + dt_weaver(ctx, 'C12.4', wm, ['repeat'])
    ctx.floor('C12.4', n_, 1, 'in-place stores with a known buffer element type in repeat')
    ctx.notes.append('NOT DECIDED: that the loop-carried offsets accumulate to i*(span + last step) (an induction over the in-place updates), strict monotonicity, '
                     'and the composition law repeat(a) o repeat(b) = repeat(a*b).')
    ctx.trust('numpy.tile(a, r) is r copies of a in order; r = 1 gives an empty loop, hence the identity')
