"""C12 - repeat is a periodic extension with the original spacing (DESIGN 4.12)"""
from __future__ import annotations

import ast

from .. import sym
from ..sym import Rat, C
from ..values import Num, Const, Tup, Term, Obj, P, Val, Ref, veq, walk_vals, arr_param, term_as_num, p_not
from ..model import AnalysisError
from ..symeval import Evaluator
from ..weaver_model import WeaverModel, rename_refs
from ..rfa_model import strip_state
from .common import show, REPO_RESULT_KIND, S, ModSpec, same, arr_term, targ
from .c08 import model, last_stores, alias
from . import c08

PROC = 'traffic_weaver.process.'
REPEAT = PROC + 'repeat'


def check_repeat(ctx):
    ctx.rule('C12.1', 'process.repeat returns two arrays of extent r*len: y is tile(y, r) and is never written; x starts as tile(x, r); inputs are not written')
    ctx.rule('C12.5', 'closed form by induction over the copies: under the hypothesis that copy i-1 holds x[j] + (i-1)*P, the store of iteration i writes x[j] + i*P, '
                      'with P = (x[-1]-x[0]) + (x[-1]-x[-2]); base case: copy 0 is the tiled input and is never written (C12.2 frame). Hence composition '
                      'repeat(a) o repeat(b) = repeat(a*b) holds over the reals whenever the period of the repeated series is b*P (same last step)')
    ctx.rule('C12.2', 'offset stencil: the only stores into x are x[n*i : n*(i+1)] += d_i for i in range(1, r) - copy i, each copy once, copy 0 never - with '
                      'd_i == (x[n*i-1] - x[0]) + (x[n*i-1] - x[n*i-2]) read from the array being built (end of the previous copy minus the start, plus the '
                      'last step); every path returns this construction (no alternative fast path)')
    fi = ctx.prog.func(REPEAT)
    if fi.params() != ['x', 'y', 'repeats']:
        raise AnalysisError(f"C12: repeat signature changed: {fi.params()}")
    L = sym.sym('L')
    x, y = arr_param('x', length=L), arr_param('y', length=L)
    r = S('repeats')
    ev = Evaluator(ctx.prog, opaque_kind=REPO_RESULT_KIND)
    res, st = ev.run_function(fi, args={'x': x, 'y': y, 'repeats': r})
    if ev.issues:
        raise AnalysisError(f"C12: repeat not canonicalisable: {ev.issues[:3]}")
    sp = ModSpec(ctx.prog, 'traffic_weaver.process', {'x': x, 'y': y, 'repeats': r})
    tx, ty = sp.val('np.tile(x, repeats)'), sp.val('np.tile(y, repeats)')
    rets = [e for e in ev.events if e.kind == 'return' and e.func is fi]
    raise_guards = [g for e in ev.events if e.kind == 'raise' for g in e.guard]

    def validation_only(guard) -> bool:
        """the return is reached exactly when no argument check raised"""
        return all(any(veq(g, p_not(rg)) for rg in raise_guards) for g in guard)
    # an arange whose step is computed from the data has a rounding-dependent number of elements (r or r + 1 offsets): the extent clause needs exact counts
    for e in ev.events:
        if e.kind == 'lib' and e.data.get('name') == 'numpy.arange':
            stp = e.data['kw'].get('step', e.data['pos'][2] if len(e.data['pos']) > 2 else None)
            if isinstance(stp, Num) and stp.length is None and any(sym.ATOMS.head(a_) == 'el' for a_ in sym.all_atoms(stp.r)):
                ctx.fail('C12.1', 'the number of copies / offsets is an exact count', f"numpy.arange at {e.loc()} steps by a value computed from the data "
                                  f"({sym.show(stp.r)[:100]}): with a floating-point step the number of elements depends on rounding (it can be repeats + 1)",
                         e.loc(), fi.qualname, 'arange-step')
    single = len(rets) == 1 and validation_only(rets[0].guard)
    if not single and len(rets) > 1:
        # a separate return for particular repeat counts (`if repeats < 2: return x, y`): whether that special case agrees with the general construction is
        # not compared here
        def on_count_only(g):
            return not any(isinstance(t, Num) and t.length is not None for t in walk_vals(g)) and any(
                isinstance(t, Num) and t.length is None and t.r == r.r for t in walk_vals(g))
        special = [e for e in rets if e.guard and all(on_count_only(g) or any(veq(g, p_not(rg)) for rg in raise_guards) for g in e.guard)]
        if len(special) == len(rets):
            ctx.unknown('C12.2', 'repeat has a single unconditional return (no alternative construction for special inputs)',
                        f"{len(rets)} returns selected by the repeat count alone: {[[str(g)[:60] for g in e.guard] for e in rets]}", fi.loc(), fi.qualname, 'single-return')
            return
    ctx.check(single, 'C12.2', 'repeat has a single unconditional return (no alternative construction for special inputs)',
              f"{len(rets)} returns; guards {[[str(g)[:80] for g in e.guard] for e in rets]}", fi.loc(), fi.qualname, 'single-return')
    ok = isinstance(res, Tup) and len(res.items) == 2
    ctx.check(ok, 'C12.1', 'repeat returns a pair', show(res, 200), fi.loc(), fi.qualname, 'pair')
    if not ok:
        return
    rx, ry = res.items
    from .common import foreign_heads

    def is_tile_of(v, base) -> bool:
        """element i of `v` is base[i mod n], i < n * repeats: tile(base, repeats) written as a gather (`base[np.arange(n * repeats) % n]`)"""
        return isinstance(v, Num) and v.length is not None and v.length == L * r.r and \
            v.r == sym.subst(base.r, {sym.idx_atom(): sym.A('Mod', sym.idx(), L)})
    if is_tile_of(ry, y):
        ry = ty
    fh_y = foreign_heads(ry, ty) if not same(ry, ty) else []
    if fh_y:
        ctx.unknown('C12.1', 'y result is tile(y, repeats), untouched', f"construction not recognised (uses {fh_y}): {show(arr_term(ry), 200)}", fi.loc(), fi.qualname, 'y-tile')
    else:
        ctx.check(same(ry, ty), 'C12.1', 'y result is tile(y, repeats), untouched', show(arr_term(ry), 200), fi.loc(), fi.qualname, 'y-tile')
    for nm, v in (('x', rx), ('y', ry)):
        ln = v.length if isinstance(v, Num) else (term_as_num(v, True).length if isinstance(v, Term) else None)
        if ln is not None and not (ln == L * r.r) and any(sym.ATOMS.head(a_) == 'Len' for a_ in sym.all_atoms(ln)):
            ctx.unknown('C12.1', f"{nm} result has repeats*len elements", f"the extent is not derivable: {sym.show(ln)[:160]}", fi.loc(), fi.qualname, f"extent:{nm}")
            continue
        ctx.check(ln is not None and ln == L * r.r, 'C12.1', f"{nm} result has repeats*len elements", f"extent {sym.show(ln) if ln is not None else None}",
                  fi.loc(), fi.qualname, f"extent:{nm}")
    stores = [e for e in ev.events if e.kind == 'store']
    aa = alias(ctx)
    s_ = aa.summ.get(REPEAT)
    ctx.check(s_ is not None and not s_.mutates, 'C12.1', 'repeat does not write its inputs', f"mutates {sorted(s_.mutates) if s_ else None}", fi.loc(), fi.qualname, 'pure')
    inplace = [n_ for n_ in ast.walk(fi.node) if isinstance(n_, ast.AugAssign) and isinstance(n_.target, ast.Name)]
    if not stores and inplace:
        # the source updates something in place (`name += ...`) and the evaluator recorded no store for it: the name may hold a view of the tiled array
        # (a row of a reshaped copy, an element of a list of slices): which samples are shifted is not known
        if True:
            ctx.unknown('C12.2', 'offset construction', f"in-place updates at lines {[n_.lineno for n_ in inplace]} whose target is not an array the evaluator follows "
                                                        f"(a view kept in a list / taken from an iterator): construction not recognised", fi.loc(), fi.qualname, 'skeleton')
            return
    if not stores:
        # a construction without in-place updates (vectorised): compare its element at flat index k with the closed form x[k mod n] + (k div n)*P
        k = sym.idx()
        Pd = (x.at(L - C(1)).r - x.at(C(0)).r) + (x.at(L - C(1)).r - x.at(L - C(2)).r)
        want = sym.subst(x.r, {sym.idx_atom(): sym.A('Mod', k, L)}) + sym.A('FloorDiv', k, L) * Pd
        got = _flat_value(ev, rx, k, L)
        if got is None:
            ctx.unknown('C12.2', 'offset construction', 'repeat neither shifts the copies with in-place slice updates inside a loop nor builds x from tile / repeat / arange '
                                                        'terms this rule can index: construction not recognised', fi.loc(), fi.qualname, 'skeleton')
            return
        ctx.check(got == want, 'C12.5', 'repeat (no in-place updates): element k of the result is x[k mod n] + (k div n)*((x[-1]-x[0]) + (x[-1]-x[-2]))',
                  f"code:     {sym.show(got)[:300]}\nexpected: {sym.show(want)[:300]}", fi.loc(), fi.qualname, 'closed-form-flat')
        return
    start_x = arr_term(strip_state(rx))
    if isinstance(strip_state(rx), Num) and is_tile_of(strip_state(rx), x):
        # the tiled copy written as a gather: the offset rules below are phrased for the tile term
        ctx.unknown('C12.2', 'offset construction', 'the tiled x is built by an index gather (x[arange(n * repeats) % n]): the in-place offset rules are read from '
                                                    'np.tile: construction not recognised', fi.loc(), fi.qualname, 'skeleton')
        return
    if not veq(start_x, arr_term(tx)) and foreign_heads(start_x, tx):
        ctx.unknown('C12.1', 'x result starts as tile(x, repeats)', f"construction not recognised (uses {foreign_heads(start_x, tx)}): {show(start_x, 160)}",
                    fi.loc(), fi.qualname, 'x-tile')
        return
    ctx.check(same(strip_state(rx), ty) is False and veq(arr_term(strip_state(rx)), arr_term(tx)), 'C12.1', 'x result starts as tile(x, repeats)',
              show(arr_term(strip_state(rx)), 200), fi.loc(), fi.qualname, 'x-tile')
    if any(e.data.get('view_unknown') for e in stores):
        ctx.unknown('C12.2', 'offset construction', 'the copies are updated in place through views (rows of a reshaped array, ...) that this rule does not follow: '
                                                    'construction not recognised', fi.loc(), fi.qualname, 'skeleton')
        return
    # recognised skeleton: one store, inside one loop over the copies, into a slice of exactly one copy's width of the tiled x
    skeleton = len(stores) == 1 and len(stores[0].loops) == 1 and stores[0].loops[0].kind == 'range' and stores[0].loops[0].lo is not None \
        and stores[0].loops[0].hi is not None and isinstance(stores[0].data['index'], Term) and stores[0].data['index'].head == 'slice'
    if skeleton:
        sl = stores[0].data['index']
        skeleton = isinstance(sl.args[0], Num) and isinstance(sl.args[1], Num) and (sl.args[1].r - sl.args[0].r == L) and isinstance(sl.args[2], Const)
    if not skeleton:
        ctx.unknown('C12.2', 'offset construction', f"repeat does not shift the copies with one in-place update of one copy per loop iteration ({len(stores)} store(s), loops "
                    f"{[[l.kind for l in e.loops] for e in stores]}): construction not recognised", fi.loc(), fi.qualname, 'skeleton')
        return
    for e in stores:
        inst = f"store at {e.loc()}"
        lp = e.loops[0]
        j = lp.sym
        idx = e.data['index']
        # the copy written in iteration j: i(j) = slice start / n; it has to run through 1, 2, ..., repeats - 1
        i = idx.args[0].r / L
        carried = [str(t_)[:60] for t_ in walk_vals(Num(i)) if isinstance(t_, Term) and t_.head in ('loopvar', 'loopstate', 'stored', 'mutated')]
        if carried:
            # the position written is kept in loop-carried state (a cursor advanced by the loop): not a function of the loop variable this rule can read
            ctx.unknown('C12.2', inst + ': the loop shifts copy 1, 2, ..., repeats - 1, each once (copy 0 is never shifted)',
                        f"the slice start depends on loop-carried state {carried[:2]}: construction not recognised", e.loc(), fi.qualname, 'copies')
            return
        i_first = sym.subst(i, {_atom1(j): lp.lo})
        i_last = sym.subst(i, {_atom1(j): lp.hi - C(1)})
        step_ok = sym.subst(i, {_atom1(j): j + C(1)}) - i == C(1)
        ok_loop = step_ok and i_first == C(1) and i_last == r.r - C(1)
        ctx.check(ok_loop, 'C12.2', inst + ': the loop shifts copy 1, 2, ..., repeats - 1, each once (copy 0 is never shifted)',
                  f"copy index {sym.show(i)} for the loop variable in [{sym.show(lp.lo)}, {sym.show(lp.hi)}): first {sym.show(i_first)}, last {sym.show(i_last)}",
                  e.loc(), fi.qualname, 'loop')
        if not ok_loop:
            continue
        ok_idx = True
        base = e.data['base']
        ctx.check(veq(arr_term(strip_state(base)), arr_term(tx)), 'C12.2', inst + ': the array written is the tiled x', show(arr_term(strip_state(base)), 120),
                  e.loc(), fi.qualname, 'base')
        val = e.data['value']
        okv = False
        detail = show(val, 300)
        if isinstance(base, Term) and base.kind in ('ndarray', 'list'):
            base = term_as_num(base, True, base.kind)
        if isinstance(val, Num) and isinstance(base, Num) and ok_idx:
            # frame of the loop (each iteration writes only its own copy [n*i, n*(i+1)), i >= 1 increasing): at iteration i the
            # slots of copy i and of copy 0 still hold the tiled values x[j]
            bref = _ref_of(base)

            def frame(rt: Rat) -> Rat:
                mapping = {}
                for a in sym.all_atoms(rt):
                    if sym.ATOMS.head(a) != 'el':
                        continue
                    rf, ix = sym.ATOMS.args(a)
                    if bref is None or not veq(rf, bref) or not isinstance(ix, Rat):
                        continue
                    if ix - L * i == sym.idx():
                        mapping[a] = x.r
                    elif ix == C(0):
                        mapping[a] = x.at(C(0)).r
                return sym.subst(rt, mapping) if mapping else rt
            inc = frame(val.r) - x.r
            B = lambda k: base.at(k).r
            want = frame((B(L * i - C(1)) - B(C(0))) + (B(L * i - C(1)) - B(L * i - C(2))))
            okv = inc == want
            detail = f"offset added: {sym.show(inc)[:300]}\nexpected:     {sym.show(want)[:300]}"
        ctx.check(okv, 'C12.2', inst + ': copy i is shifted by (end of previous copy - start) + last step, read from the array being built', detail,
                  e.loc(), fi.qualname, 'offset')
        if okv:
            # C12.5: closed form by induction over the copies.  Hypothesis H(i-1): copy i-1 holds x[j] + (i-1)*P with the period
            # P = (x[-1] - x[0]) + (x[-1] - x[-2]) (true for i-1 = 0: copy 0 is the tiled x and is never written).  The reads of iteration i at
            # n*i-1 and n*i-2 lie in copy i-1; substituting H(i-1) into the stored value must give x[j] + i*P.
            Pd = (x.at(L - C(1)).r - x.at(C(0)).r) + (x.at(L - C(1)).r - x.at(L - C(2)).r)
            hyp = {}
            for a_ in sym.all_atoms(inc):
                if sym.ATOMS.head(a_) != 'el':
                    continue
                rf, ix = sym.ATOMS.args(a_)
                if bref is None or not veq(rf, bref) or not isinstance(ix, Rat):
                    continue
                back = L * i - ix           # 1 or 2 samples before the start of copy i
                if back.is_const() and back.const_value() in (1, 2):
                    hyp[a_] = x.at(L - back).r + (i - C(1)) * Pd
            closed = sym.subst(inc, hyp) if hyp else inc
            ctx.check(closed == i * Pd, 'C12.5', inst + ': by induction over the copies, copy i is the input shifted by i*((x[-1]-x[0]) + (x[-1]-x[-2])) '
                      '(period = covered range plus the last step: the junction step equals the last step and every copy keeps the spacing pattern)',
                      f"offset of copy i under the induction hypothesis: {sym.show(closed)[:300]}\nexpected: {sym.show(i * Pd)[:200]}", e.loc(), fi.qualname, 'closed-form')
    ctx.sample({'rule': 'C12.2', 'store': show(stores[0].data['index'], 100) if stores else None})


def _flat_value(ev, v, k: Rat, n: Rat):
    """element at flat index k of a 1-D value built from element-wise arithmetic over tile / repeat / arange terms (written element semantics:
    tile(a, r)[k] = a[k mod len(a)], repeat(a, m)[k] = a[k div m], arange(r)[k] = k)"""
    from ..symeval import arr_identity

    def term_elem(t, idx: Rat):
        if isinstance(t, Num):
            if t.length is None:
                return t.r
            inner = arr_identity(t)
            if isinstance(inner, Term) and inner is not t:
                return term_elem(inner, idx)
            return rat_elem(t.r, idx)
        if not isinstance(t, Term):
            return None
        if t.head == 'lib:numpy.tile':
            a_ = t.kw('A') if t.kw('A') is not None else (t.args[0] if t.args else None)
            la = a_.length if isinstance(a_, Num) else None
            if la is None:
                return None
            return term_elem(a_, sym.A('Mod', idx, la))
        if t.head == 'lib:numpy.repeat':
            a_ = t.kw('a') if t.kw('a') is not None else (t.args[0] if t.args else None)
            m_ = t.kw('repeats') if t.kw('repeats') is not None else (t.args[1] if len(t.args) > 1 else None)
            if a_ is None or not (isinstance(m_, Num) and m_.length is None):
                return None
            return term_elem(a_, sym.A('FloorDiv', idx, m_.r))
        if t.head == 'lib:numpy.arange' and len(t.args) + len(t.kwargs) == 1:
            return idx
        return None

    def rat_elem(r: Rat, idx: Rat):
        mapping = {}
        for a_ in r.atoms():
            if sym.ATOMS.head(a_) != 'el':
                continue
            ref, ix = sym.ATOMS.args(a_)
            if not isinstance(ix, Rat) or not sym.free_idx(ix):
                continue
            at_ = sym.subst(ix, {sym.idx_atom(): idx})
            if isinstance(ref, Ref) and ref.term is not None:
                e_ = term_elem(ref.term, at_)
                if e_ is None:
                    return None
                mapping[a_] = e_
            else:
                mapping[a_] = sym.make_atom('el', ref, at_)
        return sym.subst(r, mapping) if mapping else r
    nv = v if isinstance(v, Num) else (ev.as_num(v, True) if isinstance(v, Term) else None)
    if nv is None or nv.length is None:
        return None
    try:
        return term_elem(nv, k)
    except Exception:
        return None


def _atom1(r_: Rat) -> int:
    (m_, c_), = r_.n.t.items()
    return m_[0][0]


def _ref_of(n: Num):
    for a in n.r.atoms():
        if sym.ATOMS.head(a) == 'el':
            return sym.ATOMS.args(a)[0]
    return None


def check_weaver(ctx, wm: WeaverModel):
    ctx.rule('C12.3', 'Weaver.repeat(n): (x, y) <- repeat(self.x, self.y, repeats=n) and the reference pair receives the same call on the reference series')
    mf = wm.methods.get('repeat')
    if mf is None:
        raise AnalysisError('C12.3: Weaver.repeat not found')
    ls = last_stores(mf)
    for pair, fx, fy in (('working', 'x', 'y'), ('reference', 'reference_x', 'reference_y')):
        ok = fx in ls and fy in ls
        detail = f"stores {sorted(ls)}"
        if ok:
            vx, vy = ls[fx][-1].data['value'], ls[fy][-1].data['value']
            ok = isinstance(vx, Term) and vx.head == 'item' and isinstance(vy, Term) and vy.head == 'item' and veq(vx.args[0], vy.args[0]) \
                and veq(vx.args[1], Const(0)) and veq(vy.args[1], Const(1))
            if ok:
                c = vx.args[0]
                ok = c.head == 'call:' + REPEAT and same(c.kw('x'), wm.fields[fx]) and same(c.kw('y'), wm.fields[fy]) and veq(c.kw('repeats'), mf.params.get('n'))
            detail = f"{fx} = {show(vx, 160)}; {fy} = {show(vy, 160)}"
        ctx.check(ok, 'C12.3', f"Weaver.repeat: the {pair} pair <- repeat(<{pair} series>, repeats=n)", detail, mf.fi.loc(), mf.fi.qualname, f"weaver:{pair}")
    guards = [g for e in mf.stores for g in e.guard]
    ctx.check(not guards, 'C12.3', 'Weaver.repeat: every store is unconditional', f"{[str(g)[:80] for g in guards]}", mf.fi.loc(), mf.fi.qualname, 'weaver:uncond')


def run(ctx):
    wm = model(ctx)
    check_repeat(ctx)
    check_weaver(ctx, wm)
    from .common import dt_function, dt_weaver, DT_RULE
    ctx.rule('C12.4', DT_RULE)
    n_ = dt_function(ctx, 'C12.4', REPEAT, {'x': 'x', 'y': 'x'}) + dt_weaver(ctx, 'C12.4', wm, ['repeat'])
    ctx.notes.append('NOT DECIDED: strict monotonicity as a numeric fact (needs x increasing, an inequality); floating-point equality of the composition law '
                     '(the closed form i*P is decided over the reals by C12.5).')
    ctx.trust('numpy.tile(a, r) is r copies of a in order; r = 1 gives an empty loop, hence the identity')
