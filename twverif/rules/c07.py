"""C07 - recreation commutes with changes of units and acts locally (DESIGN 4.7)"""
from __future__ import annotations

import ast
from fractions import Fraction

from .. import sym
from ..sym import Rat, C
from ..values import Num, Const, Tup, Term, Obj, P, Val, Fn, arr_param, veq, walk_vals, Ref, fresh_serial
from ..model import AnalysisError
from ..rfa_model import Strategy, strategy, SpecEnv, RFA, ADAPT, strip_state
from ..symeval import Evaluator, assume
from ..truth import tri
from .common import S, run as runf, need_num, show, REPO_RESULT_KIND, no_sau, SAU
from . import c06
from .c05 import WINDOW, _is_y, call_is, unwrap

FUNFIT = 'traffic_weaver.funfit.'


def _is_x(ref, st: Strategy) -> bool:
    return isinstance(ref, Ref) and ref.term is not None and veq(ref.term, st.X_ext)


def el_atoms(r: Rat, pred):
    return [a for a in sym.direct_atoms(r) if sym.ATOMS.head(a) == 'el' and pred(sym.ATOMS.args(a)[0])]


def check_values_affine(ctx, clsname: str, adaptive: bool):
    st = strategy(ctx.prog, clsname)
    for sf in st.stores:
        ys = set(el_atoms(sf.value, lambda r: _is_y(r, st)))
        inst = f"{clsname}: store at {sf.loc()} [{sym.show(sf.lo)},{sym.show(sf.hi)})"
        deg = sf.value.n.degree_in(ys)
        den_free = not (sf.value.d.atoms() & ys)
        nested = [a for a in sym.direct_atoms(sf.value) if a not in ys and sym.ATOMS.head(a) not in ('el', 'sym')
                  and any(b in ys for b in sym.direct_atoms(Rat.atom(a)))]
        ctx.check(deg == 1 and den_free and not nested, 'C07.1',
                  inst + ' is affine in the averages: degree 1, coefficients free of the averages',
                  f"degree in averages {deg}; denominator free of averages: {den_free}; averages inside opaque terms: {[sym.show_atom(a)[:80] for a in nested]}",
                  sf.loc(), st.rfa.qualname, f"affine:{sym.show(sf.lo)}")
        if not adaptive:
            # a sample written (or skipped) depending on the averages is a piecewise, not a linear, map of them
            cond = [str(g)[:100] for g in sf.guard if any(sym.ATOMS.head(a_) == 'el' and _is_y(sym.ATOMS.args(a_)[0], st)
                                                          for r_ in g.rats() for a_ in sym.all_atoms(r_))]
            ctx.check(not cond, 'C07.1', inst + ' is written whatever the averages are (no value-dependent branch in a non-adaptive strategy)',
                      f"written only when {cond[:2]}", sf.loc(), st.rfa.qualname, f"uncond:{sym.show(sf.lo)}")
        # time axis: x -> c*x + d leaves the value unchanged (homogeneity + vanishing total derivative; no expansion)
        xs = set(el_atoms(sf.value, lambda r: _is_x(r, st)))
        okx, why = sym.affine_invariant(sf.value, lambda a: sym.ATOMS.head(a) == 'el' and _is_x(sym.ATOMS.args(a)[0], st))
        ctx.check(bool(xs) and okx, 'C07.2', inst + ' depends on the abscissae only through ratios of differences (invariant under x -> c*x + d)',
                  why, sf.loc(), st.rfa.qualname, f"xinv:{sym.show(sf.lo)}")
        # indices and range bounds are unchanged by a change of units of x or y
        for what, r in (('index', sf.index), ('range start', sf.lo), ('range end', sf.hi)):
            ok1, w1 = sym.affine_invariant(r, lambda a: sym.ATOMS.head(a) == 'el' and _is_x(sym.ATOMS.args(a)[0], st))
            ok2, w2 = sym.affine_invariant(r, lambda a: sym.ATOMS.head(a) == 'el' and _is_y(sym.ATOMS.args(a)[0], st))
            ctx.check(ok1 and ok2, 'C07.2', inst + f": {what} does not change with the units of x or y",
                      f"{what} = {sym.show(r)[:200]}: {w1} {w2}", sf.loc(), st.rfa.qualname, f"taint:{what}:{sym.show(sf.lo)}")
        # locality stencil
        offs = set()
        okform = True
        for a in ys:
            idx = sym.ATOMS.args(a)[1]
            q = (idx - st.k * st.n) / st.n
            if q.is_const() and q.const_value().denominator == 1:
                offs.add(int(q.const_value()))
            else:
                okform = False
        ctx.check(okform and offs <= {-1, 0, 1}, 'C07.4', inst + ' reads averages of intervals k-1, k, k+1 only',
                  f"interval offsets {sorted(offs)}" + ('' if okform else ' plus a non-interval-aligned read'), sf.loc(), st.rfa.qualname,
                  f"stencil:{sym.show(sf.lo)}")
        if adaptive:
            tabs = st.window_tables()
            toffs = set()
            okt = True
            for a in sym.direct_atoms(sf.value) | sym.direct_atoms(sf.lo) | sym.direct_atoms(sf.hi):
                if sym.ATOMS.head(a) == 'el':
                    ref = sym.ATOMS.args(a)[0]
                    if isinstance(ref, Ref) and ref.term is not None and any(veq(ref.term, t) for t in tabs.values()):
                        q = sym.ATOMS.args(a)[1] - st.k
                        if q.is_const() and q.const_value().denominator == 1:
                            toffs.add(int(q.const_value()))
                        else:
                            okt = False
            ctx.check(okt and toffs <= {-1, 0, 1}, 'C07.4', inst + ' reads window-table entries k-1, k, k+1 only', f"table offsets {sorted(toffs)}",
                      sf.loc(), st.rfa.qualname, f"tstencil:{sym.show(sf.lo)}")
        # no loop-carried or foreign state
        foreign = [t for t in walk_vals(Num(sf.value)) if isinstance(t, Term) and t.head in ('loopvar', 'loopstate', 'stored', 'mutated')]
        ctx.check(not foreign, 'C07.4', inst + ' does not depend on loop-carried state or on samples already written',
                  f"{[str(t)[:80] for t in foreign[:3]]}", sf.loc(), st.rfa.qualname, f"carried:{sym.show(sf.lo)}")
    ctx.sample({'rule': 'C07.1/2/4', 'strategy': clsname, 'stores': len(st.stores)})


def check_fits_invariance(ctx):
    x, x0, y0, x1, y1, al = S('x'), S('x_0'), S('y_0'), S('x_1'), S('y_1'), S('alpha')
    cc, dd = sym.sym('$c'), sym.sym('$d')
    aa, bb = sym.sym('$a'), sym.sym('$b')
    for name in c06.FIT_SPECS:
        got, fi = c06.fit_value(ctx, name, x, x0, y0, x1, y1, al)
        m = {c06._a(v.r): cc * v.r + dd for v in (x, x0, x1)}
        ctx.check(sym.subst(got.r, m) == got.r, 'C07.2', f"{name}: invariant under x, x_0, x_1 -> c*(.)+d", '', fi.loc(), fi.qualname, f"fit-x:{name}")
        my = {c06._a(v.r): aa * v.r + bb for v in (y0, y1)}
        ctx.check(sym.subst(got.r, my) == aa * got.r + bb, 'C07.1', f"{name}: commutes with y -> a*y+b (affine in the anchor values, unit weight sum)",
                  '', fi.loc(), fi.qualname, f"fit-y:{name}")


def check_adaptive_unitfree(ctx):
    ctx.rule('C07.3', 'adaptive windows are unit-free: the general-case table entries are unchanged when every average is mapped by y -> a*y+b '
                      '(checked for a=-3/2,b=7 and a=2,b=-5 with Abs(c*e)=|c|*Abs(e)); branch conditions test only whether a jump |y_i - y_j| is zero; '
                      'entry k reads averages k-1, k, k+1 only and no loop-carried state')
    fi = ctx.prog.func(ADAPT)
    icls = ctx.prog.cls('traffic_weaver.interval.IntervalArray')
    n, L = sym.sym('n'), sym.sym('L')
    Y, X = arr_param('Yext', length=L), arr_param('Xext', length=L)
    ox, oy = Obj(icls, fresh_serial()), Obj(icls, fresh_serial())
    heap = {ox.oid: {'a': X, 'n': Num(n)}, oy.oid: {'a': Y, 'n': Num(n)}}
    a, s = S('a'), S('adaptive_smooth')
    ev = Evaluator(ctx.prog, inline=no_sau, opaque_kind=REPO_RESULT_KIND)
    ev.run_function(fi, pos=[ox, oy, a, s], heap=heap)
    if ev.issues:
        raise AnalysisError(f"C07.3: {fi.qualname} not canonicalisable: {ev.issues[:3]}")
    apps = [e for e in ev.events if e.kind == 'append' and e.loops]
    ctx.floor('C07.3', len(apps), 2, 'window-table appends inside the interval loop')
    is_y = lambda ref: isinstance(ref, Ref) and ref.label == 'Yext'
    is_xr = lambda ref: isinstance(ref, Ref) and ref.label == 'Xext'
    import itertools
    for e in apps:
        v0 = e.data['value']
        if not isinstance(v0, Num):
            continue
        from .c06 import entry_index
        recv = e.node.func.value if isinstance(e.node, ast.Call) and isinstance(e.node.func, ast.Attribute) else None
        k = entry_index(ev, e.loops[0], [recv.id] if isinstance(recv, ast.Name) else [], 'C07.3')
        inst = f"append at {e.loc()}"
        # branch conditions (statement guards and conditional values alike): only zero tests of adjacent jumps
        preds = list(e.guard) + [t for t in walk_vals(v0) if isinstance(t, P)]
        tests = {}

        def leaves(q):
            if isinstance(q, P) and q.op in ('not', 'and', 'or'):
                for x_ in q.args:
                    leaves(x_)
            elif isinstance(q, P):
                tests.setdefault(str(q), q)
        for g in preds:
            leaves(g)
        bad = [q for q in tests.values() if not _jump_zero_test(q, is_y, k, n, is_xr)]
        ctx.check(not bad, 'C07.3', inst + ': every branch condition is a unit-free zero test of adjacent jumps', f"{[str(q)[:120] for q in bad[:3]]}", e.loc(),
                  fi.qualname, 'guards')
        if bad or len(tests) > 6:
            continue
        keys = sorted(tests)
        for combo in itertools.product((False, True), repeat=len(keys)):
            asg = dict(zip(keys, combo))
            leaf = lambda q: asg.get(str(q))
            if any(tri(g, leaf) is False for g in e.guard):
                continue            # the append does not happen in this case
            v = assume(v0, lambda q: tri(q, leaf))
            if not isinstance(v, Num):
                continue
            case = ', '.join(f"{'' if t else 'not '}{kk[:50]}" for kk, t in asg.items()) or 'unconditional'
            ys = el_atoms(v.r, is_y)
            for (sa, sb) in ((Fraction(-3, 2), 7), (2, -5)):
                m = {at: C(sa) * Rat.atom(at) + C(sb) for at in ys}
                ctx.check(sym.subst(v.r, m) == v.r, 'C07.3', inst + f" [{case}]: value unchanged under y -> {sa}*y+{sb}",
                          f"{show(v, 300)}", e.loc(), fi.qualname, f"unitfree:{sa}:{case[:40]}")
            okx, why = sym.affine_invariant(v.r, lambda t: sym.ATOMS.head(t) == 'el' and is_xr(sym.ATOMS.args(t)[0]))
            ctx.check(okx, 'C07.2', inst + f" [{case}]: window size unchanged under x -> c*x+d", f"{show(v, 200)}: {why}", e.loc(), fi.qualname, f"x-inv:{case[:40]}")
            offs = set()
            ok = True
            for at in ys:
                q = (sym.ATOMS.args(at)[1] - k * n) / n
                if q.is_const() and q.const_value().denominator == 1:
                    offs.add(int(q.const_value()))
                else:
                    ok = False
            ctx.check(ok and offs <= {-1, 0, 1}, 'C07.4', inst + f" [{case}]: entry k reads averages k-1, k, k+1 only", f"offsets {sorted(offs)}", e.loc(), fi.qualname,
                      f"stencil:{case[:40]}")
            carried = [t for t in walk_vals(v) if isinstance(t, Term) and t.head in ('loopvar', 'loopstate', 'mutated')]
            ctx.check(not carried, 'C07.4', inst + f" [{case}]: no loop-carried state", f"{[str(t)[:60] for t in carried[:3]]}", e.loc(), fi.qualname, f"carried:{case[:40]}")


def _jump_zero_test(g, is_y, k, n, is_x=None) -> bool:
    """a branch condition is unit-free when it is a boolean combination of tests `e == 0` whose operand e only gets
    multiplied by a non-zero constant under y -> a*y+b and x -> c*x+d (a jump, a slope, ...), reading offsets -1..1"""
    q = g
    if isinstance(q, P) and q.op == 'not':
        q = q.args[0]
    if isinstance(q, P) and q.op in ('and', 'or'):
        return all(_jump_zero_test(x, is_y, k, n, is_x) for x in q.args)
    if isinstance(q, P) and q.op == '==':
        u, v = q.args
        for x_, y_ in ((u, v), (v, u)):
            if isinstance(x_, Num) and x_.is_const() and x_.const() == 0 and isinstance(y_, Num) and y_.length is None:
                r = y_.r
                ys = el_atoms(r, is_y)
                if not ys:
                    return False
                for (sa, sb) in ((Fraction(-3, 2), 7), (2, -5)):
                    img = sym.subst(r, {a: C(sa) * Rat.atom(a) + C(sb) for a in ys})
                    ratio = img / r
                    if not (ratio.is_const() and ratio.const_value() != 0):
                        return False
                if is_x is not None:
                    xs = el_atoms(r, is_x)
                    if xs:
                        img = sym.subst(r, {a: C(Fraction(3, 2)) * Rat.atom(a) + C(7) for a in xs})
                        ratio = img / r
                        if not (ratio.is_const() and ratio.const_value() != 0):
                            return False
                for a in ys:
                    off = (sym.ATOMS.args(a)[1] - k * n) / n
                    if not (off.is_const() and abs(off.const_value()) <= 1):
                        return False
                return True
    return False


def check_spline_scheme(ctx):
    """CubicSplineRFA is linear in the averages only if one interpolation scheme is used for every series: a choice between two linear schemes
    made by looking at the data is not linear (nor invariant under y -> a*y+b when the test is not)"""
    ctx.rule('C07.5', 'CubicSplineRFA: the sampling function is one library interpolant of (self.x, self.y) whose options are literal (no option, and no '
                      'choice between interpolants, depends on the data)')
    st = strategy(ctx.prog, 'CubicSplineRFA')
    res = st.result
    fns = [t.args[0] for t in walk_vals(res) if isinstance(t, Term) and t.head == 'apply' and len(t.args) == 2]
    fns += [t.a for t in walk_vals(res) if False]
    if not fns:
        raise AnalysisError('C07.5: CubicSplineRFA.rfa applies no sampling function')
    f = fns[0]
    inst = 'CubicSplineRFA: interpolation scheme fixed independently of the data'
    if not (isinstance(f, Term) and f.head.startswith('lib:')):
        return ctx.fail('C07.5', inst, f"the sampling function is {str(f)[:200]} (a data-dependent selection, or not a library interpolant)", st.rfa.loc(), st.rfa.qualname,
                        'scheme')
    data_opts = []
    for k_, v_ in list(f.kwargs) + [(str(i_), a_) for i_, a_ in enumerate(f.args)]:
        if k_ in ('x', 'y', '0', '1'):
            continue
        if not isinstance(v_, Const) and not (isinstance(v_, Num) and v_.is_const()):
            data_opts.append(f"{k_}={str(v_)[:100]}")
    ctx.check(not data_opts, 'C07.5', inst, f"{f.head[4:]} options computed at run time: {data_opts}", st.rfa.loc(), st.rfa.qualname, 'scheme')


def check_grid_equivariance(ctx):
    """the grid the strategies hand to the fits is extend_linspace(oversample_linspace(x)): both helpers are affine-equivariant
    in their array argument (C17 decides their forms; here: the mirror points have coefficient sum 1)"""
    fi = ctx.prog.func(SAU + 'extend_linspace')
    L = sym.sym('L')
    a = arr_param('a', length=L)
    n = S('n')
    cc, dd = sym.sym('$c'), sym.sym('$d')
    ev = Evaluator(ctx.prog, opaque_kind=REPO_RESULT_KIND)
    ev.run_function(fi, pos=[a, n, Const('both'), Const(None), Const(None)])
    lins = [e for e in ev.events if e.kind == 'lib' and e.data['name'] == 'numpy.linspace']
    if len(lins) < 2:
        ctx.notes.append('extend_linspace no longer builds its extensions with two linspace calls: grid equivariance left to C17')
        return
    for e in lins:
        for j, arg in enumerate(e.data['pos'][:2]):
            if isinstance(arg, Num) and arg.length is None:
                ats = [t for t in sym.direct_atoms(arg.r) if sym.ATOMS.head(t) == 'el']
                mapped = sym.subst(arg.r, {t: cc * Rat.atom(t) + dd for t in ats})
                ctx.check(mapped == cc * arg.r + dd, 'C07.2', f"extend_linspace: linspace end point {j} at {e.loc()} is affine-equivariant in the array",
                          show(arg, 200), e.loc(), fi.qualname, f"ext-equiv:{e.loc()}:{j}")


def run(ctx):
    ctx.rule('C07.1', 'every stored sample is affine in the averages with coefficients free of the averages (degree 1, denominator free); with C05.3 '
                      '(unit weight sum) the non-adaptive strategies commute with y -> a*y+b; the fits commute with it; a non-adaptive strategy writes every sample '
                      'unconditionally (no branch on the averages)')
    ctx.rule('C07.2', 'every stored sample is invariant under x -> c*x+d applied to the whole grid; indices and range bounds contain no data values; '
                      'the fits are invariant under an affine map of x, x_0, x_1; the grid extension is affine-equivariant')
    ctx.rule('C07.4', 'locality: interval k reads averages and window-table entries at offsets -1, 0, +1 only, and nothing loop-carried '
                      '(composition gives +-2 for the adaptive strategies; the cubic spline is global and exempt)')
    check_fits_invariance(ctx)
    n = 0
    for clsname, adaptive, exp in WINDOW:
        st = strategy(ctx.prog, clsname)
        if st.issues:
            raise AnalysisError(f"C07: {clsname} not canonicalisable: {st.issues[:3]}")
        if st.X_ext is None or st.Y_ext is None:
            raise AnalysisError(f"C07: {clsname}.rfa does not build its arrays through extend_linspace / extend_constant")
        check_values_affine(ctx, clsname, adaptive)
        n += len(st.stores)
    ctx.floor('C07.1', n, 12, 'stored samples over the four window strategies')
    # unit weight sum (shared with C05.3)
    from .c05 import check_constants
    ctx.rule('C05.3', 'substituting every average by one symbol c in any stored value yields c (unit weight sum)')
    for clsname, adaptive, exp in WINDOW:
        check_constants(ctx, clsname)
    check_adaptive_unitfree(ctx)
    check_grid_equivariance(ctx)
    check_spline_scheme(ctx)
    from . import c17, c04
    c17.check_oversample(ctx)            # the grid every strategy works on: built by linspace between neighbours only (affine-equivariant, exact)
    c04.check_function_rfa(ctx)
    ctx.notes.append('NOT DECIDED: non-negativity of the weights (an inequality); exact float equality of the two sides of the metamorphic relation.')
    ctx.trust('Abs(c*e)=|c|*Abs(e) for rational c', 'array helpers uninterpreted here (C17)')
