"""C11 - truncation and slicing select exactly the requested range (DESIGN 4.11)"""
from __future__ import annotations

import ast

from .. import sym
from ..sym import Rat, C
from ..values import Num, Const, Tup, Term, Obj, P, Val, Kw, veq, walk_vals, arr_param, term_as_num
from ..model import AnalysisError
from ..symeval import Evaluator
from ..weaver_model import WeaverModel
from .common import show, REPO_RESULT_KIND, S, ModSpec, same, arr_term, targ, SAU, inline_except, SCANS
from .c08 import model, last_stores, check_paired
from . import c08

PROC = 'traffic_weaver.process.'
TRUNC = PROC + 'truncate'


def check_truncate(ctx):
    ctx.rule('C11.1', 'process.truncate: each bound is converted by r*(x[-1]-x[0])+x[0] under its own flag; left index = lower search of [x_left], right '
                      'index = higher search of [x_right] plus one, both with filling; the same [left:right] slice cuts x and y (value numbering against the '
                      'documented expression, for the four flag combinations); the order guard is C20.1')
    fi = ctx.prog.func(TRUNC)
    need = ['x', 'y', 'x_left', 'x_right', 'x_left_as_ratio', 'x_right_as_ratio']
    if fi.params() != need:
        raise AnalysisError(f"C11.1: truncate signature changed: {fi.params()}")
    L = sym.sym('L')
    x, y = arr_param('x', length=L), arr_param('y', length=L)
    xl, xr = S('x_left'), S('x_right')
    for lr in (False, True):
        for rr in (False, True):
            ev = Evaluator(ctx.prog, inline=inline_except(*SCANS), opaque_kind=REPO_RESULT_KIND)
            res, st = ev.run_function(fi, args={'x': x, 'y': y, 'x_left': xl, 'x_right': xr, 'x_left_as_ratio': Const(lr), 'x_right_as_ratio': Const(rr)})
            if ev.issues:
                raise AnalysisError(f"C11.1: truncate not canonicalisable: {ev.issues[:3]}")
            sp = ModSpec(ctx.prog, 'traffic_weaver.sorted_array_utils', {'x': x, 'y': y, 'x_left': xl, 'x_right': xr}, inline=inline_except(*SCANS))
            sp.exec(('x_left = x_left * (x[-1] - x[0]) + x[0]\n' if lr else '') + ('x_right = x_right * (x[-1] - x[0]) + x[0]\n' if rr else ''))
            sp.exec('l = find_closest_lower_equal_element_indices_to_values(x, [x_left], fill_not_valid=True)[0]\n'
                    'r = find_closest_higher_equal_element_indices_to_values(x, [x_right], fill_not_valid=True)[0] + 1\n')
            wx, wy = sp.val('x[l:r]'), sp.val('y[l:r]')
            tag = f"left ratio={lr}, right ratio={rr}"
            from .common import count_semantics
            res, wx, wy = count_semantics(res), count_semantics(wx), count_semantics(wy)       # scan calls and binary searches in one vocabulary (C10.4 is the premise)
            ok = isinstance(res, Tup) and len(res.items) == 2 and _same_slice(res.items[0], wx) and _same_slice(res.items[1], wy)
            from .common import foreign_heads
            fh = [] if ok else foreign_heads(res, Tup([wx, wy]))
            ctx.check(None if fh else ok, 'C11.1', f"truncate ({tag}) returns (x[l:r], y[l:r]) with l = lower(x_left), r = higher(x_right) + 1",
                      (f"construction not recognised (uses {fh})\n" if fh else '') +
                      f"code: {show(res, 500)}\nspec: ({show(wx, 240)}, {show(wy, 240)})", fi.loc(), fi.qualname, f"truncate:{lr}:{rr}")
            ctx.sample({'rule': 'C11.1', 'case': tag, 'result': show(res, 200)})


def _same_slice(a, b) -> bool:
    if isinstance(a, Num) and isinstance(b, Num) and a.length is not None and b.length is not None:
        return a.r == b.r and a.length == b.length
    return same(a, b)


def check_weaver(ctx, wm: WeaverModel):
    ctx.rule('C11.2', 'truncate_by_value / truncate_by_index cut the reference with the same bounds as the working series (C08.2 instances)')
    ctx.rule('C11.3', 'slice_by_index / truncate_by_index: stop defaults to len(x); start < 0 and stop > len(x) raise ValueError before slicing; the same '
                      '[start:stop(:step)] slice is applied to every array')
    ctx.rule('C11.4', 'slice_by_value: with both bounds omitted the whole series is returned and no raise is reached; a given bound selects the index of the '
                      'sample equal to it (stop inclusive: +1); a bound equal to 0 is a value, not "omitted" (sentinel is None by identity); the result '
                      'delegates to slice_by_index')
    # pairing (reuses C08.2 on the two truncation operations)
    for op in ('truncate_by_value', 'truncate_by_index'):
        mf = wm.methods[op]
        ls = last_stores(mf)
        from ..weaver_model import rename_refs
        for f in ('x', 'y'):
            rf = 'reference_' + f
            if f not in ls or rf not in ls:
                ctx.fail('C11.2', f"{op}: both {f} and {rf} are cut", f"stores {sorted(ls)}", mf.fi.loc(), mf.fi.qualname, f"{op}:{f}:pair")
                continue
            want = rename_refs(ls[f][-1].data['value'], c08.W2R)
            want = want.subst(lambda r: sym.subst(r, {c08._a(wm.Lw): wm.Lr}))
            got = ls[rf][-1].data['value']
            if op == 'truncate_by_index':
                # the stop default / bound refer to the working length in both slices: compare the slice window only
                ok = isinstance(got, Num) and isinstance(ls[f][-1].data['value'], Num) and \
                    rename_refs(ls[f][-1].data['value'], c08.W2R).r == got.r and got.length == ls[f][-1].data['value'].length
            else:
                ok = veq(got, want)
            ctx.check(ok, 'C11.2', f"{op}: {rf} is cut with the same bounds as {f}",
                      f"working:   {show(ls[f][-1].data['value'], 240)}\nreference: {show(got, 240)}", ls[rf][-1].loc(), mf.fi.qualname, f"{op}:{rf}")
    # truncate_by_value calls truncate with the caller's bounds and flags
    mf = wm.methods['truncate_by_value']
    for e in [c for c in mf.calls if c.kind == 'call' and c.data['callee'] is not None and c.data['callee'].qualname == TRUNC]:
        b = e.data['bound']
        ok = all(veq(b.get(k), mf.params.get(k)) for k in ('x_left', 'x_right', 'x_left_as_ratio', 'x_right_as_ratio'))
        ctx.check(ok, 'C11.2', f"truncate_by_value: truncate() at {e.loc()} receives the caller's bounds and ratio flags, each in its own slot",
                  f"{ {k: show(v, 60) for k, v in b.items() if k not in ('x', 'y')} }", e.loc(), mf.fi.qualname, f"tbv:{e.loc().split(':')[-1]}")
    # index-based
    tbi = wm.cls.methods['truncate_by_index']
    sbi = wm.cls.methods['slice_by_index']
    mf = wm.methods['truncate_by_index']
    start, stop = mf.params['start'], mf.params['stop']
    ls = last_stores(mf)
    for f in ('x', 'y', 'reference_x', 'reference_y'):
        base = wm.fields[f]
        want_r = sym.subst(base.r, {sym.idx_atom(): sym.idx() + start.r})
        got = ls[f][-1].data['value'] if f in ls else None
        ok = isinstance(got, Num) and got.length is not None and got.r == want_r and got.length == stop.r - start.r
        ctx.check(ok, 'C11.3', f"truncate_by_index: self.{f} <- self.{f}[start:stop]", show(got, 200), (ls[f][-1].loc() if f in ls else mf.fi.loc()),
                  mf.fi.qualname, f"tbi:{f}")
    mfd = wm.evaluate(tbi, overrides={'stop': Const(None)})
    lsd = last_stores(mfd)
    got = lsd['x'][-1].data['value'] if 'x' in lsd else None
    ok = isinstance(got, Num) and got.length is not None and got.length == wm.Lw - start.r
    ctx.check(ok, 'C11.3', 'truncate_by_index: an omitted stop means len(x)', show(got, 200), mfd.fi.loc(), mfd.fi.qualname, 'tbi:default')
    mf = wm.methods['slice_by_index']
    r = mf.result
    ok = isinstance(r, Tup) and len(r.items) == 2
    if ok:
        a, b = arr_term(r.items[0]), arr_term(r.items[1])
        ok = isinstance(a, Term) and isinstance(b, Term) and a.head == 'slice_of' and b.head == 'slice_of' and same(a.args[0], wm.fields['x']) \
            and same(b.args[0], wm.fields['y']) and veq(a.args[1], b.args[1])
        if ok:
            sl = a.args[1]
            ok = isinstance(sl, Term) and sl.head == 'slice' and veq(sl.args[0], mf.params['start']) and veq(sl.args[1], mf.params['stop']) \
                and veq(sl.args[2], mf.params['step'])
    ctx.check(ok, 'C11.3', 'slice_by_index returns (x[start:stop:step], y[start:stop:step])', show(r, 300), mf.fi.loc(), mf.fi.qualname, 'sbi')
    mfd = wm.evaluate(sbi, overrides={'stop': Const(None), 'step': Num(C(1))})
    r = mfd.result
    ok = isinstance(r, Tup) and len(r.items) == 2 and isinstance(r.items[0], Num) and r.items[0].length is not None and \
        r.items[0].length == wm.Lw - mfd.params['start'].r
    ctx.check(ok, 'C11.3', 'slice_by_index: an omitted stop means len(x)', show(r, 200), mfd.fi.loc(), mfd.fi.qualname, 'sbi:default')
    # slice_by_value
    sbv = wm.cls.methods['slice_by_value']
    one = Num(C(1))
    X, Y = wm.fields['x'], wm.fields['y']

    def expect(lo: Rat, hi: Rat):
        return Num(sym.subst(X.r, {sym.idx_atom(): sym.idx() + lo}), hi - lo), Num(sym.subst(Y.r, {sym.idx_atom(): sym.idx() + lo}), hi - lo)

    IDIOMS = ['np.where(X == v)[0][0]', 'np.flatnonzero(X == v)[0]', 'np.nonzero(X == v)[0][0]', 'np.searchsorted(X, v)',
              'np.searchsorted(X, v, side="left")', 'np.argmax(X == v)', 'int(np.where(X == v)[0][0])', 'int(np.searchsorted(X, v))']

    def idiom_values(v: Num):
        out = []
        for src in IDIOMS:
            sp = ModSpec(ctx.prog, 'traffic_weaver.weaver', {'X': X, 'v': v})
            try:
                w = sp.val(src)
            except AnalysisError:
                continue
            if isinstance(w, Term):
                w = term_as_num(w, False)
            if isinstance(w, Num):
                out.append(w.r)
        return out
    v1, v2 = S('arg:start'), S('arg:stop')
    zero = Num(C(0))

    def evaluate(ov):
        ov = dict(ov)
        ov['step'] = one
        mfv = wm.evaluate(sbv, overrides=ov)
        if mfv.issues:
            raise AnalysisError(f"C11.4: slice_by_value not canonicalisable: {mfv.issues[:3]}")
        return mfv

    def window(mfv):
        """(lo, hi) of the returned pair when it is (x[lo:hi], y[lo:hi])"""
        r = mfv.result
        if not (isinstance(r, Tup) and len(r.items) == 2 and all(isinstance(i, Num) and i.length is not None for i in r.items)):
            return None
        a, b = r.items
        # a.r = X[$i + lo]
        for at in a.r.atoms():
            if sym.ATOMS.head(at) == 'el' and a.r == Rat.atom(at):
                lo = sym.ATOMS.args(at)[1] - sym.idx()
                if sym.free_idx(lo):
                    return None
                wx, wy = expect(lo, lo + a.length)
                if _same_slice(a, wx) and _same_slice(b, wy):
                    return lo, lo + a.length
        return None
    # (a) omitted bounds: the whole series, no raise
    mf0 = evaluate({'start': Const(None), 'stop': Const(None)})
    w0 = window(mf0)
    carried = [t for t in walk_vals(mf0.result) if isinstance(t, Term) and t.head in ('loopvar', 'loopstate') ] if mf0.result is not None else []
    if carried:
        # the bounds are found by a search loop with loop-carried state (first match, early exit): not one of the lookup idioms this rule compares
        ctx.unknown('C11.4', 'slice_by_value: lookup of the bounds', f"the window depends on loop-carried state ({show(carried[0], 60)}): search idiom not recognised",
                    mf0.fi.loc(), mf0.fi.qualname, 'sbv:idiom')
        return
    ctx.check(w0 is not None and w0[0] == C(0) and w0[1] == wm.Lw, 'C11.4', 'slice_by_value (both bounds omitted) returns the whole series x[0:len], y[0:len]',
              f"code: {show(mf0.result, 300)}", mf0.fi.loc(), mf0.fi.qualname, 'sbv:omitted')
    bad = [e for e in mf0.raises if not _bounds_guard(e, wm)]
    ctx.check(not bad, 'C11.4', 'slice_by_value (both bounds omitted): no raise is reached',
              f"raises: {[[str(g)[:80] for g in e.guard] for e in mf0.raises]}", mf0.fi.loc(), mf0.fi.qualname, 'sbv-noraise')
    # (b) a given start selects the index of the sample equal to it (recognised lookup idiom); stop is the same lookup, inclusive
    mf1 = evaluate({'start': v1, 'stop': Const(None)})
    w1 = window(mf1)
    mf2 = evaluate({'start': Const(None), 'stop': v2})
    w2 = window(mf2)
    mf3 = evaluate({'start': v1, 'stop': v2})
    w3 = window(mf3)
    if w1 is None or w2 is None or w3 is None:
        ctx.fail('C11.4', 'slice_by_value with a given bound returns one window x[lo:hi], y[lo:hi]',
                 f"start given: {show(mf1.result, 200)}\nstop given: {show(mf2.result, 200)}", mf1.fi.loc(), mf1.fi.qualname, 'sbv:window')
    else:
        lo = w1[0]
        known = any(lo == r for r in idiom_values(v1))
        from .common import tolerance_events
        tol = tolerance_events(mf1.ev) + tolerance_events(mf2.ev)
        if tol:
            ctx.fail('C11.4', 'slice_by_value: a bound is looked up by exact equality with a sample',
                     f"tolerance-based comparison {sorted({e.data['name'] for e in tol})} at {tol[0].loc()}: with the default tolerances the first sample within "
                     f"tolerance is taken (scale-dependent), not the sample equal to the bound", tol[0].loc(), mf1.fi.qualname, 'sbv:exact')
        elif not known:
            ctx.unknown('C11.4', 'slice_by_value: lookup of the start sample', f"index expression not among the recognised lookups of a value in x: {sym.show(lo)[:200]}",
                        mf1.fi.loc(), mf1.fi.qualname, 'sbv:idiom')
        else:
            ctx.ok('C11.4', 'slice_by_value (start given): lo is the index of the sample equal to start', sym.show(lo)[:120], mf1.fi.loc(), mf1.fi.qualname, 'sbv:start')
        ctx.check(w1[1] == wm.Lw and w2[0] == C(0), 'C11.4', 'slice_by_value: an omitted bound means the respective end of the series',
                  f"start given -> hi = {sym.show(w1[1])[:80]}; stop given -> lo = {sym.show(w2[0])[:80]}", mf1.fi.loc(), mf1.fi.qualname, 'sbv:ends')
        a1, a2 = c08._a(v1.r), c08._a(v2.r)
        lo_as_stop = sym.subst(lo, {a1: v2.r})
        ctx.check(w2[1] == lo_as_stop + C(1), 'C11.4', 'slice_by_value (stop given): hi = index of the sample equal to stop, plus one (stop is inclusive; '
                                                       'same lookup as for start)',
                  f"hi = {sym.show(w2[1])[:160]}; expected {sym.show(lo_as_stop + C(1))[:160]}", mf2.fi.loc(), mf2.fi.qualname, 'sbv:stop')
        ctx.check(w3[0] == lo and w3[1] == lo_as_stop + C(1), 'C11.4', 'slice_by_value (both given): lo and hi as above',
                  f"lo = {sym.show(w3[0])[:120]}; hi = {sym.show(w3[1])[:120]}", mf3.fi.loc(), mf3.fi.qualname, 'sbv:both')
        # (c) the sentinel is None by identity: the value 0 is a bound like any other
        for which, ov, ref, at in (('start', {'start': zero, 'stop': Const(None)}, w1, a1), ('stop', {'start': Const(None), 'stop': zero}, w2, a2)):
            mz = evaluate(ov)
            wz = window(mz)
            want = (sym.subst(ref[0], {at: C(0)}), sym.subst(ref[1], {at: C(0)}))
            ctx.check(wz is not None and wz[0] == want[0] and wz[1] == want[1], 'C11.4',
                      f"slice_by_value: {which} = 0 is treated as the value 0, not as an omitted bound",
                      f"code: {show(mz.result, 240)}", mz.fi.loc(), mz.fi.qualname, f"sbv:zero:{which}")
        ctx.sample({'rule': 'C11.4', 'lo(start)': sym.show(lo)[:100], 'hi(stop)': sym.show(w2[1])[:100]})


def _bounds_guard(e, wm) -> bool:
    """raise of the delegated index-bound check (start < 0 / stop > len): unreachable for lo = 0, hi = len"""
    txt = ' '.join(str(g) for g in e.guard)
    return '<(0, 0)' in txt or '<(Lw, Lw)' in txt or txt == ''


def run(ctx):
    wm = model(ctx)
    check_truncate(ctx)
    check_weaver(ctx, wm)
    from . import c10
    c10.check_scans(ctx, kinds=('lower', 'higher'), fill_true_only=True)      # truncation is built on the two one-sided scans (structural table only)
    ctx.notes.append('NOT DECIDED: that the neighbour searches return the right neighbour (C10).')
    ctx.trust('callees kept uninterpreted on both sides of each comparison; NumPy slice semantics for [lo:hi:step]')
