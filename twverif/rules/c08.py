"""C08 - reference series tracks domain transformations through any history (DESIGN 4.8)

Decided by induction over histories: the invariant is established by __init__ and preserved by every method."""
from __future__ import annotations

from typing import Dict, List

from .. import sym
from ..sym import Rat, C
from ..values import Num, Const, Tup, Term, Obj, P, Val, veq, walk_vals, p_not
from ..model import AnalysisError
from ..weaver_model import WeaverModel, DOMAIN_OPS, RESHAPING_OPS, SERIES_FIELDS, rename_refs, refs_in, WEAVER
from ..alias import AliasAnalysis, FRESH
from .common import show

W2R = {'self.x': 'self.reference_x', 'self.y': 'self.reference_y'}
GROUPS = {'x': 'working', 'y': 'working', 'reference_x': 'reference', 'reference_y': 'reference', 'original_x': 'original',
          'original_y': 'original'}

_MODEL_CACHE = {}


def model(ctx) -> WeaverModel:
    k = (id(ctx.prog), id(sym.ATOMS))
    if k not in _MODEL_CACHE:
        _MODEL_CACHE.clear()
        _MODEL_CACHE[k] = WeaverModel(ctx.prog)
    return _MODEL_CACHE[k]


_ALIAS_CACHE = {}


def alias(ctx) -> AliasAnalysis:
    k = id(ctx.prog)
    if k not in _ALIAS_CACHE:
        _ALIAS_CACHE.clear()
        _ALIAS_CACHE[k] = AliasAnalysis(ctx.prog)
    return _ALIAS_CACHE[k]


def last_stores(mf) -> Dict[str, list]:
    out: Dict[str, list] = {}
    for e in mf.stores:
        out.setdefault(e.data['field'], []).append(e)
    # a field that ends up holding the very value it held on entry (stored back unchanged, or swapped away and back) is not written by the method
    init = getattr(mf, 'initial_fields', None) or {}
    for f in list(out):
        last = out[f][-1]
        if f in init and not last.guard and (last.data['value'] is init[f] or veq(last.data['value'], init[f])) and len(out[f]) > 1:
            del out[f]
    return out


def check_establish(ctx, wm: WeaverModel):
    ctx.rule('C08.1', '__init__ stores into reference_x/y the same values it stores into x/y (value numbering); sharing of memory is judged by C08.4')
    for tag, mf in (('x given', wm.init), ('x omitted', wm.init_xnone)):
        if mf.issues:
            raise AnalysisError(f"C08.1: Weaver.__init__ not canonicalisable: {mf.issues[:3]}")
        fin = mf.final_fields
        for f in ('x', 'y'):
            a, b = fin.get(f), fin.get('reference_' + f)
            ctx.check(a is not None and b is not None and veq(a, b), 'C08.1', f"__init__ ({tag}): reference_{f} holds the same values as {f}",
                      f"{f} = {show(a, 120)}; reference_{f} = {show(b, 120)}", mf.fi.loc(), mf.fi.qualname, f"init:{f}:{tag}")


def check_paired(ctx, wm: WeaverModel):
    ctx.rule('C08.2', 'every domain operation stores into (reference_x, reference_y) exactly the value it stores into (x, y) with x -> reference_x, '
                      'y -> reference_y substituted (same resolved callee / operator, same non-series arguments after parameter binding), under the same guard; '
                      'the callee is pure (no in-place writes to its parameters, no randomness)')
    n = 0
    for op0 in DOMAIN_OPS:
        if wm.methods.get(op0) is None:
            raise AnalysisError(f"C08.2: domain operation Weaver.{op0} not found")
        for label, mf in wm.variants_of(op0):
            op = op0 if not label else f"{op0}[{label}]"
            if mf.issues:
                raise AnalysisError(f"C08.2: Weaver.{op} not canonicalisable: {mf.issues[:3]}")
            ls = last_stores(mf)
            touched = [f for f in ('x', 'y') if f in ls]
            if not touched:
                ctx.fail('C08.2', f"{op}: transforms the working series", 'no store to x or y', mf.fi.loc(), mf.fi.qualname, f"{op}:nostore")
                continue
            for f in ('x', 'y'):
                rf = 'reference_' + f
                if f in ls or rf in ls:
                    n += 1
                if f in ls and rf not in ls:
                    ctx.fail('C08.2', f"{op}: the transformation of {f} is also applied to {rf}",
                             f"{op} stores self.{f} = {show(ls[f][-1].data['value'], 160)} but never stores self.{rf}", ls[f][-1].loc(), mf.fi.qualname, f"{op}:{rf}:missing")
                    continue
                if rf in ls and f not in ls:
                    ctx.fail('C08.2', f"{op}: {rf} changes only together with {f}", f"store to {rf} without a store to {f}", ls[rf][-1].loc(),
                             mf.fi.qualname, f"{op}:{f}:missing")
                    continue
                if f not in ls:
                    continue
                ew, er = ls[f][-1], ls[rf][-1]
                want = rename_refs(ew.data['value'], W2R)
                # the working length symbol becomes the reference length symbol
                want = want.subst(lambda r: sym.subst(r, {_a(wm.Lw): wm.Lr})) if hasattr(want, 'subst') else want
                got = er.data['value']
                # induction hypothesis on entry: working == reference, in particular the two have the same length
                got_h = got.subst(lambda r: sym.subst(r, {_a(wm.Lw): wm.Lr})) if hasattr(got, 'subst') else got
                ok = veq(got, want) or veq(got_h, want)
                ctx.check(ok, 'C08.2', f"{op}: reference_{f} receives the same transformation as {f}",
                          f"stored to {f}:           {show(ew.data['value'], 300)}\nexpected for reference:  {show(want, 300)}\nstored to reference_{f}: {show(got, 300)}",
                          er.loc(), mf.fi.qualname, f"{op}:{rf}")
                # the transformation happens on every path that does not reject the arguments (no fast path skips it)
                rg_ = [g_ for r_ in mf.raises for g_ in r_.guard]
                skipping = [g_ for g_ in ew.guard if not any(veq(g_, p_not(x_)) for x_ in rg_)]
                ctx.check(not skipping, 'C08.2', f"{op}: {f} is transformed on every accepted call (no condition skips the operation)",
                          f"only when {[str(g_)[:100] for g_ in skipping]}", ew.loc(), mf.fi.qualname, f"{op}:{f}:uncond")
                # guards must agree (a reference update skipped on some path breaks the invariant)
                gw = [g for g in ew.guard]
                gr = [g for g in er.guard]
                same_guard = len(gw) == len(gr) and all(veq(a, b) for a, b in zip(gw, gr))
                ctx.check(same_guard, 'C08.2', f"{op}: {f} and reference_{f} are updated on the same paths",
                          f"guard of {f}: {[str(g)[:80] for g in gw]}; guard of reference_{f}: {[str(g)[:80] for g in gr]}", er.loc(), mf.fi.qualname,
                          f"{op}:{rf}:guard")
                # the reference update must not read the working series (and vice versa)
                bad = refs_in(got) & {'self.x', 'self.y', 'self.original_x', 'self.original_y'}
                ctx.check(not bad, 'C08.2', f"{op}: the new reference_{f} is computed from the reference (and arguments) only", f"reads {sorted(bad)}",
                          er.loc(), mf.fi.qualname, f"{op}:{rf}:reads")
                ctx.sample({'rule': 'C08.2', 'op': op, 'field': f, 'working': show(ew.data['value'], 140), 'reference': show(got, 140)})
            # every store of the series fields is accounted for: no third series written except by design (normalise renormalises the original)
            for fld in ls:
                if fld in ('original_x', 'original_y') and not op.startswith('normalize'):
                    ctx.fail('C08.3', f"{op}: the stored original is not written", f"store to {fld}", ls[fld][-1].loc(), mf.fi.qualname, f"{op}:{fld}")
    ctx.floor('C08.2', n, 14, 'paired (series, reference) updates over the ten domain operations')
    # purity / determinism of the callees used by domain operations
    aa = alias(ctx)
    for op in DOMAIN_OPS:
        mf = wm.methods[op]
        for e in mf.calls:
            if e.kind == 'call' and e.data['callee'] is not None:
                cq = e.data['callee'].qualname
                s = aa.summ.get(cq)
                ctx.check(s is not None and not s.mutates, 'C08.2', f"{op}: callee {cq.split('.')[-1]} does not write its array parameters in place",
                          f"writes parameters {sorted(s.mutates) if s else '?'}", e.loc(), mf.fi.qualname, f"{op}:pure:{cq}")
            if e.kind == 'lib' and (e.data['name'].startswith(('numpy.random', 'random.', 'time.', 'os.'))):
                ctx.fail('C08.2', f"{op}: deterministic", f"calls {e.data['name']}", e.loc(), mf.fi.qualname, f"{op}:det:{e.data['name']}")


def _a(r: Rat) -> int:
    (m, c), = r.n.t.items()
    return m[0][0]


def check_frame(ctx, wm: WeaverModel):
    ctx.rule('C08.3', 'frame: the write-set of every reshaping operation (and of every other method that is not a domain operation, restore_original '
                      'excepted) is disjoint from reference_* and original_*; no reshaping operation hands an alias of them to a callee that writes in place')
    ctx.rule('C08.5', 'integral_match reads the reference and stores only y')
    classified = set(DOMAIN_OPS) | set(RESHAPING_OPS) | {'restore_original'}
    for name, mf in wm.methods.items():
        if name in DOMAIN_OPS or name == 'restore_original':
            continue
        if name.startswith('_') and not name.startswith('__'):
            continue        # private helpers are accounted for in their callers (Weaver methods are inlined)
        kind = 'reshaping' if name in RESHAPING_OPS else 'other'
        bad = [e for e in mf.stores if e.data['field'].startswith(('reference_', 'original_'))]
        ctx.check(not bad, 'C08.3', f"{name} ({kind}): does not write the reference or the original",
                  f"stores to {[e.data['field'] for e in bad]}", (bad[0].loc() if bad else mf.fi.loc()), mf.fi.qualname, f"frame:{name}")
        if kind == 'other' and mf.stores:
            ctx.notes.append(f"unclassified method {name} writes {mf.stored_fields()} - treated with the reshaping obligations")
    for op in RESHAPING_OPS:
        if op not in wm.methods:
            raise AnalysisError(f"C08.3: reshaping operation Weaver.{op} not found")
    mf = wm.methods['integral_match']
    flds = mf.stored_fields()
    ctx.check(flds == ['y'], 'C08.5', 'integral_match stores only y', f"stores {flds}", mf.fi.loc(), mf.fi.qualname, 'match-stores')
    reads_ref = any('self.reference_x' in refs_in(e.data['value']) and 'self.reference_y' in refs_in(e.data['value']) for e in mf.stores)
    ctx.check(reads_ref, 'C08.5', 'integral_match matches against the reference series', '', mf.fi.loc(), mf.fi.qualname, 'match-reads')
    # in-place writes reaching reference/original through aliasing (alias classes over all stores in all methods)
    aa = alias(ctx)
    classes = field_alias_classes(ctx, aa)
    written = in_place_reachable_fields(ctx, aa, classes)
    for f in ('reference_x', 'reference_y', 'original_x', 'original_y'):
        hit = written.get(f)
        ctx.check(not hit, 'C08.4', f"no in-place write can reach {f} (directly or through an array it shares memory with)",
                  '; '.join(hit or []), (hit_loc(hit) if hit else wm.init.fi.loc()), WEAVER, f"inplace:{f}")


def hit_loc(hit):
    return hit[0].split(' ')[0] if hit else ''


def field_alias_classes(ctx, aa: AliasAnalysis) -> Dict[str, set]:
    """union-find over Weaver fields and constructor/method parameters: two fields are in one class when some store may make them share memory"""
    parent: Dict[str, str] = {}

    def find(a):
        parent.setdefault(a, a)
        while parent[a] != a:
            parent[a] = parent[parent[a]]
            a = parent[a]
        return a

    def union(a, b):
        ra, rb = find(a), find(b)
        if ra != rb:
            parent[ra] = rb
    for q, s in aa.summ.items():
        if not q.startswith(WEAVER + '.'):
            continue
        m = q.rsplit('.', 1)[1]
        for fld, origs in s.field_stores.items():
            flds = [fld] if fld != '*' else list(GROUPS)
            for o in [o_ for o_ in origs if o_ == 'FIELD:*']:
                for g_ in GROUPS:
                    for fl_ in flds:
                        union('FIELD:' + fl_, 'FIELD:' + g_)
            for o in origs:
                if o == FRESH or o == 'FIELD:*':
                    continue
                if fld == '*':
                    for fl_ in flds:
                        union('FIELD:' + fl_, o if o.startswith('FIELD:') else f"PARAM:{m}:{o[6:]}")
                    continue
                if o.startswith('FIELD:'):
                    union('FIELD:' + fld, o)
                elif o.startswith('PARAM:'):
                    union('FIELD:' + fld, f"PARAM:{m}:{o[6:]}")
    classes: Dict[str, set] = {}
    for a in list(parent):
        classes.setdefault(find(a), set()).add(a)
    out = {}
    for root, members in classes.items():
        for mbr in members:
            out[mbr] = members
    return out


def in_place_reachable_fields(ctx, aa: AliasAnalysis, classes) -> Dict[str, List[str]]:
    """fields (and caller parameters) that some in-place write site inside a Weaver method may reach"""
    out: Dict[str, List[str]] = {}
    for w in aa.writes:
        if not w.func.qualname.startswith(WEAVER + '.'):
            continue
        m = w.func.name
        for o in w.origins:
            key = o if o.startswith('FIELD:') else (f"PARAM:{m}:{o[6:]}" if o.startswith('PARAM:') else None)
            if key is None:
                continue
            members = classes.get(key, {key})
            for mb in members:
                name = mb[6:] if mb.startswith('FIELD:') else mb
                out.setdefault(name, []).append(f"{w.loc()} {w.how} (writes {o})")
    return out


def run(ctx):
    wm = model(ctx)
    check_establish(ctx, wm)
    check_paired(ctx, wm)
    check_frame(ctx, wm)
    from .common import dt_weaver, DT_RULE
    ctx.rule('C08.5', DT_RULE)
    dt_weaver(ctx, 'C08.5', wm, DOMAIN_OPS)
    from . import c17, c07
    c07.check_adaptive_unitfree(ctx)     # 'shifting or scaling commutes with recreate + match': the adaptive windows (default strategy) are unit-free
    c17.check_append(ctx)                # 'the original with exactly those transformations applied': the one domain operation defined in the helpers module
    ctx.rule('C08.4', 'no in-place write site reachable from a Weaver method has the reference or the original in its alias class')
    ctx.notes.append('History quantifier discharged by induction: Inv-R/Inv-W established by C08.1, preserved by C08.2 (domain) and C08.3 (all other methods).')
    ctx.notes.append('NOT DECIDED here: that each transformation is the documented one (C11, C12, C14, C17); the numeric corollary about recreate+match.')
    ctx.trust('callees kept uninterpreted and assumed deterministic functions of their arguments (checked: no randomness / clock / os reachable from domain operations)')
    ctx.exhaustive = True
