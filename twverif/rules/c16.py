"""C16 - smoothing and the spline function respect the smoothing condition (DESIGN 4.16)"""
from __future__ import annotations

import ast

from .. import sym, api
from ..sym import Rat, C
from ..values import Num, Const, Tup, Term, Obj, P, Val, veq, walk_vals, arr_param, term_as_num
from ..model import AnalysisError
from ..symeval import Evaluator
from ..weaver_model import WeaverModel
from .common import show, REPO_RESULT_KIND, S, ModSpec, same, arr_term, targ, unused_params
from .c08 import model, last_stores

PROC = 'traffic_weaver.process.'
SMOOTH = PROC + 'spline_smooth'


def check_spline(ctx):
    ctx.rule('C16.1', 'in spline_smooth the argument bound to splrep\'s parameter `s` (signature binding) is the function\'s s when s is not None - s = 0 '
                      'included: identity test, not truthiness - else len(y)*std(y)^2; x, y bind to splrep\'s x, y; no weights / degree / other options are '
                      'passed; the result is BSpline(*splrep(...))')
    fi = ctx.prog.func(SMOOTH)
    if fi.params()[:3] != ['x', 'y', 's']:
        raise AnalysisError(f"C16.1: spline_smooth signature changed: {fi.params()}")
    L = sym.sym('L')
    x, y = arr_param('x', length=L), arr_param('y', length=L)
    cases = [('s given', S('s')), ('s = 0', Num(C(0))), ('s omitted', Const(None))]
    for tag, sval in cases:
        ev = Evaluator(ctx.prog, opaque_kind=REPO_RESULT_KIND)
        res, st = ev.run_function(fi, args={'x': x, 'y': y, 's': sval})
        if ev.issues:
            raise AnalysisError(f"C16.1: spline_smooth not canonicalisable ({tag}): {ev.issues[:3]}")
        reps = [e for e in ev.events if e.kind == 'lib' and e.data['name'] == 'scipy.interpolate.splrep']
        ctx.check(len(reps) == 1, 'C16.1', f"{tag}: one splrep call", f"{len(reps)} calls; library calls: {[e.data['name'] for e in ev.events if e.kind == 'lib']}",
                  fi.loc(), fi.qualname, f"splrep:{tag}")
        if len(reps) != 1:
            continue
        t = reps[0].data['result']
        sx, sy, ss = targ(t, 'x', 0), targ(t, 'y', 1), targ(t, 's', None)
        if tag == 's omitted':
            want = Num(L * sym.variance_form(y.r, L))
        else:
            want = sval
        ok = isinstance(ss, Num) and ss.length is None and ss.r == want.r
        ctx.check(ok, 'C16.1', f"{tag}: smoothing condition reaching FITPACK", f"splrep(s={show(ss, 200)}); expected {show(want, 200)}", reps[0].loc(),
                  fi.qualname, f"s:{tag}")
        ctx.check(same(sx, x) and same(sy, y), 'C16.1', f"{tag}: splrep fits (x, y)", f"x={show(sx, 80)} y={show(sy, 80)}", reps[0].loc(), fi.qualname, f"xy:{tag}")
        extra = [k for k, v in t.kwargs if k not in ('x', 'y', 's')] + (['positional extras'] if len(t.args) > 0 else [])
        ctx.check(not extra, 'C16.1', f"{tag}: no weights / degree / other options alter the fit", f"extra arguments: {extra}: {show(t, 200)}", reps[0].loc(),
                  fi.qualname, f"opts:{tag}")
        okr = isinstance(res, Term) and res.head == 'lib:scipy.interpolate.BSpline' and len(res.args) == 1 and isinstance(res.args[0], Term) \
            and res.args[0].head == 'star' and veq(res.args[0].args[0], t) and not res.kwargs
        ctx.check(okr, 'C16.1', f"{tag}: returns BSpline(*splrep(...))", show(res, 200), fi.loc(), fi.qualname, f"bspline:{tag}")
        ctx.sample({'rule': 'C16.1', 'case': tag, 's': show(ss, 120)})


def check_weaver(ctx, wm: WeaverModel):
    ctx.rule('C16.2', 'Weaver.smooth(s) stores only y = spline_smooth(self.x, self.y, s=s)(self.x); Weaver.to_function(s=0) has literal default 0, '
                      'returns spline_smooth(self.x, self.y, s=s) on every path and stores nothing')
    mf = wm.methods.get('smooth')
    tf = wm.methods.get('to_function')
    if mf is None or tf is None:
        raise AnalysisError('C16.2: Weaver.smooth / to_function not found')
    ls = last_stores(mf)
    # a field re-assigned the value it already has (self.x = self.x through a shared "apply" helper) is not a write
    ls = {f: es for f, es in ls.items() if not (f in wm.fields and same(es[-1].data['value'], wm.fields[f]))}
    ctx.check(list(ls) == ['y'], 'C16.2', 'smooth writes only y', f"writes {list(ls)}", mf.fi.loc(), mf.fi.qualname, 'smooth-frame')
    v = arr_term(ls['y'][-1].data['value']) if 'y' in ls else None
    ok = isinstance(v, Term) and v.head == 'apply' and len(v.args) == 2 and not v.kwargs and same(v.args[1], wm.fields['x'])
    if ok:
        c = v.args[0]
        ok = isinstance(c, Term) and c.head == 'call:' + SMOOTH and same(c.kw('x'), wm.fields['x']) and same(c.kw('y'), wm.fields['y']) \
            and veq(c.kw('s'), mf.params.get('s'))
    ctx.check(ok, 'C16.2', 'smooth: y <- spline_smooth(self.x, self.y, s=s)(self.x)', show(v, 300), mf.fi.loc(), mf.fi.qualname, 'smooth-value')
    inplace = [e for e in mf.ev.events + tf.ev.events if e.kind == 'store']
    ctx.check(not inplace, 'C16.2', 'smooth / to_function write no sample in place (the smoothed series is exactly the spline evaluated at self.x)',
              f"in-place stores: {[(show(e.data.get('base'), 40), e.loc()) for e in inplace[:3]]}", (inplace[0].loc() if inplace else mf.fi.loc()), mf.fi.qualname, 'smooth-inplace')
    ctx.check(not unused_params(mf), 'C16.2', 'smooth: s is not ignored', f"unused {unused_params(mf)}", mf.fi.loc(), mf.fi.qualname, 'smooth-dropped')
    # to_function
    ctx.check(not tf.stores, 'C16.2', 'to_function stores nothing', f"stores {tf.stored_fields()}", tf.fi.loc(), tf.fi.qualname, 'tf-frame')
    r = tf.result
    ok = isinstance(r, Term) and r.head == 'call:' + SMOOTH and same(r.kw('x'), wm.fields['x']) and same(r.kw('y'), wm.fields['y']) \
        and veq(r.kw('s'), tf.params.get('s'))
    ctx.check(ok, 'C16.2', 'to_function returns spline_smooth(self.x, self.y, s=s) on every path (the current series, nothing cached)', show(r, 300),
              tf.fi.loc(), tf.fi.qualname, 'tf-value')
    touched = [e for m_ in (tf, mf) for e in m_.ev.events if e.kind == 'field' and not isinstance(e.data.get('obj'), Obj)]
    ctx.check(not touched, 'C16.2', 'the fitted spline object is used as built (no attribute of it is re-assigned: extrapolation mode, coefficients, knots)',
              f"{[(e.data.get('field'), e.loc()) for e in touched]}", tf.fi.loc(), tf.fi.qualname, 'tf-untouched')
    a = tf.fi.node.args
    params = tf.fi.params()
    d = dict(zip(params[len(params) - len(a.defaults):], a.defaults)).get('s')
    ctx.check(isinstance(d, ast.Constant) and d.value == 0 and d.value is not None and not isinstance(d.value, bool), 'C16.2',
              'to_function: default s is the literal 0 (interpolating spline)', ast.unparse(d) if d is not None else 'no default', tf.fi.loc(), tf.fi.qualname, 'tf-default')


def run(ctx):
    wm = model(ctx)
    check_spline(ctx)
    check_weaver(ctx, wm)
    from .common import dt_function, dt_weaver, DT_RULE
    ctx.rule('C16.4', DT_RULE)
    dt_function(ctx, 'C16.4', SMOOTH, {'x': 'x', 'y': 'x'})
    dt_weaver(ctx, 'C16.4', wm, ['smooth', 'to_function'])
    ctx.rule('C01.1', 'library references of the smoothing code exist and bind')
    api.check_api(ctx, 'C01.1', [ctx.prog.func(SMOOTH)], floor=2)
    ctx.notes.append('NOT DECIDED: everything FITPACK computes (residual bound, identity for s = 0 and for affine data).')
    ctx.trust("scipy.interpolate.splrep's parameter `s` is the smoothing condition; BSpline(*tck) evaluates the fitted spline")
