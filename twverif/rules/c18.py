"""C18 - every documented dataset is reachable by name and well-formed (DESIGN 4.18); finite tables, enumerated completely"""
from __future__ import annotations

import ast
import fnmatch
import os
import posixpath
import re

from .. import sym
from ..values import Num, Const, Tup, Term, Val, Kw, Gam, veq, walk_vals, arr_param
from ..model import AnalysisError
from ..symeval import Evaluator
from ..datasets_model import (documented_names, analyse_loader, lookup_namespace, lookup_of, unknown_name_outcome, package_data_globs, check_csv, Loader, DS, BASE,
                              LOOKUP, REMOTE_LOADER, RES_LOADER, const_str)
from .common import show, REPO_RESULT_KIND, ModSpec, same, arr_term

_LOADERS = {}


def all_loaders(ctx):
    k = id(ctx.prog)
    if k not in _LOADERS:
        _LOADERS.clear()
        out = {}
        for mname, mi in ctx.prog.modules.items():
            if not mname.startswith(DS) or mname in (BASE, LOOKUP):
                continue
            public = lookup_namespace(ctx.prog, LOOKUP)
            for fi in mi.functions.values():
                if fi.name.startswith('_') and not any(f is fi for f in public.values()):
                    continue        # private helpers are looked through (inlined) from the loaders that use them
                ld = analyse_loader(ctx.prog, fi)
                if ld is not None:
                    out[fi.qualname] = ld
        _LOADERS[k] = out
    return _LOADERS[k]


def variants(name: str):
    return sorted({name, name.replace('-', '_'), name.replace('_', '-')})


def check_reachability(ctx):
    ctx.rule('C18.1', 'for every name in the shipped description tables (and its -/_ spelling variants) the attribute name load_dataset computes '
                      '(its own prefix rule and normalisation, evaluated symbolically on the literal name) is bound in the module it looks into, to a '
                      'loader that accepts unpack_dataset_columns')
    docs = documented_names(ctx.prog)
    total = sum(len(v) for v in docs.values())
    ctx.floor('C18.1', total, 95, 'documented dataset names')
    ctx.floor('C18.1', len(docs), 4, 'description tables')
    loaders = all_loaders(ctx)
    ns_cache = {}
    seen_names = set()
    for fn, names in docs.items():
        for name in names:
            if name in seen_names:
                ctx.fail('C18.1', f"documented name {name} is unique", f"listed twice (second time in {fn})", f"datasets/data_description/{fn}", '', f"dup:{name}")
            seen_names.add(name)
            funcs = set()
            for v in variants(name):
                targets, ev, res = lookup_of(ctx.prog, v)
                if ev.issues:
                    raise AnalysisError(f"C18.1: load_dataset not canonicalisable for '{v}': {ev.issues[:2]}")
                if len(targets) != 1:
                    opaque = [e for e in ev.events if e.kind == 'apply' and isinstance(e.data.get('fn'), Term) and e.data['fn'].head not in ('getattr',)]
                    ctx.check(None if (not targets and opaque) else False, 'C18.1', f"{v}: load_dataset looks up one attribute",
                              f"lookups: {sorted(targets)}" + (f"; the loader is obtained by {show(opaque[0].data['fn'], 120)}: lookup idiom not recognised" if opaque else ''),
                              BASE, BASE + '.load_dataset', f"lookup:{v}")
                    continue
                (mod, attr), = targets
                if mod not in ns_cache:
                    ns_cache[mod] = lookup_namespace(ctx.prog, mod)
                fi = ns_cache[mod].get(attr)
                ok = fi is not None and fi.qualname in loaders
                okp = ok and (fi.node.args.kwarg is not None or 'unpack_dataset_columns' in fi.params())
                ctx.check(ok and okp, 'C18.1', f"'{v}' ({fn}) resolves to a loader",
                          (f"load_dataset computes {mod}.{attr}, which is not bound in that module" if fi is None else
                           f"{mod}.{attr} is bound to {fi.qualname}, which is not a dataset loader accepting unpack_dataset_columns"),
                          ctx.prog.modules[mod].relpath if mod in ctx.prog.modules else mod, BASE + '.load_dataset', f"name:{v}")
                if fi is not None:
                    funcs.add(fi.qualname)
                # the loader is called with the caller's unpack flag
                calls = [e for e in ev.events if e.kind == 'apply']
                okf = any(isinstance(e.data['kw'].get('unpack_dataset_columns'), Term) and veq(e.data['kw']['unpack_dataset_columns'].args[0], Const('unpack_dataset_columns'))
                          for e in calls)
                if v == name:
                    ctx.check(okf, 'C18.1', f"'{v}': the unpack flag is forwarded to the loader", '', BASE, BASE + '.load_dataset', f"unpack:{v}")
            ctx.check(len(funcs) <= 1, 'C18.1', f"'{name}': all spelling variants reach the same loader", f"{sorted(funcs)}", BASE, BASE + '.load_dataset', f"variants:{name}")
    ctx.sample({'rule': 'C18.1', 'tables': {k: len(v) for k, v in docs.items()}, 'first': [v[0] for v in docs.values() if v]})
    # every loader is documented (no orphan, so that counts agree)
    documented_funcs = set()
    return docs


# remote file names that do not begin with their dataset's name on the pinned tree (each confirmed by reading the source)
OWN_FILE_EXCEPTIONS = {'fetch_ams_ix_isp_monthly': "the published file is spelled 'aams-ix-isp_monthly_...' upstream"}


def check_remote(ctx):
    ctx.rule('C18.3', 'every remote loader passes literal url / filename / 64-hex checksum, dataset_filename and dataset_folder; urls, checksums, temp '
                      'file names and normalised cache slots (folder, filename) are pairwise distinct; validate_checksum is not disabled; **kwargs forwarded; '
                      'the remote file name begins with the dataset\'s own name')
    loaders = [l for l in all_loaders(ctx).values() if l.kind == 'remote']
    ctx.floor('C18.3', len(loaders), 76, 'remote loaders')
    seen = {'url': {}, 'checksum': {}, 'slot': {}, 'temp': {}}
    for ld in sorted(loaders, key=lambda l: l.fi.qualname):
        q = ld.fi.qualname
        nm = ld.fi.name
        lits = {'url': ld.url, 'filename': ld.filename, 'checksum': ld.checksum, 'dataset_filename': ld.dataset_filename, 'dataset_folder': ld.dataset_folder}
        missing = [k for k, v in lits.items() if not v]
        if missing and not ld.problems:
            # the file description is computed in a way the evaluator does not resolve to literals: which file the loader names is not known
            ctx.unknown('C18.3', f"{nm}: literal descriptor", f"not resolved to literals: {missing}", ld.fi.loc(), q, f"desc:{nm}")
            continue
        ctx.check(not missing and not ld.problems, 'C18.3', f"{nm}: literal descriptor", f"not literal / missing: {missing} {ld.problems}", ld.fi.loc(), q, f"desc:{nm}")
        if missing:
            continue
        ctx.check(re.fullmatch(r'[0-9a-f]{64}', ld.checksum) is not None, 'C18.3', f"{nm}: checksum is 64 lowercase hex digits", ld.checksum, ld.fi.loc(), q, f"hex:{nm}")
        ctx.check(re.match(r'https://', ld.url) is not None, 'C18.3', f"{nm}: url is an https url", ld.url, ld.fi.loc(), q, f"url:{nm}")
        vc = ld.validate_checksum
        ctx.check(isinstance(vc, Const) and vc.v is True, 'C18.3', f"{nm}: checksum validation is on", show(vc, 60), ld.fi.loc(), q, f"validate:{nm}")
        ctx.check(ld.forwards_kwargs, 'C18.3', f"{nm}: forwards **kwargs to the remote loader", '', ld.fi.loc(), q, f"kwargs:{nm}")
        # its own file: the remote file a loader names carries the dataset's name (75 of the 76 loaders; the exception is frozen below, confirmed by reading)
        def _n(s_):
            return re.sub(r'[-_]', '-', s_.lower().lstrip('./'))
        own = _n(nm[len('fetch_'):]) if nm.startswith('fetch_') else None
        if own is not None and nm not in OWN_FILE_EXCEPTIONS:
            ctx.check(_n(ld.filename).startswith(own), 'C18.3', f"{nm}: the remote file it names is its own (the file name begins with the dataset name, "
                                                               f"separators - / _ not distinguished)", f"names {ld.filename}", ld.fi.loc(), q, f"own-file:{nm}")
        slot = (posixpath.normpath(ld.dataset_folder), posixpath.normpath(ld.dataset_filename))
        bad_slot = '..' in slot[1].split('/') or slot[1].startswith('/') or slot[1] in ('', '.')
        ctx.check(not bad_slot, 'C18.3', f"{nm}: cache slot stays inside its folder", str(slot), ld.fi.loc(), q, f"slotpath:{nm}")
        for what, key in (('url', ld.url), ('checksum', ld.checksum), ('slot', slot), ('temp', (slot[0], ld.filename))):
            other = seen[what].get(key)
            ctx.check(other is None, 'C18.3', f"{nm}: {what} is not shared with another dataset",
                      f"{what} {key} is also used by {other} (whichever loads second reads / overwrites the other's data)", ld.fi.loc(), q, f"{what}:{nm}")
            seen[what].setdefault(key, nm)
        # a cache slot must not collide with another loader's temp file name either
    ctx.sample({'rule': 'C18.3', 'loaders': len(loaders), 'example': {'name': loaders[0].fi.name, 'slot': (loaders[0].dataset_folder, loaders[0].dataset_filename)}})
    ctx.exhaustive = True


def check_bundled(ctx):
    ctx.rule('C18.4', 'every bundled loader references a CSV that exists under the package data directory, is matched by a package-data glob of '
                      'pyproject.toml, and parses as >= 2 rows of two finite floats with strictly increasing first column; '
                      'load_csv_dataset_from_resources returns the parsed array, or its two columns under the flag, freshly parsed on every call')
    loaders = [l for l in all_loaders(ctx).values() if l.kind == 'bundled']
    ctx.floor('C18.4', len(loaders), 19, 'bundled loaders')
    globs = package_data_globs(ctx.prog)
    for ld in sorted(loaders, key=lambda l: l.fi.qualname):
        nm, q = ld.fi.name, ld.fi.qualname
        ctx.check(ld.resource is not None and not ld.problems and ld.forwards_kwargs, 'C18.4', f"{nm}: literal resource path, kwargs forwarded",
                  f"resource {ld.resource}; {ld.problems}", ld.fi.loc(), q, f"res:{nm}")
        if ld.resource is None:
            continue
        module = ld.dataset_folder or 'traffic_weaver.datasets.data'
        d = os.path.join(ctx.prog.src, *module.split('.'))
        path = os.path.join(d, *ld.resource.split('/'))
        ctx.check(os.path.isfile(path), 'C18.4', f"{nm}: data file exists", path, ld.fi.loc(), q, f"exists:{nm}")
        sub = module + ('.' + '.'.join(ld.resource.split('/')[:-1]) if '/' in ld.resource else '')
        pats = globs.get(sub, [])
        ctx.check(any(fnmatch.fnmatch(os.path.basename(path), p) for p in pats), 'C18.4', f"{nm}: data file is shipped (package-data glob)",
                  f"package {sub}: globs {pats}", 'pyproject.toml', q, f"glob:{nm}")
        if os.path.isfile(path):
            ok, why, rows = check_csv(path)
            ctx.check(ok, 'C18.4', f"{nm}: CSV is well-formed ({rows} rows)", why, os.path.relpath(path, ctx.prog.root), q, f"csv:{nm}")
    # resource loader
    fi = ctx.prog.func(RES_LOADER)
    for flag in (True, False):
        ev = Evaluator(ctx.prog, inline=lambda f: True, opaque_kind=REPO_RESULT_KIND)
        res, st = ev.run_function(fi, args={'file_name': Term('param', (Const('file_name'),)), 'unpack_dataset_columns': Const(flag)})
        loads = [e for e in ev.events if e.kind == 'lib' and e.data['name'] == 'numpy.loadtxt']
        ok = len(loads) == 1
        if ok:
            arr = loads[0].data['result']
            if flag:
                ok = isinstance(res, Tup) and len(res.items) == 2 and all(isinstance(arr_term(i), Term) and arr_term(i).head == 'col' and
                                                                          veq(arr_term(i).args[0], arr) for i in res.items) \
                    and [arr_term(i).args[1].const() for i in res.items] == [0, 1]
            else:
                ok = veq(res, arr)
            fname = loads[0].data['result'].kw('fname') if isinstance(arr, Term) else None
            okp = any(isinstance(t, Term) and t.head == 'param' and veq(t.args[0], Const('file_name')) for t in walk_vals(fname)) if fname is not None else False
            ok = ok and okp
        ctx.check(ok, 'C18.4', f"load_csv_dataset_from_resources (unpack={flag}) returns the freshly parsed "
                               + ('two columns' if flag else 'array'), show(res, 200), fi.loc(), fi.qualname, f"resloader:{flag}")
    memo = [d for d in fi.node.decorator_list]
    ctx.check(not memo, 'C18.4', 'load_csv_dataset_from_resources is not memoised (each load returns its own array)',
              f"decorators: {[ast.unparse(d) for d in memo]}", fi.loc(), fi.qualname, 'memo')


def check_data_home(ctx):
    ctx.rule('C18.5', 'get_data_home(None) reads TRAFFIC_WEAVER_DATA from the environment at call time with the documented default; the cache path of a '
                      'remote load is join(join(get_data_home(data_home), dataset_folder), dataset_filename)')
    fi = ctx.prog.func(BASE + '.get_data_home')
    ev = Evaluator(ctx.prog, inline=lambda f: True, opaque_kind=REPO_RESULT_KIND)
    res, st = ev.run_function(fi, args={fi.params()[0]: Const(None)})
    reads = [e for e in ev.events if e.kind == 'method' and e.data['name'] == 'get' and any(isinstance(p, Const) and p.v == 'TRAFFIC_WEAVER_DATA' for p in e.data['pos'])]
    reads += [e for e in ev.events if e.kind == 'lib' and e.data['name'] in ('os.getenv', 'os.environ.get') and
              any(isinstance(p, Const) and p.v == 'TRAFFIC_WEAVER_DATA' for p in e.data['pos'])]
    ok = len(reads) >= 1 and all(e.func is not None for e in reads)
    ctx.check(ok, 'C18.5', 'get_data_home reads TRAFFIC_WEAVER_DATA inside the function (at call time, not at import time)',
              f"environment reads: {[(e.loc(), e.func.name if e.func else 'module level') for e in reads]}", fi.loc(), fi.qualname, 'env')
    sp = ModSpec(ctx.prog, BASE, {})
    want = sp.val('path.expanduser(environ.get("TRAFFIC_WEAVER_DATA", path.join("~", ".traffic-weaver-data")))')
    ctx.check(veq(res, want), 'C18.5', 'get_data_home(None) == expanduser(environ.get("TRAFFIC_WEAVER_DATA", "~/.traffic-weaver-data"))',
              f"code: {show(res, 200)}\nspec: {show(want, 200)}", fi.loc(), fi.qualname, 'value')
    res2, _ = Evaluator(ctx.prog, inline=lambda f: True, opaque_kind=REPO_RESULT_KIND).run_function(fi, args={fi.params()[0]: Const('/explicit/home')})
    okp = any(isinstance(t, Const) and t.v == '/explicit/home' for t in walk_vals(res2)) and \
        not any(isinstance(t, Const) and t.v == 'TRAFFIC_WEAVER_DATA' for t in walk_vals(res2))
    ctx.check(okp, 'C18.5', 'an explicit data_home takes precedence over the environment', show(res2, 200), fi.loc(), fi.qualname, 'explicit')
    # cache path
    rfi = ctx.prog.func(REMOTE_LOADER)
    ev = Evaluator(ctx.prog, inline=lambda f: f is not fi, opaque_kind=REPO_RESULT_KIND)
    args = {p: Term('param', (Const(p),)) for p in rfi.params()}
    ev.run_function(rfi, args=args)
    ex = [e for e in ev.events if e.kind == 'lib' and e.data['name'] == 'os.path.exists']
    sp = ModSpec(ctx.prog, BASE, {k: v for k, v in args.items()})
    want = sp.val('path.join(path.join(get_data_home(data_home), dataset_folder), dataset_filename)')
    ok = len(ex) >= 1 and veq(ex[0].data['pos'][0] if ex[0].data['pos'] else None, want)
    ctx.check(ok, 'C18.5', 'the cache slot tested for availability is <data home>/<dataset_folder>/<dataset_filename>',
              f"code: {show(ex[0].data['pos'][0], 200) if ex and ex[0].data['pos'] else None}\nspec: {show(want, 200)}", rfi.loc(), rfi.qualname, 'slot')


def check_remote_unpack(ctx):
    """the unpack flag of a remote dataset is honoured on both paths (fresh download, cache hit): the two columns of the same array"""
    ctx.rule('C18.6', 'load_csv_dataset_from_remote returns the parsed (n, 2) array, or its two columns under unpack_dataset_columns, on the download path and on '
                      'the cache-hit path alike')
    from . import c19
    for avail, path_name, source in ((False, 'fresh download', 'numpy.loadtxt'), (True, 'cache hit', 'pickle.load')):
        for flag in (False, True):
            fi, ev, res, args = c19.evaluate(ctx, {'download_if_missing': Const(True), 'download_even_if_available': Const(False), 'validate_checksum': Const(True),
                                                   'unpack_dataset_columns': Const(flag)}, available=avail)
            src = [e for e in ev.events if e.kind == 'lib' and e.data['name'] == source]
            ok = len(src) == 1
            if ok:
                arr = src[0].data['result']
                if flag:
                    ok = isinstance(res, Tup) and len(res.items) == 2 and all(isinstance(arr_term(i), Term) and arr_term(i).head == 'col' and
                                                                              veq(arr_term(i).args[0], arr) for i in res.items) \
                        and [arr_term(i).args[1].const() for i in res.items] == [0, 1]
                else:
                    ok = veq(res, arr) or veq(arr_term(res), arr)
            ctx.check(ok, 'C18.6', f"remote dataset, {path_name}, unpack={flag}: returns " + ('the two columns' if flag else 'the array'), show(res, 200), fi.loc(),
                      fi.qualname, f"remote-unpack:{avail}:{flag}")


def run(ctx):
    check_reachability(ctx)
    check_remote(ctx)
    check_bundled(ctx)
    check_data_home(ctx)
    check_remote_unpack(ctx)
    ctx.rule('C18.2', 'unknown names raise ValueError (the failed attribute lookup is converted; C20.1) and no documented name relies on that path')
    lfi = ctx.prog.func(BASE + '.load_dataset')
    raises, returned, uev = unknown_name_outcome(ctx.prog)
    ok = bool(raises) and all(r == 'ValueError' for r in raises) and not returned
    from ..datasets_model import dynamic_lookup_namespaces
    dyn = dynamic_lookup_namespaces(ctx.prog, uev)
    if not ok and dyn:
        ctx.unknown('C18.2', 'load_dataset: unknown name -> ValueError',
                    f"the namespace of {dyn} is built at import time: which names it binds is not decidable from the source text", lfi.loc(), lfi.qualname, 'unknown')
    else:
        ctx.check(ok, 'C18.2', 'load_dataset: unknown name -> ValueError', f"raises {raises}; returns {returned}", lfi.loc(), lfi.qualname, 'unknown')
    ctx.notes.append('NOT DECIDED: the content of remote files; what a download returns.')
    ctx.trust('Markdown tables in data_description/*.md are the documented names', 'setuptools package-data glob semantics (fnmatch on the file name)')
