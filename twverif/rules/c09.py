"""C09 - Weaver state stays well-formed; caller data and the original are never corrupted (DESIGN 4.9)"""
from __future__ import annotations

import ast
from typing import Dict, List, Optional, Tuple

from .. import sym
from ..sym import Rat, C
from ..values import Num, Const, Tup, Term, Obj, P, Val, Gam, Fn, veq, walk_vals, arr_param, term_as_num, Ref
from ..model import AnalysisError, FuncInfo
from ..symeval import Evaluator
from ..weaver_model import WeaverModel, DOMAIN_OPS, RESHAPING_OPS, SERIES_FIELDS, rename_refs, refs_in, WEAVER
from ..alias import AliasAnalysis, FRESH
from .common import show, REPO_RESULT_KIND, S
from .c08 import model, alias, field_alias_classes, in_place_reachable_fields, last_stores
from .c04 import kind_of, concrete_strategies, as_array, resolve_len
from ..rfa_model import strategy

ARRAY_NAMES = {'x', 'y', 'a', 'x_ref', 'y_ref', 'new_x', 'lookup'}
_FACTS: Dict[tuple, list] = {}


DISPATCH_LITERALS = {
    'method': ['linear', 'constant', 'cubic', 'spline'],
    'integral_method': ['trapezoid', 'rectangle'], 'target_function_integral_method': ['trapezoid', 'rectangle'],
    'reference_function_integral_method': ['trapezoid', 'rectangle'], 'fixed_points_finding_strategy': ['closest', 'lower', 'higher'],
    'strategy': ['closest', 'lower', 'higher'], 'direction': ['both', 'left', 'right'],
}


def callee_returns(prog, fi: FuncInfo) -> List[Tuple[tuple, Val]]:
    """(guard, value) of every return of fi (implicit None included), evaluated fully inlined with array parameters of one
    common symbolic length; name-dispatch parameters are specialised to each documented literal (any dispatch idiom)"""
    key = (id(prog), id(sym.ATOMS), fi.qualname)
    if key in _FACTS:
        return _FACTS[key]
    import itertools
    L = sym.sym('L')
    a = fi.node.args
    allp = [p for p in fi.params() + [x.arg for x in a.kwonlyargs] if p != 'self']
    disp = [p for p in allp if p in DISPATCH_LITERALS and not (p == 'method' and not fi.qualname.endswith('process.interpolate') and not fi.qualname.endswith('.integral'))]
    if fi.qualname.endswith('sorted_array_utils.integral'):
        disp = ['method']
    combos = list(itertools.product(*[(DISPATCH_LITERALS[p] if not fi.qualname.endswith('sorted_array_utils.integral') else ['trapezoid', 'rectangle']) for p in disp])) or [()]
    if len(combos) > 12:
        combos = combos[:12]
    out, raises_all, evs = [], [], []
    # one more evaluation per dispatch parameter with a name outside its table: what the callee does for an unknown name (it has to raise; a return - e.g. an implicit None - is recorded like any other)
    unknown_combos = [tuple('__unknown__' if j == i else c for j, c in enumerate(combos[0])) for i in range(len(disp))] if disp else []
    for combo in combos + unknown_combos:
        args: Dict[str, Val] = {}
        for p in allp:
            if p in disp:
                args[p] = Const(combo[disp.index(p)])
            elif p in ('x_ref', 'y_ref'):
                args[p] = arr_param('in:' + p, length=sym.sym('Lref'))
            elif p == 'new_x':
                args[p] = arr_param('in:' + p, length=sym.sym('Lnew'))
            elif p in ARRAY_NAMES:
                args[p] = arr_param('in:' + p, length=L)
            elif p in ('fun', 'method'):
                args[p] = Term('param', (Const(p),))
            elif p in ('fixed_points_in_x', 'fixed_points_indices_in_x', 's', 'left', 'snr'):
                args[p] = Const(None) if p != 'snr' else Num(sym.sym('in:snr'))
            else:
                args[p] = Num(sym.sym('in:' + p))
        star = Term('param', (Const('**' + a.kwarg.arg),), kind='dict') if a.kwarg else None
        ev = Evaluator(prog, opaque_kind=REPO_RESULT_KIND, max_depth=10)
        res, st = ev.run_function(fi, args=args, star_kwargs=star)
        for e in ev.events:
            if e.func is fi and e.kind == 'return':
                out.append((e.guard, e.data['value']))
            elif e.kind == 'fallthrough' and e.data.get('func') is fi:
                out.append((e.guard, Const(None)))
        raises_all += [e for e in ev.events if e.kind == 'raise']
        evs.append(ev)
    _FACTS[key] = out
    _RAISES[key] = raises_all
    _EVS[key] = evs[0]
    return out


def _top_level(ev, e, fi) -> bool:
    return True


_RAISES: Dict[tuple, list] = {}
_EVS: Dict[tuple, Evaluator] = {}


def callee_raises(prog, fi: FuncInfo):
    callee_returns(prog, fi)
    return _RAISES[(id(prog), id(sym.ATOMS), fi.qualname)]


def callee_eval(prog, fi: FuncInfo) -> Evaluator:
    callee_returns(prog, fi)
    return _EVS[(id(prog), id(sym.ATOMS), fi.qualname)]


def _top_level(ev, e, fi) -> bool:
    return True


def positions(v: Val, n: int) -> List[Val]:
    if isinstance(v, Tup) and len(v.items) == n:
        return v.items
    if isinstance(v, Gam):
        a, b = positions(v.a, n), positions(v.b, n)
        return [Gam(v.pred, x, y) for x, y in zip(a, b)]
    return [Term('item', (v, Const(i))) for i in range(n)]


def kinds_of_store(ctx, wm: WeaverModel, value: Val) -> List[Tuple[str, Optional[Rat], str]]:
    """possible (kind, length, why) of a value stored into a series field"""
    v = value
    if isinstance(v, Gam):
        return kinds_of_store(ctx, wm, v.a) + kinds_of_store(ctx, wm, v.b)
    if isinstance(v, Num):
        if v.length is None:
            return [('scalar', None, show(v, 80))]
        # opaque array wrappers
        from .c01 import _arr
        t = _arr(v)
        if t is not v and isinstance(t, Term):
            return kinds_of_store(ctx, wm, t)
        return [(v.kind, v.length, 'element-wise expression')]
    if isinstance(v, Const):
        return [('None' if v.v is None else type(v.v).__name__, None, 'constant')]
    if isinstance(v, Tup):
        return [(v.kind, C(len(v.items)), 'display')]
    if isinstance(v, Term):
        if v.head == 'item' and isinstance(v.args[0], Term) and v.args[0].head.startswith('call:') and isinstance(v.args[1], Const):
            call, pos = v.args[0], v.args[1].v
            fi = ctx.prog.func(call.head[5:])
            out = []
            for guard, rv in callee_returns(ctx.prog, fi):
                if isinstance(rv, Tup) and pos < len(rv.items):
                    for k, ln, why in kinds_of_store(ctx, wm, rv.items[pos]):
                        out.append((k, map_len(ln, call), f"{fi.name} return[{pos}]: {why}"))
                else:
                    out.append((kind_of(rv) + '[not a tuple]', None, f"{fi.name} returns {show(rv, 60)}"))
            return out or [('unknown', None, f"{fi.name} has no return")]
        if v.head.startswith('call:'):
            fi = ctx.prog.func(v.head[5:])
            out = []
            for guard, rv in callee_returns(ctx.prog, fi):
                for k, ln, why in kinds_of_store(ctx, wm, rv):
                    out.append((k, map_len(ln, v), f"{fi.name}: {why}"))
            return out or [('unknown', None, f"{fi.name} has no return")]
        if v.head == 'item' and isinstance(v.args[0], Term) and v.args[0].head == 'apply':
            # rfa_class(...).rfa(): all concrete strategies (C04.1 decides their kinds)
            inner = v.args[0]
            if any(isinstance(t, Term) and t.head == 'param' and veq(t.args[0], Const('rfa_class')) for t in walk_vals(inner)):
                pos = v.args[1].v if isinstance(v.args[1], Const) else 0
                out = []
                for ci in concrete_strategies(ctx.prog):
                    st = strategy(ctx.prog, ci.name)
                    if any(isinstance(v_, Term) and v_.head == 'param' for v_ in st.init_fields.values()):
                        continue     # generic base with a user-supplied sampling function: C04.5's concern, not a built-in strategy
                    r = st.result
                    if isinstance(r, Tup) and len(r.items) == 2:
                        arr = as_array(r.items[pos])
                        ln = resolve_len(arr.length, st.m) if arr is not None else None
                        if ln is not None:
                            ln = sym.subst(ln, {_a(st.m): wm.Lw, _a(st.n): sym.sym('arg:n')})
                        out.append((kind_of(r.items[pos]), ln, f"{ci.name}.rfa()[{pos}]"))
                    else:
                        out.append(('unknown', None, f"{ci.name}.rfa() is not a pair"))
                return out
        if v.head == 'apply' and len(v.args) == 2:
            ln = term_as_num(v, True).length
            return [('ndarray', ln, 'spline evaluated on an array')]
        if v.head == 'slice_of':
            base = v.args[0]
            return [(getattr(base, 'kind', 'unknown'), None, 'slice')]
        k = v.kind
        ln = term_as_num(v, True, k).length if k in ('ndarray', 'list') else None
        return [(k, ln, str(v)[:60])]
    return [('unknown', None, str(v)[:60])]


def _a(r: Rat) -> int:
    (m, c), = r.n.t.items()
    return m[0][0]


def map_len(ln: Optional[Rat], call: Term) -> Optional[Rat]:
    """express a callee-side symbolic extent in terms of the actual arguments of this call"""
    if ln is None:
        return None
    mapping = {}

    def actual_len(names):
        for nm in names:
            v = call.kw(nm)
            if isinstance(v, Num) and v.length is not None:
                return v.length
            if isinstance(v, Term) and v.kind in ('ndarray', 'list'):
                return term_as_num(v, True, v.kind).length
        return None
    for symname, names in (('L', ['x', 'y', 'a']), ('Lnew', ['new_x']), ('Lref', ['x_ref', 'y_ref'])):
        al = actual_len(names)
        if al is not None:
            mapping[_a(sym.sym(symname))] = al
    return sym.subst(ln, mapping) if mapping else ln


def variants(wm: WeaverModel):
    """method evaluations incl. the argument variants that select different paths"""
    out = []
    for name, mf in wm.methods.items():
        out.append((name, mf))
    it = wm.cls.methods.get('interpolate')
    if it is not None:
        out.append(('interpolate[n]', wm.evaluate(it, overrides={'new_x': Const(None)})))
    return out


def check_kinds_lengths(ctx, wm: WeaverModel):
    ctx.rule('C09.3', 'every store to x, y, reference_*, original_* in every method assigns an ndarray (container-kind inference through callee returns, '
                      'all return paths, implicit None included; strategies via C04.1)')
    ctx.rule('C09.4', 'after every method x and y have the same symbolic extent (given they had before)')
    n = 0
    allv = variants(wm) + [('__init__', wm.init), ('__init__[x=None]', wm.init_xnone)]
    for name, mf in allv:
        if mf.issues:
            raise AnalysisError(f"C09: Weaver.{name} not canonicalisable: {mf.issues[:3]}")
        finals: Dict[str, List] = {}
        for e in mf.stores:
            f = e.data['field']
            if f not in SERIES_FIELDS:
                continue
            ks = kinds_of_store(ctx, wm, e.data['value'])
            finals[f] = ks
            n += 1
            bad = [(k, why) for k, ln, why in ks if k != 'ndarray']
            unk = [(k, why) for k, why in bad if k in ('unknown', 'mixed')]
            if unk and len(unk) == len(bad):
                ctx.unknown('C09.3', f"{name}: kind of the value stored to {f}", f"cannot infer: {unk[:3]}", e.loc(), mf.fi.qualname, f"{name}:{f}")
                continue
            ctx.check(not bad, 'C09.3', f"{name}: self.{f} receives an ndarray on every path",
                      f"possible kinds: {sorted(set(k for k, _ in bad))}: " + '; '.join(f"{k} <- {why}" for k, why in bad[:4]) + f"\nvalue: {show(e.data['value'], 200)}",
                      e.loc(), mf.fi.qualname, f"{name}:{f}")
        # equal lengths
        if name.startswith('__init__'):
            lx = _one_len(finals.get('x'))
            ly = _one_len(finals.get('y'))
        else:
            lx = _one_len(finals.get('x')) if 'x' in finals else [wm.Lw]
            ly = _one_len(finals.get('y')) if 'y' in finals else [wm.Lw]
        if 'x' in finals or 'y' in finals:
            if lx is None or ly is None:
                ctx.unknown('C09.4', f"{name}: extents of x and y", f"cannot derive a symbolic extent (x: {finals.get('x')}, y: {finals.get('y')})",
                            mf.fi.loc(), mf.fi.qualname, f"{name}:len")
            else:
                ok = all(any(a == b for b in ly) for a in lx) and all(any(a == b for a in lx) for b in ly)
                opaque = [r for r in lx + ly if any(sym.ATOMS.head(t) == 'Len' and isinstance(sym.ATOMS.args(t)[0], Ref) and sym.ATOMS.args(t)[0].term is not None
                                                    for t in sym.all_atoms(r))]
                if not ok and opaque and not name.startswith('__init__'):
                    ctx.unknown('C09.4', f"{name}: extents of x and y", f"an extent is not derivable: {[sym.show(r)[:100] for r in opaque[:2]]}", mf.fi.loc(), mf.fi.qualname,
                                f"{name}:len")
                    continue
                if name.startswith('__init__') and not ok:
                    # the length guard of the constructor makes len(x) == len(y)
                    ok = any(_len_guard(g) for e in mf.stores for g in e.guard)
                ctx.check(ok, 'C09.4', f"{name}: x and y end with equal extents",
                          f"x: {[sym.show(r)[:80] for r in lx]}; y: {[sym.show(r)[:80] for r in ly]}", mf.fi.loc(), mf.fi.qualname, f"{name}:len")
    ctx.floor('C09.3', n, 40, 'series-field stores')


def _len_guard(g) -> bool:
    return isinstance(g, P) and g.op == '==' and all(isinstance(a, Num) for a in g.args)


def _one_len(ks):
    if not ks:
        return None
    out = []
    for k, ln, why in ks:
        if ln is None:
            return None
        if not any(ln == o for o in out):
            out.append(ln)
    return out


def check_aliasing(ctx, wm: WeaverModel):
    ctx.rule('C09.1', 'no in-place write site reachable from a Weaver method (through callee summaries) has in its alias class a parameter of a Weaver '
                      'entry point (caller-owned array) - alias/freshness analysis with the written library table; positive fixture analysed on every run')
    ctx.rule('C09.2', 'the stored original is assigned only by __init__ (fresh copies) and normalize_* (by design); no in-place write reaches it; '
                      'restore_original stores fresh copies into x, y, reference_x, reference_y')
    aa = alias(ctx)
    classes = field_alias_classes(ctx, aa)
    written = in_place_reachable_fields(ctx, aa, classes)
    caller = {k: v for k, v in written.items() if k.startswith('PARAM:')}
    sites = [w for w in aa.writes]
    ctx.floor('C09.1', len(sites), 15, 'in-place write sites in the package')
    for w in sites:
        pure = all(o == FRESH or o.startswith('FIELD:') and not w.func.qualname.startswith(WEAVER) for o in w.origins) or w.origins <= {FRESH}
        ctx.sample({'rule': 'C09.1', 'site': w.loc(), 'function': w.func.name, 'origins': sorted(w.origins), 'how': w.how}) if len(ctx.samples) < 12 else None
    for name, hits in sorted(caller.items()):
        ctx.fail('C09.1', f"caller array {name.split(':', 1)[1]} is never written through", '; '.join(hits[:3]), hits[0].split(' ')[0], WEAVER,
                 f"writethrough:{name}")
    # fields that alias caller arrays and are written in place
    for fld in ('x', 'y'):
        members = classes.get('FIELD:' + fld, {'FIELD:' + fld})
        caller_members = [m for m in members if m.startswith('PARAM:')]
        hit = written.get(fld)
        ctx.check(not (hit and caller_members), 'C09.1', f"no in-place write reaches self.{fld} while it may share memory with a caller array",
                  f"self.{fld} may alias {caller_members}; writes: {'; '.join(hit or [])[:300]}", (hit[0].split(' ')[0] if hit else wm.init.fi.loc()),
                  WEAVER, f"inplace:{fld}")
    # write sites in library functions reached with Weaver fields: every parameter-mutating callee called from a Weaver method
    for q, s in aa.summ.items():
        if q.startswith(WEAVER + '.') and s.self_mutated_fields:
            for fld in sorted(s.self_mutated_fields):
                members = classes.get('FIELD:' + fld, {'FIELD:' + fld})
                caller_members = sorted(m for m in members if m.startswith('PARAM:'))
                others = sorted(m for m in members if m.startswith('FIELD:') and m != 'FIELD:' + fld)
                ctx.check(not caller_members, 'C09.1', f"{q.rsplit('.', 1)[1]}: in-place write into self.{fld} cannot reach a caller array",
                          f"self.{fld} may share memory with {caller_members}", ctx.prog.func(q).loc(), q, f"mut:{q}:{fld}")
    # fixture: the pattern must be alive
    fixture_alive(ctx)
    # original
    for name, mf in list(wm.methods.items()):
        st = [e for e in mf.stores if e.data['field'].startswith('original_')]
        allowed = name.startswith('normalize_')
        ctx.check(not st or allowed, 'C09.2', f"{name}: does not assign the stored original", f"assigns {[e.data['field'] for e in st]}",
                  (st[0].loc() if st else mf.fi.loc()), mf.fi.qualname, f"orig:{name}")
    for f in ('original_x', 'original_y'):
        hit = written.get(f)
        ctx.check(not hit, 'C09.2', f"no in-place write can reach {f}", '; '.join(hit or [])[:300], (hit[0].split(' ')[0] if hit else wm.init.fi.loc()),
                  WEAVER, f"inplace:{f}")
    s = aa.summ.get(WEAVER + '.__init__')
    for f in ('original_x', 'original_y'):
        o = s.field_stores.get(f, set())
        if not o:
            # the memory analysis sees no assignment to the field in the constructor: it is made through something the analysis does not follow
            # (a property setter, setattr, ...)
            ctx.unknown('C09.2', f"__init__: {f} is a fresh copy", 'no direct assignment to the field found in the constructor: what it receives is not known',
                        wm.init.fi.loc(), wm.init.fi.qualname, f"freshorig:{f}")
            continue
        ctx.check(bool(o) and o <= {FRESH}, 'C09.2', f"__init__: {f} is a fresh copy", f"may alias {sorted(o - {FRESH})}", wm.init.fi.loc(), wm.init.fi.qualname,
                  f"freshorig:{f}")
    s = aa.summ.get(WEAVER + '.restore_original')
    for f in ('x', 'y', 'reference_x', 'reference_y'):
        o = s.field_stores.get(f, set()) if s else set()
        if not o:
            ctx.unknown('C09.2', f"restore_original: {f} receives a fresh copy (later in-place work cannot reach the original)",
                        'no direct assignment to the field found in restore_original: what it receives is not known',
                        ctx.prog.func(WEAVER + '.restore_original').loc(), WEAVER + '.restore_original', f"restorefresh:{f}")
            continue
        ctx.check(bool(o) and o <= {FRESH}, 'C09.2', f"restore_original: {f} receives a fresh copy (later in-place work cannot reach the original)",
                  f"may alias {sorted(o - {FRESH})}", ctx.prog.func(WEAVER + '.restore_original').loc(), WEAVER + '.restore_original', f"restorefresh:{f}")


def fixture_alive(ctx):
    """tiny positive example (zero-expected-count rule must match on every run)"""
    import os
    import tempfile
    from ..model import Program
    src = ("import numpy as np\n\n\ndef scale_in_place(y, c):\n    y = np.asarray(y)\n    y[0] = c\n    return y\n\n\n"
           "class Holder:\n    def __init__(self, y):\n        self.y = np.asarray(y)\n\n    def touch(self):\n        self.y = scale_in_place(self.y, 2)\n        return self\n")
    base = '/dev/shm' if os.path.isdir('/dev/shm') else tempfile.gettempdir()
    d = tempfile.mkdtemp(prefix='twverif-fix-', dir=base)
    try:
        pk = os.path.join(d, 'src', 'traffic_weaver')
        os.makedirs(pk)
        open(os.path.join(pk, '__init__.py'), 'w').write('')
        open(os.path.join(pk, 'fixture.py'), 'w').write(src)
        p = Program(d)
        aa = AliasAnalysis(p)
        s = aa.summ.get('traffic_weaver.fixture.scale_in_place')
        hit = any(w.func.qualname.endswith('Holder.touch') and 'FIELD:y' in w.origins for w in aa.writes)
        ctx.check(s is not None and 'y' in s.mutates and hit, 'C09.1', 'fixture: asarray + subscript store is recognised as a write-through',
                  f"mutates={s.mutates if s else None}", 'fixture', 'fixture.scale_in_place', 'fixture')
    finally:
        import shutil
        shutil.rmtree(d, ignore_errors=True)


def check_restore(ctx, wm: WeaverModel):
    ctx.rule('C09.5', 'restore == construct: for every field that some other method reads, restore_original stores the value __init__ would store '
                      'when given get_original()\'s arrays (x, y, reference_x, reference_y <- original; scale factors <- initial values)')
    init = wm.init
    rest = wm.methods.get('restore_original')
    if rest is None:
        raise AnalysisError('C09.5: Weaver.restore_original not found')
    # observable fields: read by some method other than the ones that only write them
    observed = set()
    for name, mf in wm.methods.items():
        vals = [e.data['value'] for e in mf.stores] + [mf.result]
        for e in mf.ev.events:
            if e.kind in ('call', 'lib', 'apply', 'method'):
                for k in ('pos', 'kw', 'bound', 'recv'):
                    d = e.data.get(k)
                    if isinstance(d, dict):
                        vals += [v for v in d.values() if isinstance(v, Val)]
                    elif isinstance(d, list):
                        vals += [v for v in d if isinstance(v, Val)]
                    elif isinstance(d, Val):
                        vals.append(d)
            for g in e.guard:
                vals.append(g)
        for v in vals:
            for lbl in refs_in(v):
                if lbl.startswith('self.'):
                    fld = lbl[5:]
                    # a field read only to compute its own new value (x_scale = x_scale * s) is not an observation
                    observed.add((fld, name))
            for t in walk_vals(v):
                if isinstance(t, Num):
                    for a in sym.all_atoms(t.r):
                        if sym.ATOMS.head(a) == 'sym' and str(sym.ATOMS.args(a)[0]).startswith('self.'):
                            observed.add((str(sym.ATOMS.args(a)[0])[5:], name))
    obs_fields = set()
    for fld, name in observed:
        mf = wm.methods[name]
        # exclude self-referential update of the same field only
        readers_elsewhere = any(fld in _fields_read(e.data['value']) and e.data['field'] != fld for e in mf.stores) or \
            fld in _fields_read(mf.result) or any(fld in _fields_read(g) for e in mf.ev.events for g in e.guard) or \
            any(fld in _fields_read(v) for e in mf.ev.events if e.kind in ('call', 'lib', 'apply', 'method') and not _feeds_only(e, mf, fld)
                for v in _event_vals(e))
        if readers_elsewhere:
            obs_fields.add(fld)
    fin_init = init.final_fields
    fin_rest = rest.final_fields
    ox, oy = wm.fields['original_x'], wm.fields['original_y']
    ax, ay = init.params.get('x'), init.params.get('y')
    checked = 0
    for fld in sorted(set(fin_init)):
        if fld in ('original_x', 'original_y'):
            continue
        want = fin_init[fld]
        # substitute constructor arguments by the original arrays
        want = rename_refs(want, {'arg:x': 'self.original_x', 'arg:y': 'self.original_y'})
        want = want.subst(lambda r: sym.subst(r, {_a(sym.sym('L:x')): wm.Lo, _a(sym.sym('L:y')): wm.Lo}))
        got = fin_rest.get(fld)
        relevant = fld in obs_fields or fld in SERIES_FIELDS
        same = got is not None and veq(got, want)
        if not same and isinstance(got, Num) and isinstance(want, Num) and got.length is not None and want.length is not None:
            same = got.r == want.r and (got.length == want.length)
        if relevant:
            checked += 1
            ctx.check(same, 'C09.5', f"restore_original resets {fld} to what a new Weaver(get_original()) holds",
                      f"after restore: {show(got, 120)}; new object: {show(want, 120)}"
                      + ('' if any(e.data['field'] == fld for e in rest.stores) else f"  (restore_original never stores {fld})"),
                      rest.fi.loc(), rest.fi.qualname, f"restore:{fld}")
        else:
            ctx.ok('C09.5', f"{fld} is write-only state (not observable): not required to be reset", '', rest.fi.loc(), rest.fi.qualname, f"restore-skip:{fld}")
    ctx.floor('C09.5', checked, 4, 'observable fields compared')
    # every mutator returns self
    ctx.rule('C09.6', 'every method that writes a field returns self; no module-level state (no global statements / module attribute stores)')
    for name, mf in wm.methods.items():
        if any(e.data['field'] in SERIES_FIELDS for e in mf.stores) and not name.startswith('_'):
            ctx.check(isinstance(mf.result, Obj) and mf.result.oid == mf.obj.oid, 'C09.6', f"{name} returns self", show(mf.result, 80), mf.fi.loc(),
                      mf.fi.qualname, f"self:{name}")


def _event_vals(e):
    out = []
    for k in ('pos', 'kw', 'bound', 'recv'):
        d = e.data.get(k)
        if isinstance(d, dict):
            out += [v for v in d.values() if isinstance(v, Val)]
        elif isinstance(d, list):
            out += [v for v in d if isinstance(v, Val)]
        elif isinstance(d, Val):
            out.append(d)
    return out


def _feeds_only(e, mf, fld) -> bool:
    return False


def _fields_read(v) -> set:
    out = set()
    if v is None:
        return out
    for lbl in refs_in(v):
        if lbl.startswith('self.'):
            out.add(lbl[5:])
    for t in walk_vals(v):
        if isinstance(t, Num):
            for a in sym.all_atoms(t.r):
                if sym.ATOMS.head(a) == 'sym' and str(sym.ATOMS.args(a)[0]).startswith('self.'):
                    out.add(str(sym.ATOMS.args(a)[0])[5:])
    return out


def run(ctx):
    wm = model(ctx)
    check_aliasing(ctx, wm)
    check_kinds_lengths(ctx, wm)
    check_restore(ctx, wm)
    from .common import dt_weaver, DT_RULE
    ctx.rule('C09.7', DT_RULE + '; in particular a grid built for the series (linspace) is not forced into the element type of the old abscissae (an integer '
                        'abscissa would collapse neighbouring grid points into ties)')
    dt_weaver(ctx, 'C09.7', wm, list(wm.methods))
    ctx.notes.append('NOT DECIDED: finiteness of values; strict monotonicity of x (numeric preconditions on arguments).')
    ctx.trust('written library table: view-returning vs fresh NumPy functions (twverif/alias.py); default for unlisted library functions: fresh',
              'fields hold ndarrays before each method (induction hypothesis); public arguments are array-likes')
    ctx.extra['alias_default_fresh_calls'] = alias(ctx).default_fresh_calls
