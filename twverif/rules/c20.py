"""C20 - invalid requests are refused with ValueError and leave the Weaver untouched (DESIGN 4.20)"""
from __future__ import annotations

import ast
from typing import Dict, List, Optional

from .. import sym
from ..sym import Rat, C
from ..values import Num, Const, Tup, Term, Obj, P, Val, Gam, Ref, veq, walk_vals, arr_param, contradicts, p_not
from ..model import AnalysisError, FuncInfo
from ..symeval import Evaluator
from ..weaver_model import WeaverModel, WEAVER, SERIES_FIELDS
from .common import show, REPO_RESULT_KIND, S, SAU, run as runf, inline_except, SCANS
from .c08 import model
from .c09 import callee_raises, callee_eval, variants
from ..rfa_model import strategy

PROC = 'traffic_weaver.process.'
MATCH = 'traffic_weaver.match.'


def guard_mentions(guard, test) -> bool:
    for g in guard:
        for t in walk_vals(g):
            if test(t):
                return True
    return False


def _c01_opaque():
    from .c01 import opaque
    return opaque


def _is_the_argument(v, param) -> bool:
    """the value is the caller's argument itself (through asarray-like conversions that keep the number of dimensions)"""
    for _ in range(4):
        if veq(v, param):
            return True
        if isinstance(v, Term) and v.head in ('lib:numpy.asarray', 'lib:numpy.asanyarray', 'lib:numpy.array', 'lib:numpy.ascontiguousarray'):
            nxt = v.kw('a') if v.kw('a') is not None else (v.kw('object') if v.kw('object') is not None else (v.args[0] if v.args else None))
            if nxt is None:
                return False
            v = nxt
            continue
        return False
    return False


def dispatch_fallthrough(ctx, qualname: str, param: str, what: str, known):
    """dispatch over a name parameter, decided by specialisation (any dispatch idiom: if-chain, early returns, table):
    every documented literal reaches a normal return; an unknown literal reaches only `raise ValueError`"""
    fi = ctx.prog.func(qualname)
    if param not in fi.params():
        raise AnalysisError(f"C20.2: {qualname} has no parameter {param}")
    L = sym.sym('L')

    def evaluate(lit):
        args = {}
        for q in fi.params():
            if q == param:
                args[q] = Const(lit)
            elif q in ('x', 'y', 'new_x', 'lookup', 'a'):
                args[q] = arr_param('in:' + q, length=L)
            else:
                args[q] = Num(sym.sym('in:' + q))
        from .common import inline_except, SCANS
        ev = Evaluator(ctx.prog, inline=inline_except(*SCANS, 'traffic_weaver.rfa.'), opaque_kind=REPO_RESULT_KIND)
        a_ = fi.node.args
        star = Term('param', (Const('**kw'),), kind='dict') if a_.kwarg else None
        res, st = ev.run_function(fi, args=args, star_kwargs=star)
        if ev.issues:
            raise AnalysisError(f"C20.2: {fi.name} not canonicalisable for {param}={lit!r}: {ev.issues[:2]}")
        rets = [e for e in ev.events if e.kind in ('return', 'fallthrough') and (e.func is fi or e.data.get('func') is fi)]
        raises = [e for e in ev.events if e.kind == 'raise']
        return rets, raises
    for lit in known:
        rets, raises = evaluate(lit)
        uncond = [e for e in raises if not e.guard]
        ctx.check(bool(rets) and not uncond and all(e.kind == 'return' for e in rets), 'C20.2', f"{fi.name}: the documented {what} '{lit}' is accepted",
                  f"returns {len(rets)}, unconditional raises {[e.data.get('exc') for e in uncond]}", fi.loc(), fi.qualname, f"known:{fi.name}:{lit}")
    near = []
    for k in known:
        # names an over-tolerant match (prefix / suffix / substring / case-insensitive comparison) would let through
        near += [k + '_x', 'x_' + k, k[:-1], k.upper(), k.capitalize(), ' ' + k]
    near = [n_ for n_ in dict.fromkeys(near) if n_ not in known]
    for lit in ['__no_such_' + param + '__', ''] + near:
        rets, raises = evaluate(lit)
        ok = not rets and any(e.data.get('exc') == 'ValueError' and not e.guard for e in raises) and all(e.data.get('exc') == 'ValueError' for e in raises)
        ctx.check(ok, 'C20.2', f"{fi.name}: an unknown {what} reaches only `raise ValueError`",
                  f"{param}={lit!r}: normal exits {[(e.kind, e.loc()) for e in rets]}; raises {[(e.data.get('exc'), len(e.guard)) for e in raises]}",
                  (rets[0].loc() if rets else fi.loc()), fi.qualname, f"fallthrough:{fi.name}:{lit}")
    ctx.sample({'rule': 'C20.2', 'function': fi.name, 'documented': list(known)})
    return list(known)


def check_grid_guard(ctx, wm: WeaverModel, rule='C20.1'):
    """Weaver.interpolate(new_x=...) refuses a grid unless its first AND its last element equal those of x (decided as a predicate over the two
    end-point equalities, whatever its syntactic form)"""
    it = wm.cls.methods['interpolate']
    mf_grid = wm.methods['interpolate']
    if mf_grid.issues:
        raise AnalysisError(f"{rule}: Weaver.interpolate not canonicalisable: {mf_grid.issues[:3]}")
    rs = [e for e in mf_grid.raises if e.data.get('exc') == 'ValueError']
    nx = mf_grid.params['new_x']
    x = wm.fields['x']
    from ..truth import equivalent
    Ln = nx.length
    want = P('not', P('and', P('==', nx.at(C(0)), x.at(C(0))), P('==', nx.at(Ln - C(1)), x.at(wm.Lw - C(1)))))
    ok = False
    for e in rs:
        rel = [g for g in e.guard if any(isinstance(t, Num) and t.length is None and any(sym.ATOMS.head(a_) == 'el' and isinstance(sym.ATOMS.args(a_)[0], Ref)
                                                                                      and sym.ATOMS.args(a_)[0].label == 'arg:new_x' for a_ in sym.all_atoms(t.r))
                                         for t in walk_vals(g))]
        if not rel:
            continue
        verdict, _ = equivalent(rel[0] if len(rel) == 1 else P('and', *rel), want)
        if verdict:
            ok = True
    ctx.check(ok, rule, 'interpolation grid with different end points: ValueError unless the first AND the last element equal those of x',
              f"{[[str(g)[:160] for g in e.guard] for e in rs]}", mf_grid.fi.loc(), mf_grid.fi.qualname, 'grid-ends')


def check_guards(ctx, wm: WeaverModel):
    ctx.rule('C20.1', 'guard table: for each invalid-request class of the statement there is a comparison on the stated operands whose failing branch '
                      'raises the builtin ValueError, at the entry point or in a callee reached on every path')
    # 1 length mismatch
    r = [e for e in wm.init.raises if e.data.get('exc') == 'ValueError' and any(isinstance(g, P) and g.op == 'not' and isinstance(g.args[0], P)
                                                                                and g.args[0].op == '==' for g in e.guard)]
    ctx.check(bool(r), 'C20.1', 'mismatched x/y lengths: Weaver.__init__ raises ValueError when len(x) != len(y)',
              f"raises: {[(e.data.get('exc'), [str(g)[:60] for g in e.guard]) for e in wm.init.raises]}", wm.init.fi.loc(), wm.init.fi.qualname, 'len-mismatch')
    first_store = min([e.seq for e in wm.init.stores] or [10 ** 9])
    ctx.check(all(e.seq < first_store for e in r), 'C20.1', 'the length check precedes every field store of the constructor', '', wm.init.fi.loc(),
              wm.init.fi.qualname, 'len-mismatch-order')
    # 2 non (N,2) array
    fi = ctx.prog.func(WEAVER + '.from_2d_array')
    xy = Term('param', (Const('xy'),), kind='unknown')
    ev = Evaluator(ctx.prog, inline=lambda f: not f.qualname.startswith(WEAVER), opaque_kind=REPO_RESULT_KIND)
    ev.run_function(fi, args={'xy': xy})
    if ev.issues:
        raise AnalysisError(f"C20.1: Weaver.from_2d_array not canonicalisable: {ev.issues[:3]}")
    rs = [e for e in ev.events if e.kind == 'raise']
    news = [e for e in ev.events if e.kind in ('new', 'call')]
    ok = any(e.data.get('exc') == 'ValueError' and guard_mentions(e.guard, lambda t: isinstance(t, Term) and t.head == 'attr' and veq(t.args[1], Const('shape'))
                                                               and _is_the_argument(t.args[0], xy))
             for e in rs)
    two = any(isinstance(t, Num) and t.is_const() and t.const() == 2 for e in rs for g in e.guard for t in walk_vals(g))
    ctx.check(ok and two, 'C20.1', 'non-(N,2) array: from_2d_array tests the shape and raises ValueError',
              f"raises: {[(e.data.get('exc'), [str(g)[:80] for g in e.guard]) for e in rs]}", fi.loc(), fi.qualname, 'shape')
    def excluded(r_, n_) -> bool:
        """the construction n_ cannot happen on the path of the refusal r_: the refusal comes first in program order (its path ends there), or the two
        sit on opposite branches of one test"""
        from ..values import p_not
        return r_.seq < n_.seq or any(veq(g_, p_not(h_)) or veq(p_not(g_), h_) for g_ in r_.guard for h_ in n_.guard)
    ctx.check(all(excluded(e, n_) for e in rs for n_ in news), 'C20.1', 'the shape check precedes the construction (no Weaver is built from an array that is refused)',
              '', fi.loc(), fi.qualname, 'shape-order')
    # 3 n < 2 : C04.4 on the base class
    st = strategy(ctx.prog, 'PiecewiseConstantRFA')
    from .c04 import _is_n_lt_2
    r = [e for e in st.init_raises if e.data.get('exc') == 'ValueError' and any(_is_n_lt_2(g, st.n) for g in e.guard)]
    ctx.check(bool(r), 'C20.1', 'oversampling factor below 2: AbstractRFA.__init__ raises ValueError exactly when n < 2',
              f"{[(e.data.get('exc'), [str(g) for g in e.guard]) for e in st.init_raises]}", st.init.loc(), st.init.qualname, 'n<2')
    # ... and the Weaver reaches that check on every call (no shortcut in front of the strategy)
    from .c02 import check_recreate_wiring
    check_recreate_wiring(ctx, wm, rule='C20.1')
    # 4-6 dispatchers
    ctx.rule('C20.2', 'every literal dispatch over a method-name parameter ends in `raise ValueError` on the no-match path')
    dispatch_fallthrough(ctx, SAU + 'integral', 'method', 'integration rule', ['trapezoid', 'rectangle'])
    dispatch_fallthrough(ctx, SAU + 'find_closest_element_indices_to_values', 'strategy', 'search strategy', ['closest', 'lower', 'higher'])
    dispatch_fallthrough(ctx, PROC + 'interpolate', 'method', 'interpolation method', ['linear', 'constant', 'cubic', 'spline'])
    # kernel's own validation
    dispatch_fallthrough(ctx, MATCH + '_integral_matching_stretch', 'integral_method', 'integration rule (stretch kernel)', ['trapezoid', 'rectangle'])
    # 7 dataset name
    lfi = ctx.prog.func('traffic_weaver.datasets._base.load_dataset')
    from ..datasets_model import unknown_name_outcome
    raises, returned, uev = unknown_name_outcome(ctx.prog)
    ok = bool(raises) and all(r == 'ValueError' for r in raises) and not returned
    from ..datasets_model import dynamic_lookup_namespaces
    dyn = dynamic_lookup_namespaces(ctx.prog, uev)
    if not ok and dyn:
        ctx.unknown('C20.1', 'unknown dataset name: the failed lookup (AttributeError) is converted to ValueError',
                    f"the namespace of {dyn} is built at import time: which names it binds is not decidable from the source text", lfi.loc(), lfi.qualname, 'dataset')
    else:
        ctx.check(ok, 'C20.1', 'unknown dataset name: the failed lookup (AttributeError) is converted to ValueError', f"raises {raises}; returns {returned}", lfi.loc(), lfi.qualname, 'dataset')
    # 8 fixed points
    pfi = ctx.prog.func(MATCH + 'integral_matching_reference_stretch')
    for mode, extra, want in (('values', {'fixed_points_in_x': arr_param('FP', kind='list'), 'fixed_points_indices_in_x': Const(None)}, 2),
                              ('indices', {'fixed_points_in_x': Const(None), 'fixed_points_indices_in_x': arr_param('FI', kind='list')}, 2)):
        Lx = sym.sym('Lx')
        args = {'x': arr_param('x', length=Lx), 'y': arr_param('y', length=Lx), 'x_ref': arr_param('x_ref'), 'y_ref': arr_param('y_ref'),
                's': Const(None)}
        args.update(extra)
        ev = Evaluator(ctx.prog, inline=_c01_opaque(), opaque_kind=REPO_RESULT_KIND)
        ev.run_function(pfi, args=args)
        rs = [e for e in ev.events if e.kind == 'raise' and e.data.get('exc') == 'ValueError']
        given = args['fixed_points_in_x'] if mode == 'values' else args['fixed_points_indices_in_x']
        glen = given.length            # the number of points as given (repetitions included)
        cnt = [e for e in rs if any(isinstance(g, P) and g.op == '<' and len(g.args) == 2 and isinstance(g.args[0], Num) and isinstance(g.args[1], Num)
                                    and g.args[0].r == Lx and g.args[1].r == glen for g in e.guard)]
        mem = [e for e in rs if any(isinstance(g, P) and g.op == 'not' and isinstance(g.args[0], P) and g.args[0].op == '==' for g in e.guard)]
        ctx.check(bool(cnt), 'C20.1', f"fixed points outnumbering the samples ({mode}): len(<points as given>) > len(x) raises ValueError",
                  f"{[[str(g)[:70] for g in e.guard] for e in rs]}", pfi.loc(), pfi.qualname, f"fp-count:{mode}")
        ctx.check(bool(mem), 'C20.1', f"fixed points that are not samples of x ({mode}): membership guard (resolved indices vs fixed points) raises ValueError",
                  f"{[[str(g)[:70] for g in e.guard] for e in rs]}", pfi.loc(), pfi.qualname, f"fp-member:{mode}")
        others = [e for e in ev.events if e.kind == 'raise' and e.data.get('exc') != 'ValueError']
        ctx.check(not others, 'C20.4', f"matching ({mode}): every explicit rejection is a ValueError", f"{[(e.data.get('exc'), e.loc()) for e in others]}",
                  pfi.loc(), pfi.qualname, f"fp-type:{mode}")
    # 9 truncation range
    tfi = ctx.prog.func(PROC + 'truncate')
    for lr, rr in ((False, False), (True, True), (True, False), (False, True)):
        L = sym.sym('L')
        x = arr_param('x', length=L)
        xl, xr = S('x_left'), S('x_right')
        ev = Evaluator(ctx.prog, inline=inline_except(*SCANS), opaque_kind=REPO_RESULT_KIND)
        ev.run_function(tfi, args={'x': x, 'y': arr_param('y', length=L), 'x_left': xl, 'x_right': xr, 'x_left_as_ratio': Const(lr),
                                   'x_right_as_ratio': Const(rr)})
        span = x.at(L - C(1)).r - x.at(C(0)).r
        cl = xl.r * span + x.at(C(0)).r if lr else xl.r
        cr = xr.r * span + x.at(C(0)).r if rr else xr.r
        want = p_not(P('<', Num(cl), Num(cr)))
        rs = [e for e in ev.events if e.kind == 'raise' and e.data.get('exc') == 'ValueError']
        ok = any(any(veq(g, want) for g in e.guard) for e in rs)
        calls = [e for e in ev.events if e.kind == 'call']
        before = all(e.seq < min([c.seq for c in calls] or [10 ** 9]) for e in rs)
        ctx.check(ok and before, 'C20.1', f"empty or inverted truncation range (left ratio={lr}, right ratio={rr}): the converted bounds are compared "
                                          f"(left >= right raises ValueError) before the searches",
                  f"raise guards: {[[str(g)[:120] for g in e.guard] for e in rs]}\nexpected guard: {str(want)[:200]}", tfi.loc(), tfi.qualname, f"trunc:{lr}:{rr}")
    # 10 index bounds
    for name in ('slice_by_index', 'truncate_by_index'):
        mf = wm.methods[name]
        rs = [e for e in mf.raises if e.data.get('exc') == 'ValueError']
        start, stop = sym.sym('arg:start'), sym.sym('arg:stop')
        lo = any(any(isinstance(g, P) and g.op == '<' and isinstance(g.args[0], Num) and g.args[0].r == start and g.args[1].is_const() and g.args[1].const() == 0
                     for g in e.guard) for e in rs)
        hi = any(any(isinstance(g, P) and g.op == '<' and isinstance(g.args[0], Num) and g.args[0].r == wm.Lw and isinstance(g.args[1], Num) and g.args[1].r == stop
                     for g in e.guard) for e in rs)
        ctx.check(lo and hi, 'C20.1', f"out-of-range index bounds: {name} raises ValueError for start < 0 and for stop > len(x)",
                  f"{[[str(g)[:60] for g in e.guard] for e in rs]}", mf.fi.loc(), mf.fi.qualname, f"bounds:{name}")
    # 11 slicing value not a sample
    mf = wm.methods['slice_by_value']
    SEARCH = ('nz', 'lib:numpy.where', 'lib:numpy.searchsorted', 'lib:numpy.nonzero', 'lib:numpy.flatnonzero', 'lib:numpy.argwhere', 'index',
              'lib:numpy.argmax', 'lib:numpy.argmin', 'lib:numpy.isin', 'method:searchsorted', 'method:nonzero')

    def data_dependent(v) -> bool:
        return any(isinstance(t, Term) and t.head in SEARCH for t in walk_vals(v))
    subs = [e for e in mf.ev.events if e.kind == 'subscript' and (data_dependent(Num(e.data['base'].length)) or data_dependent(e.data['index']))]
    found_tests = [e for e in mf.raises if any(data_dependent(g) for g in e.guard)]
    # anti-vacuity: the lookups are there, either as element reads that must be guarded or (argmax / any style) as "not found" tests without a read that can fail
    ctx.floor('C20.4', len(subs) + len(found_tests), 2, 'data-dependent lookups in slice_by_value (element reads of the match array / searched index, or "not found" tests)')
    for e in subs:
        ln = e.data['base'].length
        idx = e.data['index']
        if not isinstance(idx, Num):
            from ..values import term_as_num
            idx = term_as_num(idx, False)
        if idx.r.is_const() and idx.r.const_value() >= 0:
            guarded = any(_nonempty_guard(g, ln) for g in e.guard)
            what = 'the match array is tested for emptiness'
        else:
            guarded = any(_in_range_guard(g, idx.r, ln) for g in e.guard)
            what = 'the searched index is tested against the array length'
        ctx.check(guarded, 'C20.4', f"slice_by_value: {what} before the element is read at {e.loc()} "
                                    f"(an absent value must raise ValueError, not IndexError)",
                  f"read {show(e.data['base'], 80)}[{show(idx, 60)}]; guards in force: {[str(g)[:100] for g in e.guard]}", e.loc(), mf.fi.qualname,
                  f"nonempty:{e.loc().split(':')[-1]}")
    rs = [e for e in mf.raises if e.data.get('exc') == 'ValueError' and any(data_dependent(g) for g in e.guard)]
    ctx.check(len(rs) >= 2, 'C20.1', 'slicing value that is not a sample: slice_by_value raises ValueError on a data-dependent "not found" test (start and stop)',
              f"{[[str(g)[:80] for g in e.guard] for e in mf.raises]}", mf.fi.loc(), mf.fi.qualname, 'notfound')
    # the look-up is made for every given bound: beyond the "not found" test itself, the rejection may depend on nothing but the bound being given
    # (the model passes numbers for start / stop, so `is None` tests are settled); `if start:` skips the look-up of the sample at 0
    narrowed = []
    for e in rs:
        for g in e.guard:
            if data_dependent(g):
                continue
            # a test that looks at the series (a mask, a search, any array) is part of the "not found" test, however it is spelled
            if any((isinstance(t_, Num) and t_.length is not None) or (isinstance(t_, Term) and (t_.head in ('mask',) or t_.kind in ('ndarray', 'list')))
                   for t_ in walk_vals(g)):
                continue
            if any(sym.ATOMS.head(a_) == 'sym' and str(sym.ATOMS.args(a_)[0]).startswith('arg:') for r_ in g.rats() for a_ in sym.all_atoms(r_)):
                narrowed.append(f"{str(g)[:80]} (raise at {e.loc()})")
    ctx.check(not narrowed, 'C20.1', 'slicing value that is not a sample: the rejection of an absent value does not depend on the value itself (0 is a value like any other)',
              f"the look-up and its ValueError happen only when {narrowed[:3]}", mf.fi.loc(), mf.fi.qualname, 'notfound-any-value')
    bad = [e for e in mf.raises if e.data.get('exc') != 'ValueError']
    ctx.check(not bad, 'C20.4', 'slice_by_value: every explicit rejection is a ValueError', f"{[(e.data.get('exc'), e.loc()) for e in bad]}", mf.fi.loc(),
              mf.fi.qualname, 'slice-type')
    # 12 interpolation grid
    it = wm.cls.methods['interpolate']
    check_grid_guard(ctx, wm)
    mf_none = wm.evaluate(it, overrides={'new_x': Const(None), 'n': Const(None)})
    ctx.check(any(e.data.get('exc') == 'ValueError' and not e.guard for e in mf_none.raises) and not mf_none.stores, 'C20.1',
              'neither n nor new_x: ValueError before any store', f"raises {[(e.data.get('exc'), len(e.guard)) for e in mf_none.raises]}; stores {len(mf_none.stores)}",
              mf_none.fi.loc(), mf_none.fi.qualname, 'grid-none')


def _empty_guard(g) -> bool:
    return isinstance(g, P) and g.op == '==' and any(isinstance(a, Num) and a.is_const() and a.const() == 0 for a in g.args) and \
        any(isinstance(a, Num) and any(sym.ATOMS.head(t) == 'Len' for t in sym.all_atoms(a.r)) for a in g.args)


def _in_range_guard(g, idx: Rat, ln: Rat) -> bool:
    """guard establishing idx < ln"""
    if isinstance(g, P) and g.op == '<' and isinstance(g.args[0], Num) and isinstance(g.args[1], Num):
        return g.args[0].r == idx and g.args[1].r == ln
    if isinstance(g, P) and g.op == 'not' and isinstance(g.args[0], P):
        q = g.args[0]
        if q.op == '<' and isinstance(q.args[0], Num) and isinstance(q.args[1], Num):
            # not(ln < idx + 1)  <=>  idx + 1 <= ln
            return q.args[0].r == ln and q.args[1].r == idx + C(1)
        if q.op == '==' and False:
            return False
        if q.op == 'or':
            return any(_in_range_guard(p_not(x), idx, ln) for x in q.args)
    return False


def _nonempty_guard(g, ln: Rat) -> bool:
    if isinstance(g, P) and g.op == 'not' and isinstance(g.args[0], P) and g.args[0].op == '==':
        u, v = g.args[0].args
        for a, b in ((u, v), (v, u)):
            if isinstance(a, Num) and a.is_const() and a.const() == 0 and isinstance(b, Num) and b.r == ln:
                return True
    if isinstance(g, P) and g.op == '<':
        a, b = g.args
        if isinstance(a, Num) and a.is_const() and a.const() >= 0 and isinstance(b, Num) and b.r == ln:
            return True
    return False


def check_commit(ctx, wm: WeaverModel):
    ctx.rule('C20.3', 'check-before-commit: in every field-writing Weaver method, no explicit raise and no call of a callee that may raise is '
                      'reachable after the first store to a self field (events in program order; branch guards decide reachability). '
                      'One audited exception: truncate_by_value calls truncate a second time (reference) with the same bound arguments as the '
                      'first call, whose order guard has then already passed')
    n = 0
    it = wm.cls.methods.get('interpolate')
    allv = variants(wm)
    for name, mf in allv + [('__init__', wm.init)]:
        if not mf.stores:
            continue
        n += 1
        first = min(e.seq for e in mf.stores)
        first_ev = [e for e in mf.stores if e.seq == first][0]
        late_raises = [e for e in mf.raises if e.seq > first and not _contradict(e.guard, first_ev.guard)]
        ctx.check(not late_raises, 'C20.3', f"{name}: no raise statement is reachable after the first field store",
                  f"first store {first_ev.data['field']} at {first_ev.loc()}; later raise at {[e.loc() for e in late_raises]}",
                  (late_raises[0].loc() if late_raises else mf.fi.loc()), mf.fi.qualname, f"commit-raise:{name}")
        late_calls = []
        for e in mf.calls:
            if e.seq <= first or e.kind != 'call' or e.data['callee'] is None:
                continue
            callee = e.data['callee']
            rs = [r for r in callee_raises(ctx.prog, callee)]
            if not rs:
                continue
            # audited exception: an earlier call of the same callee with the same non-series arguments already passed its guards
            earlier = [c for c in mf.calls if c.kind == 'call' and c.data['callee'] is callee and c.seq < first]
            same = False
            for c in earlier:
                b1, b2 = c.data['bound'], e.data['bound']
                ns = [k for k in b1 if not _is_series(b1[k])]
                same = same or (set(b1) == set(b2) and all(veq(b1[k], b2[k]) for k in ns) and all(_is_series(b2[k]) for k in b2 if k not in ns))
            if same and name == 'truncate_by_value':
                ctx.ok('C20.3', f"{name}: second call of {callee.name} (audited exception: same scalar arguments as the call before the commit)", '',
                       e.loc(), mf.fi.qualname, f"commit-exception:{name}")
                continue
            if same:
                # the same callee with the same scalar arguments already ran before the commit, on the working series: can it refuse the reference
                # series now?  Decided when every refusal is a comparison over the scalar arguments and the length of the series only.
                w = _second_call_refusal(rs)
                if w is False:
                    ctx.ok('C20.3', f"{name}: second call of {callee.name} cannot refuse once the first one (same scalar arguments) has passed: its "
                                    f"refusals compare the scalar arguments and the series length only, and none separates two non-empty series", '',
                           e.loc(), mf.fi.qualname, f"commit-second:{name}")
                    continue
            late_calls.append((e, rs))
        ctx.check(not late_calls, 'C20.3', f"{name}: no callee that may raise is called after the first field store",
                  '; '.join(f"{e.data['callee'].name}() at {e.loc()} may raise {sorted(set(str(r.data.get('exc')) for r in rs))}" for e, rs in late_calls),
                  (late_calls[0][0].loc() if late_calls else mf.fi.loc()), mf.fi.qualname, f"commit-call:{name}")
    ctx.floor('C20.3', n, 17, 'field-writing methods')


def _second_call_refusal(raises):
    """can one of the callee's refusals hold for a series of length L2 although none held for a series of length L1, with the same scalar arguments?
    True with a witness found over small sizes, False when none exists there, None when a refusal looks at anything but scalar arguments and lengths"""
    import itertools
    from ..truth import tri
    atoms = set()
    for r in raises:
        for g in r.guard:
            for q in g.rats():
                for a_ in sym.all_atoms(q):
                    if sym.ATOMS.head(a_) != 'sym':
                        return None
                    atoms.add(a_)
    lens = sorted(a_ for a_ in atoms if str(sym.ATOMS.args(a_)[0]) in ('L', 'Lref', 'Lnew'))
    scal = sorted(atoms - set(lens))
    if len(scal) > 3:
        return None

    def holds(r, env) -> Optional[bool]:
        def leaf(q):
            if isinstance(q, P) and q.op in ('<', '==') and all(isinstance(a_, Num) and a_.length is None for a_ in q.args):
                vs = [sym.subst(a_.r, env) for a_ in q.args]
                if all(v_.is_const() for v_ in vs):
                    return vs[0].const_value() < vs[1].const_value() if q.op == '<' else vs[0].const_value() == vs[1].const_value()
            return None
        out = True
        for g in r.guard:
            t = tri(g, leaf)
            if t is None:
                return None
            out = out and t
        return out
    sizes = (1, 2, 3, 5, 8)
    for svals in itertools.product((-3, -1, 0, 1, 2, 4), repeat=len(scal)):
        for l1 in sizes:
            env1 = {a_: C(l1) for a_ in lens}
            env1.update({a_: C(v_) for a_, v_ in zip(scal, svals)})
            first = [holds(r, env1) for r in raises]
            if any(f is None for f in first):
                return None
            if any(first):
                continue                    # the first call refuses: nothing was stored yet
            for l2 in sizes:
                env2 = dict(env1)
                env2.update({a_: C(l2) for a_ in lens})
                second = [holds(r, env2) for r in raises]
                if any(f is None for f in second):
                    return None
                if any(second):
                    return True
    return False


def _is_series(v) -> bool:
    from ..weaver_model import refs_in
    return any(l.startswith('self.') for l in refs_in(v)) if isinstance(v, Val) else False


def _contradict(g1, g2) -> bool:
    return any(contradicts(a, b) for a in g1 for b in g2)


def run(ctx):
    wm = model(ctx)
    check_guards(ctx, wm)
    check_commit(ctx, wm)
    ctx.rule('C20.4', 'exception type: rejections are ValueError; element reads of arrays that may be empty by design are guarded by an emptiness test')
    ctx.notes.append('NOT DECIDED: exceptions raised inside NumPy/SciPy for malformed values.')
    ctx.trust('a rejected call executes no store (C20.3), so the state is whatever it was: holds after any history')
