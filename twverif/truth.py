"""Finite decision tables over abstract orderings.

Code that touches runtime values only through comparisons is decided by a finite set of orderings: every comparison
`A < B` of the abstract values is the sign of the linear form D = B - A; every identity test / truthiness of an opaque value
is a boolean atom.  Two predicates (or two guarded values) agree when they agree under every assignment of signs
{-1, 0, +1} to the distinct forms and of booleans to the atoms.  Forms are treated as independent, which only makes the
comparison stricter than necessary; callers report a difference on a vocabulary they do not recognise as *unknown*,
not as a violation.

Nothing here runs repository code: the inputs are the evaluator's symbolic predicates and values."""
from __future__ import annotations

import itertools
from fractions import Fraction
from typing import Dict, List, Optional, Tuple, Callable, Iterable

from . import sym
from .sym import Rat, C
from .values import Val, Num, Const, Tup, Kw, Term, P, Gam, Ref, veq

CMP_OPS = ('<', '<=', '>', '>=', '==', '!=')


class Universe:
    def __init__(self):
        self.forms: List[Rat] = []          # canonical linear forms D (sign atoms)
        self.bools: List[str] = []          # opaque boolean atoms, by printed form
        self.bool_vals: Dict[str, Val] = {}

    # ------------------------------------------------------------------ atoms
    def form_key(self, d: Rat) -> Tuple[Optional[int], int]:
        """(index of the canonical form, orientation) for a non-constant D; (None, sign) for a constant"""
        if d.is_const():
            v = d.const_value()
            return None, (v > 0) - (v < 0)
        for i, f in enumerate(self.forms):
            if f == d:
                return i, 1
            if f == -d:
                return i, -1
            q = d / f
            if q.is_const():
                v = q.const_value()
                return i, (1 if v > 0 else -1)
        self.forms.append(d)
        return len(self.forms) - 1, 1

    def bool_key(self, p: Val) -> str:
        k = str(p)
        if k not in self.bool_vals:
            self.bools.append(k)
            self.bool_vals[k] = p
        return k

    def collect(self, v) -> None:
        """register every atom of a predicate / guarded value"""
        if isinstance(v, Const) or v is None:
            return
        if isinstance(v, P):
            if v.op in ('not', 'and', 'or'):
                for a in v.args:
                    self.collect(a)
                return
            if v.op in CMP_OPS and all(isinstance(a, Num) and a.length is None for a in v.args):
                self.form_key(v.args[1].r - v.args[0].r)
                for a in v.args:
                    self.collect(a)
                return
            self.bool_key(v)
            return
        if isinstance(v, Gam):
            self.collect(v.pred)
            self.collect(v.a)
            self.collect(v.b)
            return
        if isinstance(v, Num):
            for r in (v.r,) + ((v.length,) if v.length is not None else ()):
                for a in sym.all_atoms(r):
                    if sym.ATOMS.head(a) == 'gamma':
                        pred, x, y = sym.ATOMS.args(a)
                        self.collect(pred)
            return
        if isinstance(v, (Tup,)):
            for i in v.items:
                self.collect(i)

    # ------------------------------------------------------------------ evaluation
    def pred(self, p: Val, asg: Dict) -> bool:
        if isinstance(p, Const):
            return bool(p.v)
        if isinstance(p, P):
            if p.op == 'not':
                return not self.pred(p.args[0], asg)
            if p.op == 'and':
                return all(self.pred(a, asg) for a in p.args)
            if p.op == 'or':
                return any(self.pred(a, asg) for a in p.args)
            if p.op in CMP_OPS and all(isinstance(a, Num) and a.length is None for a in p.args):
                a, b = (self.value(x, asg) for x in p.args)
                i, o = self.form_key(b - a)
                s = o if i is None else o * asg[('s', i)]
                return {'<': s > 0, '<=': s >= 0, '>': s < 0, '>=': s <= 0, '==': s == 0, '!=': s != 0}[p.op]
            return bool(asg[('b', self.bool_key(p))])
        if isinstance(p, Gam):
            return self.pred(p.a if self.pred(p.pred, asg) else p.b, asg)
        return bool(asg[('b', self.bool_key(p))])

    def value(self, v, asg: Dict):
        """a scalar Num under the assignment (gamma atoms resolved): a Rat; other values are returned as they are"""
        if isinstance(v, Gam):
            return self.value(v.a if self.pred(v.pred, asg) else v.b, asg)
        if isinstance(v, Num):
            return self.rat(v.r, asg)
        return v

    def rat(self, r: Rat, asg: Dict) -> Rat:
        mapping = {}
        for a in r.atoms():
            if sym.ATOMS.head(a) == 'gamma':
                pred, x, y = sym.ATOMS.args(a)
                mapping[a] = self.rat(x if self.pred(pred, asg) else y, asg)
        return sym.subst(r, mapping) if mapping else r

    def assignments(self, fixed: Optional[Dict] = None) -> Iterable[Dict]:
        fixed = fixed or {}
        keys = [('s', i) for i in range(len(self.forms))] + [('b', k) for k in self.bools]
        free = [k for k in keys if k not in fixed]
        doms = [(-1, 0, 1) if k[0] == 's' else (False, True) for k in free]
        for combo in itertools.product(*doms):
            asg = dict(fixed)
            asg.update(zip(free, combo))
            yield asg

    def show(self, asg: Dict) -> str:
        parts = []
        for k, v in asg.items():
            if k[0] == 's':
                parts.append(f"{sym.show(self.forms[k[1]])} {'<' if v < 0 else ('=' if v == 0 else '>')} 0")
            else:
                parts.append(f"{k[1]}={v}")
        return '; '.join(parts)


def equivalent(p: Val, q: Val, fixed_bools: Optional[Dict[str, bool]] = None):
    """(verdict, detail): verdict True / False over a common vocabulary, None when `p` uses atoms `q` does not mention
    (and the two differ)"""
    uq = Universe()
    uq.collect(q)
    nforms, nbools = len(uq.forms), len(uq.bools)
    uq.collect(p)
    extra = [sym.show(f) + ' ? 0' for f in uq.forms[nforms:]] + uq.bools[nbools:]
    fixed = {('b', k): v for k, v in (fixed_bools or {}).items() if k in uq.bool_vals}
    n = 0
    for asg in uq.assignments(fixed):
        n += 1
        if n > 200000:
            return None, 'decision table too large'
        try:
            a, b = uq.pred(p, asg), uq.pred(q, asg)
        except KeyError:
            return None, 'atom introduced during evaluation'
        if a != b:
            if extra:
                return None, f"uses {extra[:3]} which the reference predicate does not mention"
            return False, f"differ when {uq.show(asg)}: code {a}, expected {b}"
    return True, f"{n} assignments over {len(uq.forms)} orderings and {len(uq.bools)} flags"


def tri(p: Val, leaf: Callable[[Val], Optional[bool]]) -> Optional[bool]:
    """three-valued evaluation of a predicate whose atomic tests `leaf` settles (True / False) or leaves open (None)"""
    if isinstance(p, Const):
        return bool(p.v)
    if isinstance(p, P) and p.op == 'not':
        t = tri(p.args[0], leaf)
        return None if t is None else not t
    if isinstance(p, P) and p.op in ('and', 'or'):
        ts = [tri(a, leaf) for a in p.args]
        if p.op == 'and':
            if any(t is False for t in ts):
                return False
            return True if all(t is True for t in ts) else None
        if any(t is True for t in ts):
            return True
        return False if all(t is False for t in ts) else None
    return leaf(p)


# --------------------------------------------------------------------------- substitution of opaque terms
def substitute_terms(v, fn: Callable[[Term], Optional[Val]]):
    """replace opaque terms (also inside `val(term)` atoms of numbers) by other values"""
    memo: Dict[int, Rat] = {}

    def arg_image(a):
        if isinstance(a, Rat):
            return rat_image(a)
        if isinstance(a, Val):
            return val_image(a)
        if isinstance(a, tuple):
            return tuple(arg_image(x) for x in a)
        return a

    def atom_image(aid: int) -> Rat:
        if aid in memo:
            return memo[aid]
        head, args = sym.ATOMS.defs[aid]
        if head == 'val' and len(args) == 1 and isinstance(args[0], Ref) and isinstance(args[0].term, Term):
            img = val_image(args[0].term)
            if isinstance(img, Num) and img.length is None:
                out = img.r
            elif img is args[0].term:
                out = Rat.atom(aid)
            else:
                out = sym.make_atom('val', Ref(args[0].label, img))
            memo[aid] = out
            return out
        nargs = tuple(arg_image(a) for a in args)
        out = sym.make_atom(head, *nargs) if not sym.args_equal(nargs, args) else Rat.atom(aid)
        memo[aid] = out
        return out

    def rat_image(r: Rat) -> Rat:
        mapping = {}
        for a in r.atoms():
            img = atom_image(a)
            if not (img == Rat.atom(a)):
                mapping[a] = img
        return sym.subst(r, mapping) if mapping else r

    def val_image(x):
        if isinstance(x, Term):
            rep = fn(x)
            if rep is not None:
                return rep
            nargs = [arg_image(a) for a in x.args]
            nkw = [(k, arg_image(a)) for k, a in x.kwargs]
            if all(a is b for a, b in zip(nargs, x.args)) and all(a[1] is b[1] for a, b in zip(nkw, x.kwargs)):
                return x
            return Term(x.head, nargs, nkw, x.kind, x.uid, x.node)
        if isinstance(x, Num):
            return Num(rat_image(x.r), None if x.length is None else rat_image(x.length), x.kind)
        if isinstance(x, Ref):
            return x if x.term is None else Ref(x.label, val_image(x.term))
        if isinstance(x, Tup):
            return Tup([val_image(i) for i in x.items], x.kind)
        if isinstance(x, Kw):
            return Kw({k: val_image(i) for k, i in x.items.items()}, x.rest)
        if isinstance(x, P):
            return P(x.op, *[arg_image(a) for a in x.args])
        if isinstance(x, Gam):
            return Gam(val_image(x.pred), val_image(x.a), val_image(x.b))
        return x

    if isinstance(v, Rat):
        return rat_image(v)
    return val_image(v)
