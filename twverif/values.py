"""Abstract values of the value-numbering evaluator (DESIGN 2.4/2.5).

Every numeric value - scalar or 1-D array - is an element-wise rational term
`r` in the index symbol $i plus an optional symbolic `length` (None = scalar).
Everything else is a structured term compared structurally (value numbering by
congruence)."""
from __future__ import annotations

import itertools
from typing import Optional, Tuple, List, Dict

from . import sym
from .sym import Rat, C

_serial = itertools.count(1)


def fresh_serial() -> int:
    return next(_serial)


class Val:
    kind = 'unknown'
    dt = None       # element type shadow (dtypes.py): set where NumPy fixes or inherits a dtype

    def struct_eq(self, o) -> bool:
        return self is o

    def rats(self):
        return ()

    def subst(self, f):
        return self


def veq(a, b) -> bool:
    if a is b:
        return True
    if isinstance(a, Val):
        return a.struct_eq(b)
    return sym.args_equal(a, b)


class Ref(Val):
    """identity of an array whose elements are opaque (parameter, field, library result)"""

    def __init__(self, label: str, term: Optional[Val] = None):
        self.label = label
        self.term = term

    def struct_eq(self, o):
        return isinstance(o, Ref) and self.label == o.label and (
            (self.term is None and o.term is None) or (self.term is not None and o.term is not None and veq(self.term, o.term)))

    def rats(self):
        return self.term.rats() if self.term is not None else ()

    def subst(self, f):
        if self.term is None:
            return self
        return Ref(self.label, self.term.subst(f))

    def __str__(self):
        return self.label if self.term is None else f"{self.term}"

    __repr__ = __str__

    def element(self, idx):
        """element read of a concatenation at the first / last slot of one of its parts: the element of that part (the part is taken to be non-empty:
        recorded in ASSUMED_NONEMPTY)"""
        t = self.term
        if isinstance(t, Term) and t.head == 'cat' and isinstance(idx, Rat):
            off = sym.C(0)
            for part in t.args:
                ln = _len_of(part) if not (isinstance(part, Num) and part.length is None) else sym.C(1)
                if ln is None:
                    break
                if isinstance(part, Num) and part.length is not None and not ln.is_const():
                    for at_, what in ((sym.C(0), idx - off), (ln - sym.C(1), off + ln - sym.C(1) - idx)):
                        if what.is_zero():
                            ASSUMED_NONEMPTY.add(str(part)[:60])
                            return part.at(at_).r
                off = off + ln
        return sym.A('el', self, idx)


ASSUMED_NONEMPTY = set()


class Num(Val):
    def __init__(self, r: Rat, length: Optional[Rat] = None, kind: Optional[str] = None, fresh: bool = True):
        self.r = r
        self.length = length
        self.kind = kind or ('scalar' if length is None else 'ndarray')

    def struct_eq(self, o):
        if not isinstance(o, Num):
            return False
        if (self.length is None) != (o.length is None):
            return False
        if self.length is not None and not (self.length == o.length):
            return False
        return self.r == o.r

    def rats(self):
        yield self.r
        if self.length is not None:
            yield self.length

    def subst(self, f):
        out = Num(f(self.r), None if self.length is None else f(self.length), self.kind)
        if getattr(self, 'view', False):
            out.view = True             # a basic slice of an ndarray stays a view of it under renaming of loop symbols
        return out

    def is_const(self):
        return self.length is None and self.r.is_const()

    def const(self):
        return self.r.const_value()

    def at(self, idx: Rat) -> 'Num':
        """element at index idx (an index-free rational)"""
        return Num(sym.subst(self.r, {sym.idx_atom(): idx}))

    def __str__(self):
        if self.length is None:
            return sym.show(self.r)
        # a whole opaque array prints as its identity
        try:
            a = self.r.atoms()
            if len(a) == 1:
                (aid,) = a
                if sym.ATOMS.head(aid) == 'el' and self.r == sym.Rat.atom(aid) and sym.ATOMS.args(aid)[1] == sym.idx():
                    return f"{sym.ATOMS.args(aid)[0]}"
        except Exception:
            pass
        return f"[{sym.show(self.r)} | $i<{sym.show(self.length)}]"

    __repr__ = __str__


class Const(Val):
    def __init__(self, v):
        self.v = v
        self.kind = 'none' if v is None else type(v).__name__

    def struct_eq(self, o):
        return isinstance(o, Const) and type(self.v) is type(o.v) and self.v == o.v

    def __str__(self):
        return repr(self.v)

    __repr__ = __str__


class Tup(Val):
    kind = 'tuple'

    def __init__(self, items, kind='tuple'):
        self.items = list(items)
        self.kind = kind       # 'tuple' | 'list'

    def struct_eq(self, o):
        return isinstance(o, Tup) and len(self.items) == len(o.items) and all(veq(a, b) for a, b in zip(self.items, o.items))

    def rats(self):
        for i in self.items:
            yield from i.rats()

    def subst(self, f):
        return Tup([i.subst(f) for i in self.items], self.kind)

    def __str__(self):
        b = '()' if self.kind == 'tuple' else '[]'
        return b[0] + ', '.join(map(str, self.items)) + b[1]

    __repr__ = __str__


class Kw(Val):
    """a **kwargs dictionary: known items plus (possibly) an opaque remainder"""
    kind = 'dict'

    def __init__(self, items: Dict[str, Val], rest: Optional[Val] = None):
        self.items = dict(items)
        self.rest = rest

    def struct_eq(self, o):
        return (isinstance(o, Kw) and set(self.items) == set(o.items) and all(veq(v, o.items[k]) for k, v in self.items.items())
                and ((self.rest is None and o.rest is None) or (self.rest is not None and o.rest is not None and veq(self.rest, o.rest))))

    def rats(self):
        for v in self.items.values():
            yield from v.rats()

    def subst(self, f):
        return Kw({k: v.subst(f) for k, v in self.items.items()}, self.rest)

    def __str__(self):
        inner = ', '.join(f"{k}={v}" for k, v in self.items.items())
        if self.rest is not None:
            inner += (', ' if inner else '') + f"**{self.rest}"
        return '{' + inner + '}'

    __repr__ = __str__


class Term(Val):
    """structured opaque value: head(args; kwargs).  `uid` makes impure results distinct."""

    def __init__(self, head: str, args=(), kwargs=(), kind='unknown', uid: Optional[int] = None, node=None):
        self.head = head
        self.args = tuple(args)
        self.kwargs = tuple(sorted(kwargs, key=lambda kv: kv[0])) if not isinstance(kwargs, dict) else tuple(sorted(kwargs.items()))
        self.kind = kind
        self.uid = uid
        self.node = node

    def struct_eq(self, o):
        if not isinstance(o, Term) or self.head != o.head or self.uid != o.uid:
            return False
        if len(self.args) != len(o.args) or len(self.kwargs) != len(o.kwargs):
            return False
        if not all(veq(a, b) for a, b in zip(self.args, o.args)):
            return False
        return all(k1 == k2 and veq(v1, v2) for (k1, v1), (k2, v2) in zip(self.kwargs, o.kwargs))

    def rats(self):
        for a in self.args:
            if isinstance(a, Val):
                yield from a.rats()
        for _, v in self.kwargs:
            if isinstance(v, Val):
                yield from v.rats()

    def subst(self, f):
        return Term(self.head, [a.subst(f) if isinstance(a, Val) else a for a in self.args],
                    [(k, v.subst(f) if isinstance(v, Val) else v) for k, v in self.kwargs], self.kind, self.uid, self.node)

    def kw(self, name, default=None):
        for k, v in self.kwargs:
            if k == name:
                return v
        return default

    def __str__(self):
        parts = [str(a) for a in self.args] + [f"{k}={v}" for k, v in self.kwargs]
        u = f"#{self.uid}" if self.uid else ''
        head = self.head
        if head.startswith('call:'):
            head = head.rsplit('.', 1)[-1]
        elif head.startswith('lib:'):
            head = head[4:]
        return f"{head}{u}({', '.join(parts)})"

    __repr__ = __str__


class Fn(Val):
    kind = 'callable'

    def __init__(self, fkind: str, ref, self_val: Optional[Val] = None, env=None, module=None, defcls=None):
        self.fkind = fkind       # 'repo' | 'lib' | 'lambda' | 'class' | 'builtin'
        self.ref = ref           # FuncInfo | dotted str | ast.Lambda | ClassInfo
        self.self_val = self_val
        self.env = env
        self.module = module
        self.defcls = defcls

    def name(self):
        if self.fkind in ('repo', 'closure'):
            return self.ref.qualname
        if self.fkind == 'class':
            return self.ref.qualname
        if self.fkind == 'lambda':
            return f"<lambda@{self.ref.lineno}>"
        return str(self.ref)

    def struct_eq(self, o):
        return isinstance(o, Fn) and self.fkind == o.fkind and self.ref is o.ref or (
            isinstance(o, Fn) and self.fkind == o.fkind and self.fkind in ('lib', 'builtin') and self.ref == o.ref)

    def __str__(self):
        return f"<fn {self.name()}>"

    __repr__ = __str__


class Obj(Val):
    kind = 'object'

    def __init__(self, cls, oid: int):
        self.cls = cls
        self.oid = oid

    def struct_eq(self, o):
        return isinstance(o, Obj) and self.oid == o.oid

    def __str__(self):
        return f"<{self.cls.name}#{self.oid}>"

    __repr__ = __str__


class P(Val):
    """predicate tree"""
    kind = 'bool'

    def __init__(self, op: str, *args):
        self.op = op
        self.args = tuple(args)

    def struct_eq(self, o):
        return isinstance(o, P) and self.op == o.op and len(self.args) == len(o.args) and all(veq(a, b) for a, b in zip(self.args, o.args))

    def rats(self):
        for a in self.args:
            if isinstance(a, Val):
                yield from a.rats()

    def subst(self, f):
        return P(self.op, *[a.subst(f) if isinstance(a, Val) else a for a in self.args])

    def __str__(self):
        if self.op == 'not':
            return f"not({self.args[0]})"
        if self.op in ('and', 'or'):
            return '(' + f' {self.op} '.join(map(str, self.args)) + ')'
        return f"{self.op}({', '.join(map(str, self.args))})"

    __repr__ = __str__


TRUE = Const(True)
FALSE = Const(False)
NONE = Const(None)


def p_not(p: Val) -> Val:
    if isinstance(p, Const):
        return Const(not p.v)
    if isinstance(p, P) and p.op == 'not':
        return p.args[0]
    return P('not', p)


def contradicts(p: Val, q: Val) -> bool:
    """syntactic contradiction between two predicates (p == not q)"""
    return veq(p_not(p), q) or veq(p, p_not(q))


class Gam(Val):
    def __init__(self, pred: Val, a: Val, b: Val):
        self.pred, self.a, self.b = pred, a, b
        self.kind = a.kind if getattr(a, 'kind', None) == getattr(b, 'kind', None) else 'mixed'

    def struct_eq(self, o):
        return isinstance(o, Gam) and veq(self.pred, o.pred) and veq(self.a, o.a) and veq(self.b, o.b)

    def rats(self):
        yield from self.pred.rats()
        yield from self.a.rats()
        yield from self.b.rats()

    def subst(self, f):
        return Gam(self.pred.subst(f), self.a.subst(f), self.b.subst(f))

    def __str__(self):
        return f"γ({self.pred} ? {self.a} : {self.b})"

    __repr__ = __str__


def gamma(pred: Val, a: Val, b: Val) -> Val:
    if veq(a, b):
        if isinstance(a, Num) and isinstance(b, Num) and getattr(a, 'dt', None) != getattr(b, 'dt', None):
            # the same numbers, held in different element types depending on the test (a promotion applied to integer input only): the element
            # type of the result is not one of the two tags
            out = Num(a.r, a.length, a.kind)
            out.dt = None
            return out
        return a
    if isinstance(pred, Const):
        return a if pred.v else b
    # (v := environ.get(k)) is None ? d : v   ==   environ.get(k, d)
    q, neg = (pred.args[0], True) if isinstance(pred, P) and pred.op == 'not' else (pred, False)
    if isinstance(q, P) and q.op == 'isnone' and isinstance(q.args[0], Term) and q.args[0].head in ('lib:os.environ.get', 'lib:os.getenv') \
            and q.args[0].kw('default') is None:
        t = q.args[0]
        none_branch, some_branch = (b, a) if neg else (a, b)
        if veq(some_branch, t):
            return Term(t.head, t.args, list(t.kwargs) + [('default', none_branch)], t.kind, t.uid, t.node)
    if isinstance(a, Num) and isinstance(b, Num) and (a.length is None) == (b.length is None) and (
            a.length is None or a.length == b.length):
        mm = _minmax_form(pred, a, b)
        if mm is not None:
            return Num(mm, a.length, a.kind if a.kind == b.kind else 'unknown')
        # canonical conditional: positive predicate, common part factored out:  (p ? a : b) == b + (p ? a - b : 0)
        q_, ar, br = pred, a.r, b.r
        if isinstance(q_, P) and q_.op == 'not':
            q_, ar, br = q_.args[0], br, ar
        if a.length is not None:
            q_ = _pointwise(q_)         # inside an element-wise value the test is read at the element's own position
        # each branch is read with the test settled the way that selects it:  (p ? a : b) == b|¬p + γ(p, a|p - b|¬p, 0)
        els = _under(br, q_, False)
        diff = _under(ar, q_, True) - els
        if diff.is_zero():
            return Num(els, a.length, a.kind if a.kind == b.kind else 'unknown')
        return Num(els + sym.A('gamma', q_, diff, sym.C(0)), a.length, a.kind if a.kind == b.kind else 'unknown')
    return Gam(pred, a, b)


def _pointwise(q: Val) -> Val:
    """a predicate over element-wise arrays as the predicate on element $i (extents dropped, duplicate conjuncts removed)"""
    if isinstance(q, P):
        args = []
        for a_ in q.args:
            if isinstance(a_, Num) and a_.length is not None:
                args.append(Num(a_.r))
            elif isinstance(a_, P):
                args.append(_pointwise(a_))
            else:
                args.append(a_)
        if q.op in ('and', 'or'):
            uniq = []
            for a_ in args:
                if not any(veq(a_, b_) for b_ in uniq):
                    uniq.append(a_)
            return uniq[0] if len(uniq) == 1 else P(q.op, *uniq)
        return P(q.op, *args)
    return q


def _under(r: Rat, q: Val, truth: bool) -> Rat:
    """`r` with every conditional atom on the predicate q (or its negation) resolved, q being known to be `truth`"""
    mapping = {}
    for at in sym.all_atoms(r):
        if sym.ATOMS.head(at) != 'gamma':
            continue
        p_, x_, y_ = sym.ATOMS.args(at)
        if veq(p_, q):
            mapping[at] = _under(x_ if truth else y_, q, truth)
        elif isinstance(p_, P) and p_.op == 'not' and veq(p_.args[0], q):
            mapping[at] = _under(y_ if truth else x_, q, truth)
    return sym.subst(r, mapping) if mapping else r


def minmax_atom(head: str, rs) -> Rat:
    """symmetric min/max of scalars: operands ordered by printed form"""
    rs = sorted(rs, key=sym.show)
    acc = rs[0]
    for r in rs[1:]:
        acc = sym.A(head + '2', acc, r)
    return acc


def _minmax_form(pred: Val, a: 'Num', b: 'Num'):
    """(x < c ? c : x) == max(x, c);  (x < c ? x : c) == min(x, c)  (same for the negated test)"""
    neg = False
    q = pred
    if isinstance(q, P) and q.op == 'not':
        q, neg = q.args[0], True
    if not (isinstance(q, P) and q.op == '<' and all(isinstance(t, Num) and t.length is None for t in q.args)):
        return None
    x, c = q.args[0].r, q.args[1].r
    t, e = (b.r, a.r) if neg else (a.r, b.r)
    if t == c and e == x:
        return minmax_atom('max', [x, c])
    if t == x and e == c:
        return minmax_atom('min', [x, c])
    return None


def arr_param(label: str, kind='ndarray', length: Optional[Rat] = None) -> Num:
    ref = Ref(label)
    n = Num(sym.A('el', ref, sym.idx()), length if length is not None else sym.A('Len', ref), kind)
    n.dt = ('same', label)
    return n


def scalar_param(label: str) -> Num:
    return Num(sym.sym(label))


def term_as_num(t: Val, array: bool, kind=None) -> Num:
    """coerce an opaque term to a numeric value (array element-wise or scalar)"""
    ref = Ref('$t', t)
    if array:
        length = sym.A('Len', ref)
        if isinstance(t, Term) and t.head == 'listcomp' and len(t.args) == 2 and isinstance(t.args[1], Num):
            length = t.args[1].r
            if isinstance(t.args[0], Term):
                # [f(..$i..) | $i < n]: element i is the (opaque) value of the body at i
                return Num(sym.A('val', Ref('$t', t.args[0])), length, kind or 'ndarray')
        elif isinstance(t, Term):
            ln = lib_length(t)
            if ln is not None:
                length = ln
                if t.head == 'lib:numpy.arange' and t.kw('dtype') is None:
                    lo_hi = arange_bounds(t)
                    # arange(m)[i] == i, arange(lo, hi)[i] == lo + i (the forms lib_length knows have step 1)
                    out = Num(sym.idx() + (lo_hi[0] if lo_hi is not None else sym.C(0)), ln, kind or 'ndarray')
                    out.dt = ('int',)
                    return out
        return Num(sym.A('el', ref, sym.idx()), length, kind or 'ndarray')
    return Num(sym.A('val', ref))


def _len_of(v) -> Optional[Rat]:
    if isinstance(v, Num):
        return v.length
    if isinstance(v, Term) and v.kind in ('ndarray', 'list'):
        return term_as_num(v, True, v.kind).length
    if isinstance(v, Term):
        return lib_length(v)
    if isinstance(v, Gam):
        a, b = _len_of(v.a), _len_of(v.b)
        if a is not None and b is not None and a == b:
            return a
    return None


def _size2d(t) -> Optional[Rat]:
    """number of elements of the 2-D result of linspace over 1-D end points, through transposition and dropping the last row"""
    if not isinstance(t, Term):
        return None
    if t.head == 'T' and len(t.args) == 1:
        return _size2d(t.args[0])
    drop = sym.C(0)
    if t.head == 'item' and len(t.args) == 2 and isinstance(t.args[1], Term) and t.args[1].head == 'slice':
        lo, hi, step = t.args[1].args
        if isinstance(lo, Const) and lo.v is None and isinstance(step, Const) and step.v is None and isinstance(hi, Num) and hi.is_const() and hi.const() == -1:
            drop, t = sym.C(1), t.args[0]
        else:
            return None
    if isinstance(t, Term) and t.head == 'lib:numpy.linspace' and t.kw('axis') is None:
        num = t.kw('num')
        ends = [t.kw('start'), t.kw('stop')]
        lens = [_len_of(x) for x in ends if isinstance(x, (Num, Term)) and _len_of(x) is not None]
        if isinstance(num, Num) and num.length is None and lens:
            return (num.r - drop) * lens[0]
    return None


def arange_bounds(t: 'Term'):
    """(lo, hi) of numpy.arange(lo, hi) / arange(lo, stop=hi) with scalar bounds and unit step; None for other forms"""
    if t.head != 'lib:numpy.arange' or t.kw('step') is not None or len(t.args) > 2:
        return None
    lo = t.args[0] if len(t.args) >= 1 else t.kw('start')
    hi = t.args[1] if len(t.args) == 2 else t.kw('stop')
    if len(t.args) == 1 and t.kw('stop') is None:
        return None
    if not (isinstance(lo, Num) and lo.length is None and isinstance(hi, Num) and hi.length is None):
        return None
    return lo.r, hi.r


def lib_length(t: 'Term') -> Optional[Rat]:
    """written table (DESIGN 2.9): symbolic extent of the 1-D result of a few library calls"""
    h = t.head

    def arg(name, i):
        v = t.kw(name)
        if v is None and i is not None and i < len(t.args):
            v = t.args[i]
        return v
    try:
        if h == 'lib:numpy.tile':
            a, reps = arg('A', 0), arg('reps', 1)
            la = _len_of(a)
            if la is not None and isinstance(reps, Num) and reps.length is None:
                return la * reps.r
        elif h in ('lib:numpy.append',):
            a, v = arg('arr', 0), arg('values', 1)
            la = _len_of(a)
            if la is not None and isinstance(v, Num):
                return la + (v.length if v.length is not None else C(1))
        elif h == 'lib:numpy.linspace':
            st_, sp_, num = arg('start', 0), arg('stop', 1), arg('num', 2)
            if isinstance(st_, Num) and st_.length is None and isinstance(sp_, Num) and sp_.length is None:
                return num.r if isinstance(num, Num) else C(50)
        elif h.startswith('lib:numpy.random.'):
            size = arg('size', 2)
            if isinstance(size, Tup) and len(size.items) == 1 and isinstance(size.items[0], Num):
                return size.items[0].r
            if isinstance(size, Num) and size.length is None:
                return size.r
            sc = arg('scale', 1)
            if size is None and isinstance(sc, Num) and sc.length is not None:
                return sc.length
        elif h == 'lib:numpy.interp':
            return _len_of(arg('x', 0))
        elif h in ('lib:numpy.zeros', 'lib:numpy.ones', 'lib:numpy.empty'):
            shp = arg('shape', 0)
            if isinstance(shp, Num) and shp.length is None:
                return shp.r
        elif h in ('lib:numpy.zeros_like', 'lib:numpy.ones_like', 'lib:numpy.empty_like', 'lib:numpy.full_like'):
            shp = t.kw('shape')
            if isinstance(shp, Num) and shp.length is None:
                return shp.r
            if shp is None:
                return _len_of(arg('a', 0) if arg('a', 0) is not None else arg('prototype', 0))
        elif h == 'lib:numpy.arange':
            stop = arg('stop', None)
            start = arg('start', None)
            if len(t.args) == 1 and not t.kwargs and isinstance(t.args[0], Num):
                return t.args[0].r
            if stop is not None and start is None and not t.args and isinstance(stop, Num) and arg('step', None) is None:
                return stop.r
            lo_hi = arange_bounds(t)
            if lo_hi is not None:
                return lo_hi[1] - lo_hi[0]
        elif h == 'method:flatten' and len(t.args) == 1:
            return _size2d(t.args[0])
        elif h == 'apply' and len(t.args) == 2:
            f = t.args[0]
            if isinstance(f, Term) and (f.head in ('lib:scipy.interpolate.CubicSpline', 'lib:scipy.interpolate.BSpline',
                                                   'lib:scipy.interpolate.PchipInterpolator', 'lib:scipy.interpolate.Akima1DInterpolator')
                                        or f.head == 'call:traffic_weaver.process.spline_smooth'):
                return _len_of(t.args[1])
        elif h in ('lib:numpy.sort', 'lib:numpy.cumsum', 'lib:numpy.flip', 'lib:numpy.roll', 'lib:numpy.nan_to_num', 'lib:numpy.clip',
                   'lib:numpy.copy', 'lib:numpy.asarray', 'lib:numpy.array', 'lib:numpy.asanyarray', 'lib:numpy.exp', 'lib:numpy.log', 'lib:numpy.sin', 'lib:numpy.cos', 'lib:numpy.round'):
            return _len_of(arg('a', 0) if arg('a', 0) is not None else arg('x', 0))
        elif h in ('stored', 'loopstate', 'mutated'):
            return _len_of(t.args[0])
        elif h == 'fill' and len(t.args) == 2 and isinstance(t.args[1], Num) and t.args[1].length is None:
            return t.args[1].r
        elif h == 'cat':
            tot = C(0)
            for part in t.args:
                if isinstance(part, Num) and part.length is None:
                    tot = tot + C(1)
                    continue
                ln = _len_of(part)
                if ln is None:
                    return None
                tot = tot + ln
            return tot
    except Exception:
        return None
    return None


def walk_vals(v):
    """yield every Val nested inside v (including rats' atom arguments)"""
    seen = set()

    def rec(x):
        if isinstance(x, Val):
            yield x
            if isinstance(x, Num):
                yield from rec_rat(x.r)
                if x.length is not None:
                    yield from rec_rat(x.length)
            elif isinstance(x, (Tup,)):
                for i in x.items:
                    yield from rec(i)
            elif isinstance(x, Kw):
                for i in x.items.values():
                    yield from rec(i)
                if x.rest is not None:
                    yield from rec(x.rest)
            elif isinstance(x, Term):
                for a in x.args:
                    yield from rec(a)
                for _, a in x.kwargs:
                    yield from rec(a)
            elif isinstance(x, P):
                for a in x.args:
                    yield from rec(a)
            elif isinstance(x, Gam):
                yield from rec(x.pred)
                yield from rec(x.a)
                yield from rec(x.b)
            elif isinstance(x, Ref) and x.term is not None:
                yield from rec(x.term)
        elif isinstance(x, Rat):
            yield from rec_rat(x)
        elif isinstance(x, tuple):
            for y in x:
                yield from rec(y)

    def rec_rat(r):
        for a in sym.all_atoms(r):
            if a in seen:
                continue
            seen.add(a)
            for arg in sym.ATOMS.args(a):
                if isinstance(arg, Val):
                    yield from rec(arg)
                elif isinstance(arg, tuple):
                    yield from rec(arg)

    yield from rec(v)


def find_terms(v, head_prefix: str) -> List[Term]:
    return [t for t in walk_vals(v) if isinstance(t, Term) and t.head.startswith(head_prefix)]
