"""Semantic model of the two-pointer neighbour scans (C10), built from the evaluator's loop summaries.

The scan functions walk two sorted sequences with iterators and sentinels.  This module does not recognise their source
text; it evaluates a scan once (symbolically, each loop body once with its loop-carried names opaque) and reads off

  * which names hold the iterators, the first / current / look-ahead element, the query, the two counters and the result
    array - from the *values* they have before the first loop (so helpers, tuple unpacking and renamings do not matter);
  * per loop: its condition, the value every carried name has at the end of one iteration in terms of its value at the
    start, the guarded stores into the result, and the guarded breaks.

Conditions and stored values are compared with the documented ones through finite decision tables over the orderings of
the compared values (truth.py), so inverted tests, temporaries, conditional expressions versus statements and reordered
independent statements all denote the same thing."""
from __future__ import annotations

import ast
from typing import Dict, List, Optional, Tuple

from . import sym
from .sym import C, Rat
from .values import Val, Num, Const, Tup, Term, P, Gam, Ref, veq, arr_param, walk_vals, p_not, NONE
from .model import AnalysisError, FuncInfo, Program
from .symeval import Evaluator, arr_identity, Event
from .truth import Universe, equivalent, substitute_terms


class Unrecognised(AnalysisError):
    pass


def _is_term(v, head) -> bool:
    return isinstance(v, Term) and v.head == head


def p_and(*ps) -> Val:
    out = []
    for p in ps:
        if isinstance(p, Const):
            if not p.v:
                return Const(False)
            continue
        out.append(p)
    if not out:
        return Const(True)
    return out[0] if len(out) == 1 else P('and', *out)


class ScanModel:
    def __init__(self, prog: Program, fi: FuncInfo, inline=None, opaque_kind=None):
        self.prog, self.fi = prog, fi
        ps = fi.params()
        if len(ps) < 2:
            raise Unrecognised(f"{fi.name}: expected (x, lookup, ...) parameters")
        self.px, self.pl = ps[0], ps[1]
        self.pfill = ps[2] if len(ps) > 2 else None
        self.Lx, self.Lq = sym.sym('L'), sym.sym('Q')
        self.x, self.lk = arr_param('x', length=self.Lx), arr_param('lookup', length=self.Lq)
        args = {self.px: self.x, self.pl: self.lk}
        self.fill = None
        if self.pfill:
            self.fill = Term('param', (Const(self.pfill),))
            args[self.pfill] = self.fill
        ev = Evaluator(prog, inline=inline or (lambda f: True), opaque_kind=opaque_kind or {})
        self.ev = ev
        self.result, self.final = ev.run_function(fi, args=args)
        if ev.issues:
            raise Unrecognised(f"{fi.name}: {ev.issues[0]}")
        from .values import Gam as _Gam
        if isinstance(self.result, _Gam) and not any(isinstance(t_, Term) and t_.head in ('loopvar', 'loopstate', 'stored', 'lib:next') for t_ in walk_vals(self.result.pred)):
            raise Unrecognised(f"{fi.name}: the function chooses between the scan and another way of computing the result (a fast path in front of it) "
                               f"under a condition outside the scan's vocabulary: {str(self.result.pred)[:120]}")
        self._loops()
        self._roles()

    # ------------------------------------------------------------------ structure
    def _loops(self):
        log = self.ev.loop_log
        top = [e for e in log if e['depth'] == 0]
        inner = [e for e in log if e['depth'] == 1]
        deeper = [e for e in log if e['depth'] > 1]
        for_loops = [e for e in self.ev.events if any(l.kind != 'while' for l in e.loops)]
        if len(top) != 2 or len(inner) != 1 or deeper or for_loops or any(e['orelse'] for e in log):
            raise Unrecognised(f"{self.fi.name}: expected the prefix loop and the main loop with one nested advance loop; found "
                               f"{len(top)} top-level and {len(inner)} nested while loops")
        self.prefix, self.main = top
        self.adv = inner[0]
        d0 = len(self.prefix.get('outer', ()))
        if len(self.main.get('outer', ())) != d0:
            raise Unrecognised(f"{self.fi.name}: the two top-level loops are in different functions")
        da = len(self.adv.get('outer', ()))
        if da > d0:
            # the advance loop lives in a helper / method called from the main loop: the roles kept in local names are those of the calling function
            # (the helper cannot re-bind them); the ones kept in object fields are shared
            caller = self.adv['outer'][d0]
            if caller is None:
                raise Unrecognised(f"{self.fi.name}: the nested loop's calling frame is not known")
            adv = dict(self.adv)
            adv['_outer'] = caller
            adv['entry'] = self._view(adv, self.adv['entry'])
            adv['names'] = {n for n in self.adv['names'] if n.startswith('@')}
            self.adv = adv
        elif da < d0:
            raise Unrecognised(f"{self.fi.name}: the nested loop is outside the function of the main loop")
        if not any(l.lid == self.main['lid'] for l in self._loop_stack(self.adv)):
            raise Unrecognised(f"{self.fi.name}: the nested loop is not inside the second top-level loop")

    def _loop_stack(self, entry):
        for e in self.ev.events:
            if e.loops and e.loops[-1].lid == entry['lid']:
                return e.loops
        # no event inside: find through the node nesting
        for e in self.ev.events:
            for l in e.loops:
                if l.lid == self.main['lid'] and any(n is entry['node'] for n in ast.walk(l.node)):
                    return (l,)
        return ()

    def _roles(self):
        pre = self.flat(self.prefix['pre'])
        its, nexts = {}, []
        # calls made before the first loop
        for e in self.ev.events:
            if e.kind == 'lib' and not e.loops and e.data['name'] == 'builtins.iter':
                its[e.data['result'].uid] = e
            if e.kind == 'lib' and not e.loops and e.data['name'] == 'builtins.next':
                nexts.append(e)

        self.resized: List[str] = []

        def iter_of(t) -> Optional[str]:
            if _is_term(t, 'iter') and t.args:
                a, changed = self._sequence(t.args[0])
                for nm, par in (('x', self.x), ('lookup', self.lk)):
                    if a is not None and veq(a, par):
                        if changed and f"{nm}: {changed}" not in self.resized:
                            self.resized.append(f"{nm}: {changed}")
                        return nm
            return None
        xs = [e for e in nexts if iter_of(e.data['pos'][0]) == 'x']
        ls = [e for e in nexts if iter_of(e.data['pos'][0]) == 'lookup']
        if len(xs) != 2 or len(ls) not in (1, 2) or len({e.data['pos'][0].uid for e in xs}) != 1 or len({e.data['pos'][0].uid for e in ls}) != 1:
            raise Unrecognised(f"{self.fi.name}: initialisation not recognised: expected two elements taken from one iterator over "
                               f"{self.px} and one (or two, with a look-ahead query) from an iterator over {self.pl} before the loops (found {len(xs)} and {len(ls)})")
        ls.sort(key=lambda e: e.seq)
        first, second = sorted(xs, key=lambda e: e.seq)
        self.issues: List[str] = []
        if len(first.data['pos']) != 1:
            self.issues.append('the first element is fetched with a default (the array is documented as non-empty)')
        if not (len(second.data['pos']) == 2 and isinstance(second.data['pos'][1], Const) and second.data['pos'][1].v is None):
            raise_or = 'the look-ahead element is not fetched with a None sentinel'
            self.issues.append(raise_or)
        self.X0, self.X1, self.L0 = first.data['result'], second.data['result'], ls[0].data['result']
        # a look-ahead query (value <- next_value <- next(iterator, None)): the query stream delayed by one element
        self.L1 = ls[1].data['result'] if len(ls) == 2 else None
        if self.L1 is not None and not (len(ls[1].data['pos']) == 2 and isinstance(ls[1].data['pos'][1], Const) and ls[1].data['pos'][1].v is None):
            self.issues.append('the look-ahead query is not fetched with a None sentinel')
        self.x_it, self.l_it = first.data['pos'][0], ls[0].data['pos'][0]

        def names_with(pred):
            return sorted(n for n, v in pre.items() if pred(v))
        self.n_next = names_with(lambda v: veq(v, self.X1))
        self.n_lk = names_with(lambda v: veq(v, self.L0))
        self.n_cur = names_with(lambda v: veq(v, self.X0))
        self.n_ind = names_with(lambda v: self._is_result_array(v))
        zeros = names_with(lambda v: isinstance(v, Num) and v.length is None and v.is_const() and v.const() == 0)
        advn, mainn, pren = self.adv['names'], self.main['names'], self.prefix['names']
        self.n_p = [n for n in zeros if n in advn]
        self.n_q = [n for n in zeros if n not in advn and n in mainn and n in pren]
        # the carried current element: a name holding the first element that the advance loop re-assigns
        self.n_cur_carried = [n for n in self.n_cur if n in advn]
        for what, names, need in (('look-ahead element', [n for n in self.n_next if n in advn], 1), ('query', [n for n in self.n_lk if n in mainn and n in pren], 1),
                                  ('array counter', self.n_p, 1), ('query counter', self.n_q, 1), ('result array', self.n_ind, 1)):
            if len(names) != need:
                raise Unrecognised(f"{self.fi.name}: initialisation not recognised: {len(names)} candidate names for the {what} ({names})")
        self.lk_next = None
        if self.L1 is not None:
            cands = [n for n in names_with(lambda v: veq(v, self.L1)) if n in mainn and n in pren]
            if len(cands) != 1:
                raise Unrecognised(f"{self.fi.name}: initialisation not recognised: {len(cands)} candidate names for the look-ahead query ({cands})")
            self.lk_next = cands[0]
        self.nxt = [n for n in self.n_next if n in advn][0]
        self.lkn = [n for n in self.n_lk if n in mainn and n in pren][0]
        self.p, self.q, self.ind = self.n_p[0], self.n_q[0], self.n_ind[0]
        self.cur = self.n_cur_carried[0] if len(self.n_cur_carried) == 1 else None

    PASS_THROUGH = ('lib:numpy.asarray', 'lib:numpy.asanyarray', 'lib:numpy.array', 'lib:numpy.ascontiguousarray', 'lib:numpy.sort', 'lib:builtins.list',
                    'lib:builtins.tuple', 'lib:builtins.sorted', 'method:copy', 'lib:numpy.copy', 'method:tolist', 'lib:numpy.atleast_1d', 'lib:numpy.ravel',
                    'lib:numpy.asfarray', 'method:astype', 'method:ravel', 'method:flatten')
    LENGTH_CHANGING = ('lib:numpy.unique', 'lib:numpy.compress', 'lib:numpy.extract', 'lib:numpy.delete', 'lib:numpy.trim_zeros', 'lib:builtins.set',
                       'lib:builtins.filter', 'lib:numpy.setdiff1d', 'lib:numpy.union1d', 'lib:numpy.intersect1d')

    def _sequence(self, v) -> Tuple[Optional[Val], List[str]]:
        """(the parameter a scanned sequence goes back to, the length-changing operations on the way); content-preserving
        wrappers (asarray, copy, sort of the documented-sorted input, ...) are looked through"""
        changed: List[str] = []
        for _ in range(8):
            if veq(v, self.x) or veq(v, self.lk):
                return v, changed
            t = arr_identity(v) if isinstance(v, Num) else v
            if not isinstance(t, Term):
                return None, changed
            if t.head in self.LENGTH_CHANGING:
                changed.append(t.head.split(':', 1)[1])
            elif t.head not in self.PASS_THROUGH:
                return None, changed
            cands = [a for a in list(t.args) + [kv[1] for kv in t.kwargs] if isinstance(a, (Num, Term))]
            if not cands:
                return None, changed
            v = cands[0]
            for c in cands:
                if veq(c, self.x) or veq(c, self.lk):
                    v = c
        return None, changed

    def _is_result_array(self, v) -> bool:
        t = arr_identity(v) if isinstance(v, Num) else v
        return isinstance(t, Term) and t.head in ('lib:numpy.zeros', 'lib:numpy.empty', 'lib:numpy.full', 'lib:numpy.ones')

    def result_alloc(self) -> Optional[Term]:
        v = self.prefix['pre'].env.get(self.ind)
        return arr_identity(v) if isinstance(v, Num) else v

    # ------------------------------------------------------------------ values of names inside the loops
    def entry(self, loop, name) -> Val:
        """value of `name` at the start of an iteration of `loop`"""
        return loop['entry'][name]

    def end(self, loop, name) -> Val:
        return self._view(loop, self.flat(loop['end']))[name]

    def pre(self, loop, name) -> Optional[Val]:
        """value of `name` just before `loop`"""
        return self._view(loop, self.flat(loop['pre'])).get(name)

    @staticmethod
    def _view(loop, env: dict) -> dict:
        """for a loop inside a helper: the calling function's names, and the object fields as the helper sees them"""
        outer = loop.get('_outer')
        if outer is None:
            return env
        out = dict(outer)
        out.update({k: v for k, v in env.items() if k.startswith('@')})
        return out

    @staticmethod
    def flat(state) -> dict:
        """names and object fields (`@<oid>.<field>`) of a state: a cursor object's fields are loop state like local names"""
        from .symeval import flat_env
        return flat_env(state.env, state.heap)

    def num(self, v) -> Num:
        n = self.ev.as_num(v)
        if n is None:
            raise Unrecognised(f"{self.fi.name}: {v} is not usable as a number")
        return n

    # predicates of the documented algorithm
    def notnone(self, v) -> Val:
        return p_not(P('isnone', v))

    def isnone(self, v) -> Val:
        return P('isnone', v)

    def lt(self, a, b) -> Val:
        return P('<', self.num(a), self.num(b))

    def le(self, a, b) -> Val:
        return p_not(P('<', self.num(b), self.num(a)))

    def fill_true(self) -> Val:
        return P('truthy', self.fill)

    # ------------------------------------------------------------------ events of one loop (not of nested loops)
    def events_in(self, loop, kinds, nested=False) -> List[Event]:
        out = []
        for e in self.ev.events:
            if e.kind in kinds and e.loops and (e.loops[-1].lid == loop['lid'] or (nested and any(l.lid == loop['lid'] for l in e.loops))):
                out.append(e)
        return out

    def guard_in(self, loop, e: Event) -> Val:
        """the event's guard inside the loop body (the loop condition and everything outside are dropped)"""
        base = len(loop['end'].guard) if False else None
        outer = loop['pre'].guard
        g = list(e.guard[len(outer):])
        cond = loop['cond']
        if g and not isinstance(cond, Const) and veq(g[0], cond):
            g = g[1:]
        return p_and(*g)

    def stores(self, loop) -> List[Event]:
        out = []
        for e in self.events_in(loop, ('store',)):
            t = e.data.get('target_expr')
            if isinstance(t, ast.Name) and t.id == self.ind:
                out.append(e)
        return out

    def result_stores_outside_loops(self) -> List[Event]:
        """stores into the result array that are not made by one of the three recognised loops (slice / vectorised stores before, between or after them)"""
        lids = {self.prefix['lid'], self.main['lid'], self.adv['lid']}
        return [e for e in self.ev.events if e.kind == 'store' and isinstance(e.data.get('target_expr'), ast.Name) and e.data['target_expr'].id == self.ind
                and not any(l.lid in lids for l in e.loops)]

    def foreign_stores(self) -> List[Event]:
        return [e for e in self.ev.events if e.kind in ('store', 'field', 'append') and not (
            isinstance(e.data.get('target_expr'), ast.Name) and e.data['target_expr'].id == self.ind)]

    def next_state(self, loop, v):
        """`v` (over the loop's entry values) one iteration later"""
        mapping = {}
        endenv = self._view(loop, self.flat(loop['end']))
        for name, ent in loop['entry'].items():
            if name in loop['names'] and name in endenv:
                mapping[name] = (ent, endenv[name])

        def fn(t: Term):
            for name, (ent, endv) in mapping.items():
                et = ent
                if isinstance(et, Num):
                    et = _single_val_term(et)
                if isinstance(et, Term) and et.head == t.head and et.uid == t.uid and veq(et, t):
                    return endv
            return None
        return substitute_terms(v, fn)


def _single_val_term(n: Num) -> Optional[Term]:
    atoms = n.r.atoms()
    if len(atoms) == 1:
        (a,) = atoms
        if sym.ATOMS.head(a) == 'val' and n.r == Rat.atom(a):
            t = sym.ATOMS.args(a)[0]
            if isinstance(t, Ref) and t.term is not None:
                t = t.term
            if isinstance(t, Term):
                return t
    return None


def roots(v) -> List[Val]:
    """the arrays a (possibly stored-into, loop-carried, conditionally selected) array value goes back to"""
    if isinstance(v, Gam):
        return roots(v.a) + roots(v.b)
    if isinstance(v, Num):
        t = arr_identity(v)
        return roots(t) if isinstance(t, Term) else [v]
    if isinstance(v, Term) and v.head in ('stored', 'loopstate', 'loopvar') and v.args and isinstance(v.args[0], Val) and not isinstance(v.args[0], Const):
        return roots(v.args[0])
    return [v]


def element_atoms(v) -> List[str]:
    """opaque element values (iterator reads, loop-carried element names) inside a stored value"""
    out = []
    for t in walk_vals(v):
        if isinstance(t, Term) and (t.head in ('lib:next', 'lib:builtins.next') or t.head == 'loopvar'):
            out.append(str(t))
    return out
