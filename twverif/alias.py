"""E2: alias / freshness / in-place write analysis (DESIGN 2.2).

Origins of an array-valued expression: PARAM:<name> (caller-owned), FIELD:<name> (self field), FRESH.
Flow-sensitive inside a function, summaries (mutates / returns-alias-of) to a fixpoint over the call graph.
Works on the syntax tree; library behaviour comes from the written table below.
"""
from __future__ import annotations

import ast
from dataclasses import dataclass, field
from typing import Dict, List, Set, Optional, Tuple

from .model import Program, FuncInfo, ClassInfo

FRESH = 'FRESH'

# written table (DESIGN 2.9): library functions whose result may share memory with their first argument
VIEW_FUNCS = {
    'numpy.asarray', 'numpy.asanyarray', 'numpy.ascontiguousarray', 'numpy.asfortranarray', 'numpy.atleast_1d', 'numpy.atleast_2d',
    'numpy.atleast_3d', 'numpy.ravel', 'numpy.reshape', 'numpy.squeeze', 'numpy.transpose', 'numpy.swapaxes', 'numpy.moveaxis',
    'numpy.broadcast_to', 'numpy.expand_dims', 'numpy.diagonal', 'numpy.flip', 'numpy.flipud', 'numpy.fliplr', 'numpy.rot90',
    'numpy.split', 'numpy.array_split', 'numpy.hsplit', 'numpy.vsplit', 'numpy.trim_zeros', 'numpy.real', 'numpy.imag',
    'numpy.nan_to_num',     # only with copy=False; handled below
    'numpy.require', 'numpy.asarray_chkfinite', 'numpy.lib.stride_tricks.as_strided', 'numpy.lib.stride_tricks.sliding_window_view',
}
VIEW_METHODS = {'reshape', 'ravel', 'view', 'squeeze', 'transpose', 'swapaxes', 'T', 'real', 'imag', 'diagonal', 'array', 'values'}
FRESH_METHODS = {'copy', 'astype', 'flatten', 'repeat', 'take', 'tolist', 'cumsum', 'round', 'clip', 'sum', 'mean', 'std', 'min', 'max',
                 'item', 'argsort', 'nonzero', 'compress', 'choose', 'dot', 'conj', 'var', 'prod', 'any', 'all', 'argmin', 'argmax'}
MUTATING_METHODS = {'sort', 'fill', 'put', 'resize', 'itemset', 'partition', 'byteswap', 'setfield', 'append', 'extend', 'insert',
                    'pop', 'remove', 'clear', 'reverse', 'update'}
# methods that change which items a list / dict / set holds, not the items themselves
CONTAINER_ONLY_METHODS = {'append', 'extend', 'insert', 'pop', 'remove', 'clear', 'reverse', 'update'}
MUTATING_FUNCS = {'numpy.put': 0, 'numpy.copyto': 0, 'numpy.place': 0, 'numpy.putmask': 0, 'numpy.fill_diagonal': 0,
                  'numpy.put_along_axis': 0, 'numpy.random.shuffle': 0}


@dataclass
class WriteSite:
    func: FuncInfo
    node: ast.AST
    origins: frozenset
    how: str

    def loc(self):
        return self.func.loc(self.node)


@dataclass
class Summary:
    mutates: Set[str] = field(default_factory=set)          # parameter names written in place (transitively)
    returns: Set[str] = field(default_factory=set)          # PARAM:/FIELD: origins the return value may alias
    returns_tuple: Optional[List[Set[str]]] = None          # per position, when every return is a tuple display of one length
    field_stores: Dict[str, Set[str]] = field(default_factory=dict)   # self.field -> origins assigned (methods)
    self_mutated_fields: Set[str] = field(default_factory=set)        # self fields written in place
    default_used: int = 0


class AliasAnalysis:
    def __init__(self, prog: Program):
        self.prog = prog
        self.summ: Dict[str, Summary] = {f.qualname: Summary() for f in prog.all_functions()}
        self.writes: List[WriteSite] = []
        self.default_fresh_calls = 0
        self.funcs = {f.qualname: f for f in prog.all_functions()}
        self.spec_cache: Dict[tuple, Summary] = {}
        self._depth = 0
        for _ in range(6):
            self.spec_cache = {}
            changed = False
            self.writes = []
            self.default_fresh_calls = 0
            for fi in self.funcs.values():
                new = self._analyse(fi)
                old = self.summ[fi.qualname]
                if (new.mutates, new.returns, new.field_stores, new.self_mutated_fields, new.returns_tuple) != \
                        (old.mutates, old.returns, old.field_stores, old.self_mutated_fields, old.returns_tuple):
                    changed = True
                self.summ[fi.qualname] = new
            if not changed:
                break
        # de-duplicate write sites
        seen = {}
        for w in self.writes:
            k = (w.func.qualname, id(w.node))
            if k in seen:
                seen[k] = WriteSite(w.func, w.node, seen[k].origins | w.origins, w.how)
            else:
                seen[k] = w
        self.writes = list(seen.values())

    # ------------------------------------------------------------------ per function
    def specialised(self, fi: FuncInfo, consts: Dict[str, object]) -> Summary:
        """summary of fi with some parameters bound to literals (conditional constant propagation of dispatch arguments)"""
        if not consts or self._depth > 3:
            return self.summ.get(fi.qualname, Summary())
        key = (fi.qualname, tuple(sorted((k, repr(v)) for k, v in consts.items())))
        if key not in self.spec_cache:
            self._depth += 1
            saved_writes = self.writes
            self.writes = []
            try:
                self.spec_cache[key] = self._analyse(fi, consts)
            finally:
                self.writes = saved_writes
                self._depth -= 1
        return self.spec_cache[key]

    def _analyse(self, fi: FuncInfo, consts: Optional[Dict[str, object]] = None) -> Summary:
        s = Summary()
        params = fi.params()
        a = fi.node.args
        allp = params + [x.arg for x in a.kwonlyargs]
        env: Dict[str, frozenset] = {}
        is_method = fi.cls is not None and not fi.is_static
        for p in allp:
            env[p] = frozenset({'PARAM:' + p})
        if a.vararg:
            env[a.vararg.arg] = frozenset({'PARAM:*' + a.vararg.arg})
        if a.kwarg:
            env[a.kwarg.arg] = frozenset({'PARAM:**' + a.kwarg.arg})
        self._local_imports = {}
        for n in ast.walk(fi.node):
            if isinstance(n, (ast.Import, ast.ImportFrom)):
                self.prog._index_import(fi.module, n, self._local_imports)
        saved_imports = getattr(self, '_local_imports', {})
        ctx = _Ctx(fi, s, is_method, dict(consts or {}), _array_names(fi))
        ctx.imports = self._local_imports
        self._block(fi.node.body, env, ctx)
        if ctx.ret_tuples and all(t is not None and len(t) == len(ctx.ret_tuples[0]) for t in ctx.ret_tuples):
            n = len(ctx.ret_tuples[0])
            s.returns_tuple = [set().union(*[set(t[i]) for t in ctx.ret_tuples]) for i in range(n)]
        self._local_imports = saved_imports
        return s

    def _join(self, a: Dict[str, frozenset], b: Dict[str, frozenset]) -> Dict[str, frozenset]:
        out = dict(a)
        for k, v in b.items():
            if k.startswith('$cls:'):
                out[k] = v
                continue
            if k.startswith('$tuple:'):
                if k in out and out[k] != v:
                    out[k] = tuple(frozenset(_flat(x)) | frozenset(_flat(y)) for x, y in zip(out[k], v)) if len(out[k]) == len(v) else v
                else:
                    out[k] = v
                continue
            out[k] = frozenset(_flat(out.get(k, frozenset()))) | frozenset(_flat(v))
        return out

    def _block(self, stmts, env, ctx):
        for st in stmts:
            env = self._stmt(st, env, ctx)
        return env

    def _stmt(self, st, env, ctx: '_Ctx'):
        if isinstance(st, ast.Assign):
            v = self._expr(st.value, env, ctx)
            for t in st.targets:
                env = self._assign(t, v, st.value, env, ctx, st)
            return env
        if isinstance(st, ast.AnnAssign):
            if st.value is not None:
                return self._assign(st.target, self._expr(st.value, env, ctx), st.value, env, ctx, st)
            return env
        if isinstance(st, ast.AugAssign):
            self._expr(st.value, env, ctx)
            t = st.target
            if isinstance(t, ast.Subscript):
                self._write(t.value, env, ctx, st, 'augmented slice/element store')
            elif isinstance(t, ast.Name):
                o = env.get(t.id, frozenset())
                # `a += v` mutates in place when a is an ndarray; origins that are not FRESH-only make this a write site
                if o and o != frozenset({FRESH}) and t.id in ctx.array_names:
                    self._record_write(o, ctx, st, f"augmented assignment to name '{t.id}' (in-place for arrays)")
            elif isinstance(t, ast.Attribute):
                o = self._expr(t, env, ctx)
                self._record_write(o, ctx, st, 'augmented assignment to attribute (in-place for arrays)')
            return env
        if isinstance(st, ast.Expr):
            self._expr(st.value, env, ctx)
            return env
        if isinstance(st, ast.Return):
            if st.value is not None:
                v = self._expr(st.value, env, ctx)
                ctx.ret_tuples.append(tuple(frozenset(_flat(x)) for x in v) if isinstance(v, tuple) else None)
                for o in _flat(v):
                    if o != FRESH:
                        ctx.summ.returns.add(o)
            else:
                ctx.ret_tuples.append(None)
            ctx.terminated = True
            return env
        if isinstance(st, ast.If):
            self._expr(st.test, env, ctx)
            c = _fold(st.test, ctx.consts)
            if c is True:
                return self._block(st.body, env, ctx)
            if c is False:
                return self._block(st.orelse, env, ctx)
            a = self._block(st.body, dict(env), ctx)
            b = self._block(st.orelse, dict(env), ctx)
            return self._join(a, b)
        if isinstance(st, getattr(ast, 'Match', ())):
            from .model import desugar_match
            stmts = desugar_match(st)
            if stmts is not None:
                return self._block(stmts, env, ctx)
            out = None
            for case in st.cases:           # structural patterns: every case body may run
                b = self._block(case.body, dict(env), ctx)
                out = b if out is None else self._join(out, b)
            return self._join(out, env) if out is not None else env
        if isinstance(st, (ast.For, ast.While)):
            if isinstance(st, ast.For) and isinstance(st.iter, (ast.Tuple, ast.List)) and isinstance(st.target, ast.Name) and not st.orelse \
                    and all(_literal(el, ctx.consts) is not _NOLIT for el in st.iter.elts) \
                    and not any(isinstance(n, (ast.Break, ast.Continue)) for b in st.body for n in ast.walk(b)):
                # a loop over a literal table of constants is unrolled, the loop variable bound to each constant in turn
                saved = ctx.consts
                try:
                    for el in st.iter.elts:
                        ctx.consts = dict(saved)
                        ctx.consts[st.target.id] = _literal(el, saved)
                        env = self._block(st.body, env, ctx)
                finally:
                    ctx.consts = saved
                return env
            if isinstance(st, ast.For):
                it = self._expr(st.iter, env, ctx)
                env = self._assign(st.target, frozenset({FRESH}), None, env, ctx, st)
            else:
                self._expr(st.test, env, ctx)
            for _ in range(2):
                env = self._join(env, self._block(st.body, dict(env), ctx))
            if st.orelse:
                env = self._block(st.orelse, env, ctx)
            return env
        if isinstance(st, ast.Try):
            e1 = self._block(st.body, dict(env), ctx)
            out = e1
            for h in st.handlers:
                out = self._join(out, self._block(h.body, dict(env), ctx))
            if st.orelse:
                out = self._block(st.orelse, out, ctx)
            if st.finalbody:
                out = self._block(st.finalbody, out, ctx)
            return out
        if isinstance(st, ast.With):
            for item in st.items:
                v = self._expr(item.context_expr, env, ctx)
                if item.optional_vars is not None:
                    env = self._assign(item.optional_vars, frozenset({FRESH}), None, env, ctx, st)
            return self._block(st.body, env, ctx)
        if isinstance(st, (ast.FunctionDef, ast.ClassDef)):
            return env
        for n in ast.iter_child_nodes(st):
            if isinstance(n, ast.expr):
                self._expr(n, env, ctx)
        return env

    def _assign(self, t, v, value_node, env, ctx: '_Ctx', st):
        if isinstance(t, ast.Name):
            env = dict(env)
            ctx.consts.pop(t.id, None)
            for k in [k for k in env if k.startswith(t.id + '.') or k == '$cls:' + t.id]:
                del env[k]
            if isinstance(value_node, ast.Call):
                r = self.prog.resolve_expr(ctx.fi.module, value_node.func, ctx.imports) if not _rooted_in_local(value_node.func, env) else None
                if r is not None and r[0] == 'class':
                    env['$cls:' + t.id] = r[2]
                    for fld, origs in getattr(self, '_last_ctor_fields', {}).items():
                        env[f"{t.id}.{fld}"] = origs
            env[t.id] = v if isinstance(v, frozenset) else frozenset(_flat(v))
            if isinstance(v, tuple):
                env['$tuple:' + t.id] = v
            # a name bound to a list / dict / set display or comprehension holds a container made here: adding or removing items changes that
            # container, not the memory of its items
            if isinstance(value_node, (ast.List, ast.ListComp, ast.Dict, ast.DictComp, ast.Set, ast.SetComp)):
                env['$container:' + t.id] = frozenset({FRESH})
            else:
                env.pop('$container:' + t.id, None)
            return env
        if isinstance(t, (ast.Tuple, ast.List)):
            if isinstance(v, tuple) and len(v) == len(t.elts):
                for sub, sv in zip(t.elts, v):
                    env = self._assign(sub, sv, None, env, ctx, st)
            else:
                for sub in t.elts:
                    env = self._assign(sub, frozenset(_flat(v)), None, env, ctx, st)
            return env
        if isinstance(t, ast.Attribute):
            if isinstance(t.value, ast.Name) and t.value.id == 'self' and ctx.is_method:
                ctx.summ.field_stores.setdefault(t.attr, set()).update(_flat(v))
                env = dict(env)
                env['self.' + t.attr] = frozenset(_flat(v))
            return env
        if isinstance(t, ast.Subscript):
            self._expr(t.slice, env, ctx) if not isinstance(t.slice, ast.Slice) else None
            if isinstance(t.value, ast.Name) and ('$cls:' + t.value.id) in env:
                ci = env['$cls:' + t.value.id]
                m = self.prog.find_method(ci, '__setitem__')
                if m is not None:
                    sm = self.summ.get(m.qualname, Summary())
                    o = set()
                    for fld in sm.self_mutated_fields:
                        o |= set(env.get(f"{t.value.id}.{fld}", frozenset({FRESH})))
                    self._record_write(frozenset(o or {FRESH}), ctx, st, f"store through {ci.name}.__setitem__ into the wrapped array")
                    return env
            self._write(t.value, env, ctx, st, 'slice/element store')
            return env
        return env

    def _write(self, base_expr, env, ctx: '_Ctx', st, how):
        o = self._expr(base_expr, env, ctx)
        self._record_write(frozenset(_flat(o)), ctx, st, how)

    def _record_write(self, origins: frozenset, ctx: '_Ctx', node, how):
        self.writes.append(WriteSite(ctx.fi, node, origins, how))
        for o in origins:
            if o.startswith('PARAM:'):
                p = o[6:]
                if p == 'self':
                    continue
                ctx.summ.mutates.add(p)
            elif o.startswith('FIELD:'):
                ctx.summ.self_mutated_fields.add(o[6:])

    # ------------------------------------------------------------------ expressions
    def _expr(self, e, env, ctx: '_Ctx'):
        if e is None:
            return frozenset({FRESH})
        if isinstance(e, ast.Name):
            return env.get(e.id, frozenset({FRESH}))
        if isinstance(e, ast.Constant):
            return frozenset({FRESH})
        if isinstance(e, ast.Attribute):
            if isinstance(e.value, ast.Name) and e.value.id == 'self' and ctx.is_method:
                key = 'self.' + e.attr
                if key in env:
                    return env[key]
                return frozenset({'FIELD:' + e.attr})
            if isinstance(e.value, ast.Name) and ('$cls:' + e.value.id) in env:
                ci = env['$cls:' + e.value.id]
                key = f"{e.value.id}.{e.attr}"
                if key in env:
                    return env[key]
                m = self.prog.find_method(ci, e.attr)
                if m is not None and m.is_property:
                    sm = self.summ.get(m.qualname, Summary())
                    o = set()
                    for r_ in sm.returns:
                        if r_.startswith('FIELD:'):
                            o |= set(env.get(f"{e.value.id}.{r_[6:]}", frozenset({FRESH})))
                    return frozenset(o or {FRESH})
            base = self._expr(e.value, env, ctx)
            if e.attr in VIEW_METHODS or True:
                # attribute of an array/object: a view (x.T) or a wrapped array (interval.array): may alias the base
                r = self.prog.resolve_expr(ctx.fi.module, e, ctx.imports)
                if r is not None:
                    return frozenset({FRESH})
                if e.attr in ('shape', 'size', 'dtype', 'ndim', 'n'):
                    return frozenset({FRESH})
                return frozenset(_flat(base))
        if isinstance(e, ast.Subscript):
            base = self._expr(e.value, env, ctx)
            if isinstance(base, tuple):
                if isinstance(e.slice, ast.Constant) and isinstance(e.slice.value, int) and -len(base) <= e.slice.value < len(base):
                    return base[e.slice.value]
                return frozenset(_flat(base))
            if _is_basic_slice(e.slice):
                return frozenset(_flat(base))
            self._expr(e.slice, env, ctx)
            return frozenset({FRESH})        # element read / fancy / boolean indexing copies
        if isinstance(e, (ast.Tuple, ast.List)):
            return tuple(self._expr(x, env, ctx) for x in e.elts)
        if isinstance(e, ast.IfExp):
            self._expr(e.test, env, ctx)
            return frozenset(_flat(self._expr(e.body, env, ctx))) | frozenset(_flat(self._expr(e.orelse, env, ctx)))
        if isinstance(e, ast.Call):
            return self._call(e, env, ctx)
        if isinstance(e, ast.Starred):
            return self._expr(e.value, env, ctx)
        if isinstance(e, (ast.ListComp, ast.GeneratorExp, ast.SetComp, ast.DictComp, ast.Lambda)):
            return frozenset({FRESH})
        for n in ast.iter_child_nodes(e):
            if isinstance(n, ast.expr):
                self._expr(n, env, ctx)
        return frozenset({FRESH})

    def _call(self, e: ast.Call, env, ctx: '_Ctx'):
        args = [self._expr(a, env, ctx) for a in e.args]
        kws = {k.arg: self._expr(k.value, env, ctx) for k in e.keywords}
        f = e.func
        if isinstance(f, ast.Name) and f.id == 'setattr' and len(e.args) == 3 and isinstance(e.args[0], ast.Name) and e.args[0].id == 'self' and ctx.is_method:
            lit = _literal(e.args[1], ctx.consts)
            targets = [lit] if isinstance(lit, str) else ['*']
            for t_ in targets:
                ctx.summ.field_stores.setdefault(t_, set()).update(_flat(args[2]))
            return frozenset({FRESH})
        if isinstance(f, ast.Name) and f.id == 'getattr' and len(e.args) >= 2 and isinstance(e.args[0], ast.Name) and e.args[0].id == 'self' and ctx.is_method:
            lit = _literal(e.args[1], ctx.consts)
            if isinstance(lit, str):
                return env.get('self.' + lit, frozenset({'FIELD:' + lit}))
            return frozenset({'FIELD:*'})
        r = self.prog.resolve_expr(ctx.fi.module, f, ctx.imports) if not _rooted_in_local(f, env) else None
        if r is not None and r[0] == 'lib':
            name = r[1]
            if name in MUTATING_FUNCS and args:
                self._record_write(frozenset(_flat(args[MUTATING_FUNCS[name]])), ctx, e, f"{name}()")
            if 'out' in kws:
                self._record_write(frozenset(_flat(kws['out'])), ctx, e, f"{name}(out=...)")
            if name == 'numpy.array':
                cp = next((k.value for k in e.keywords if k.arg == 'copy'), None)
                if isinstance(cp, ast.Constant) and cp.value is False and args:
                    return frozenset(_flat(args[0]))
                return frozenset({FRESH})
            if name in VIEW_FUNCS and (args or kws):
                first = args[0] if args else next(iter(kws.values()))
                return frozenset(_flat(first)) | frozenset({FRESH})
            return frozenset({FRESH})
        kw_nodes = {k.arg: k.value for k in e.keywords if k.arg}
        if r is not None and r[0] == 'func':
            return self._apply_summary(r[2], args, kws, ctx, e, None, None, env, e.args, kw_nodes)
        if r is not None and r[0] == 'class':
            ci: ClassInfo = r[2]
            init = self.prog.find_method(ci, '__init__')
            if init is not None:
                # the object may wrap (alias) constructor arguments that its __init__ stores in fields
                s = self.summ.get(init.qualname, Summary())
                self._apply_summary(init, args, kws, ctx, e, frozenset({FRESH}), None, None, e.args, {k.arg: k.value for k in e.keywords if k.arg})
                params = init.params()[1:]
                out = set()
                bound = dict(zip(params, args))
                bound.update({k: v for k, v in kws.items() if k})
                fields = {}
                for fld, origs in s.field_stores.items():
                    fo = set()
                    for o in origs:
                        if o.startswith('PARAM:') and o[6:] in bound:
                            fo |= set(_flat(bound[o[6:]]))
                        elif o == FRESH:
                            fo.add(FRESH)
                    fields[fld] = frozenset(fo or {FRESH})
                    out |= fo
                self._last_ctor_fields = fields
                return frozenset(out) | frozenset({FRESH})
            return frozenset({FRESH})
        if isinstance(f, ast.Attribute):
            recv = self._expr(f.value, env, ctx)
            recv_o = frozenset(_flat(recv))
            if f.attr in MUTATING_METHODS:
                if f.attr in CONTAINER_ONLY_METHODS and isinstance(f.value, ast.Name) and ('$container:' + f.value.id) in env:
                    return frozenset({FRESH})
                self._record_write(recv_o, ctx, e, f".{f.attr}()")
                return frozenset({FRESH})
            # method of a repo class?  (self.m(), obj.m())
            targets = []
            if isinstance(f.value, ast.Name) and f.value.id == 'self' and ctx.fi.cls is not None:
                m = self.prog.find_method(ctx.fi.cls, f.attr)
                if m is not None:
                    targets = [m]
            elif isinstance(f.value, ast.Call) and isinstance(f.value.func, ast.Name) and f.value.func.id == 'super' and ctx.fi.cls:
                for c in self.prog.mro(ctx.fi.cls)[1:]:
                    if f.attr in c.methods:
                        targets = [c.methods[f.attr]]
                        break
            else:
                for mi in self.prog.modules.values():
                    for ci in mi.classes.values():
                        if f.attr in ci.methods and f.attr not in FRESH_METHODS and f.attr not in VIEW_METHODS:
                            targets.append(ci.methods[f.attr])
            if targets:
                recv_name = f.value.id if isinstance(f.value, ast.Name) else None
                if recv_name is not None and recv_name != 'self' and ('$cls:' + recv_name) in env:
                    m = self.prog.find_method(env['$cls:' + recv_name], f.attr)
                    targets = [m] if m is not None else targets
                results = [self._apply_summary(m, args, kws, ctx, e, recv_o, recv_name, env, e.args, kw_nodes) for m in targets]
                if len(results) == 1:
                    return results[0]
                out = set()
                for r_ in results:
                    out |= set(_flat(r_))
                return frozenset(out)
            if f.attr in FRESH_METHODS:
                return frozenset({FRESH})
            if f.attr in VIEW_METHODS:
                return recv_o
            return frozenset({FRESH})
        # call of a local name (parameter callable, class passed as value): result unknown -> fresh (counted)
        self.default_fresh_calls += 1
        return frozenset({FRESH})

    def _apply_summary(self, callee: FuncInfo, args, kws, ctx: '_Ctx', node, recv_o: Optional[frozenset], recv_name: Optional[str] = None,
                       env: Optional[dict] = None, arg_nodes=None, kw_nodes=None):
        params = callee.params()
        is_method = callee.cls is not None and not callee.is_static
        if is_method:
            params = params[1:]
        bound: Dict[str, object] = dict(zip(params, args))
        bound.update({k: v for k, v in kws.items() if k})
        # literal arguments -> specialised summary (dispatch strings, flags)
        consts = {}
        for p_, n_ in list(zip(params, arg_nodes or [])) + list((kw_nodes or {}).items()):
            lit = _literal(n_, ctx.consts)
            if lit is not _NOLIT:
                consts[p_] = lit
        s = self.specialised(callee, consts) if consts else self.summ.get(callee.qualname, Summary())
        for p in s.mutates:
            if p in bound:
                self._record_write(frozenset(_flat(bound[p])), ctx, node, f"call of {callee.qualname} which writes its parameter '{p}' in place")

        def map_origin(o) -> set:
            if o.startswith('PARAM:') and o[6:] in bound:
                return set(_flat(bound[o[6:]]))
            if o.startswith('FIELD:'):
                if recv_name == 'self':
                    return {o}
                if recv_name is not None and env is not None and f"{recv_name}.{o[6:]}" in env:
                    return set(env[f"{recv_name}.{o[6:]}"])
                if recv_o is not None:
                    return set(recv_o)
            return set()

        if is_method and s.self_mutated_fields:
            o = set()
            for fld in s.self_mutated_fields:
                o |= map_origin('FIELD:' + fld)
            if recv_name == 'self':
                for fld in s.self_mutated_fields:
                    ctx.summ.self_mutated_fields.add(fld)
            self._record_write(frozenset(o or {FRESH}), ctx, node, f"call of {callee.qualname} which writes its receiver's array in place")
        # field rebinding on a local object
        if is_method and recv_name not in (None, 'self') and env is not None and ('$cls:' + recv_name) in env:
            for fld, origs in s.field_stores.items():
                fo = set()
                for o in origs:
                    if o == FRESH:
                        fo.add(FRESH)
                    else:
                        fo |= map_origin(o)
                env[f"{recv_name}.{fld}"] = frozenset(fo or {FRESH})
            env[recv_name] = frozenset().union(*[v for k, v in env.items() if k.startswith(recv_name + '.')] or [frozenset({FRESH})])
        if is_method and recv_name == 'self':
            for fld, origs in s.field_stores.items():
                fo = set()
                for o in origs:
                    fo |= ({FRESH} if o == FRESH else map_origin(o))
                ctx.summ.field_stores.setdefault(fld, set()).update(fo)
        if s.returns_tuple is not None:
            out_t = []
            for pos in s.returns_tuple:
                o = {FRESH}
                for x in pos:
                    if x != FRESH:
                        o |= map_origin(x)
                out_t.append(frozenset(o))
            return tuple(out_t)
        out = set()
        for o in s.returns:
            out |= map_origin(o)
        out.add(FRESH)
        return frozenset(out)


@dataclass
class _Ctx:
    fi: FuncInfo
    summ: Summary
    is_method: bool
    consts: Dict[str, object] = field(default_factory=dict)
    array_names: Set[str] = field(default_factory=set)
    ret_tuples: list = field(default_factory=list)
    terminated: bool = False
    imports: dict = field(default_factory=dict)


_NOLIT = object()


def _literal(n, consts):
    if isinstance(n, ast.Constant) and (n.value is None or isinstance(n.value, (str, bool, int, float))):
        return n.value
    if isinstance(n, ast.Name) and n.id in consts:
        return consts[n.id]
    if isinstance(n, ast.BinOp) and isinstance(n.op, ast.Add):
        a, b = _literal(n.left, consts), _literal(n.right, consts)
        if isinstance(a, str) and isinstance(b, str):
            return a + b
    if isinstance(n, ast.JoinedStr):
        parts = []
        for v in n.values:
            if isinstance(v, ast.Constant) and isinstance(v.value, str):
                parts.append(v.value)
            elif isinstance(v, ast.FormattedValue) and v.conversion == -1 and v.format_spec is None and isinstance(_literal(v.value, consts), str):
                parts.append(_literal(v.value, consts))
            else:
                return _NOLIT
        return ''.join(parts)
    return _NOLIT


def _fold(test, consts):
    """constant-fold a branch condition over literal-bound parameters; None = unknown"""
    if isinstance(test, ast.BoolOp):
        vals = [_fold(v, consts) for v in test.values]
        if isinstance(test.op, ast.Or):
            if any(v is True for v in vals):
                return True
            if all(v is False for v in vals):
                return False
            return None
        if any(v is False for v in vals):
            return False
        if all(v is True for v in vals):
            return True
        return None
    if isinstance(test, ast.UnaryOp) and isinstance(test.op, ast.Not):
        v = _fold(test.operand, consts)
        return None if v is None else (not v)
    if isinstance(test, ast.Compare) and len(test.ops) == 1:
        a, b = _literal(test.left, consts), _literal(test.comparators[0], consts)
        if a is _NOLIT or b is _NOLIT:
            return None
        op = test.ops[0]
        try:
            if isinstance(op, ast.Eq):
                return a == b
            if isinstance(op, ast.NotEq):
                return a != b
            if isinstance(op, ast.Is):
                return a is b
            if isinstance(op, ast.IsNot):
                return a is not b
            if isinstance(op, ast.Lt):
                return a < b
            if isinstance(op, ast.LtE):
                return a <= b
            if isinstance(op, ast.Gt):
                return a > b
            if isinstance(op, ast.GtE):
                return a >= b
        except TypeError:
            return None
        return None
    if isinstance(test, ast.Name) and test.id in consts:
        return bool(consts[test.id])
    return None


def _array_names(fi: FuncInfo) -> Set[str]:
    """names used as arrays somewhere in the function: subscripted, attribute receiver, or argument of a library call"""
    out = set()
    for n in ast.walk(fi.node):
        if isinstance(n, ast.Subscript) and isinstance(n.value, ast.Name):
            out.add(n.value.id)
        elif isinstance(n, ast.Attribute) and isinstance(n.value, ast.Name):
            out.add(n.value.id)
        elif isinstance(n, ast.Call):
            for a in n.args:
                if isinstance(a, ast.Name):
                    out.add(a.id)
    return out


def _flat(v):
    if isinstance(v, tuple):
        for x in v:
            yield from _flat(x)
    elif isinstance(v, (frozenset, set)):
        yield from v
    elif v is not None:
        yield v


def _is_basic_slice(sl) -> bool:
    if isinstance(sl, ast.Slice):
        return True
    if isinstance(sl, ast.Tuple):
        return any(isinstance(x, ast.Slice) for x in sl.elts) and all(
            isinstance(x, (ast.Slice, ast.Constant)) or (isinstance(x, ast.UnaryOp)) or isinstance(x, ast.Name) for x in sl.elts)
    return False


def _rooted_in_local(f, env) -> bool:
    while isinstance(f, ast.Attribute):
        f = f.value
    return isinstance(f, ast.Name) and f.id in env
