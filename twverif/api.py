"""E1: library API oracle.  The installed libraries are consulted only as a
namespace and signature oracle (hasattr / inspect.signature); no repository code runs."""
from __future__ import annotations

import ast
import importlib
import inspect
from typing import Dict, List, Optional, Tuple

from .model import Program, FuncInfo

_cache: Dict[str, Tuple[bool, object, str]] = {}


def resolve_lib(dotted: str):
    """-> (exists, object|None, reason)"""
    if dotted in _cache:
        return _cache[dotted]
    parts = dotted.split('.')
    obj = None
    err = ''
    ok = False
    for i in range(len(parts), 0, -1):
        modname = '.'.join(parts[:i])
        try:
            obj = importlib.import_module(modname)
        except Exception as e:           # not a module: try shorter prefix
            err = f"{type(e).__name__}: {e}"
            continue
        ok = True
        for attr in parts[i:]:
            if not hasattr(obj, attr):
                ok = False
                err = f"module '{getattr(obj, '__name__', obj)}' has no attribute '{attr}'"
                break
            obj = getattr(obj, attr)
        break
    if not ok and parts[0] == 'builtins':
        pass
    res = (ok, obj if ok else None, '' if ok else err)
    _cache[dotted] = res
    return res


def bind_call(dotted: str, npos: int, kwnames: List[str], has_star=False):
    """-> (status, binding|None, reason);  status in 'ok' | 'nosig' | 'missing' | 'bad'"""
    ok, obj, err = resolve_lib(dotted)
    if not ok:
        return 'missing', None, err
    try:
        sig = inspect.signature(obj)
    except (TypeError, ValueError):
        return 'nosig', None, 'no introspectable signature'
    if has_star:
        return 'ok', None, 'star arguments: binding not checked'
    try:
        ba = sig.bind(*[('pos', i) for i in range(npos)], **{k: ('kw', k) for k in kwnames})
    except TypeError as e:
        return 'bad', None, str(e)
    return 'ok', dict(ba.arguments), ''


def param_of(dotted: str, call: ast.Call, which) -> Optional[str]:
    """name of the callee parameter that argument `which` (int position or keyword str) binds to"""
    npos = sum(1 for a in call.args if not isinstance(a, ast.Starred))
    kws = [k.arg for k in call.keywords if k.arg]
    st, binding, _ = bind_call(dotted, npos, kws, any(isinstance(a, ast.Starred) for a in call.args))
    if binding is None:
        return None
    for pname, v in binding.items():
        vals = v if isinstance(v, tuple) and v and isinstance(v[0], tuple) else (v,)
        for item in vals:
            if item == ('pos', which) or item == ('kw', which):
                return pname
    return None


def lib_call_sites(prog: Program, funcs: List[FuncInfo]):
    """every call site in `funcs` whose callee resolves to a library name:
    yields (FuncInfo, ast.Call, dotted)"""
    for fi in funcs:
        local_imports = {}
        for n in ast.walk(fi.node):
            if isinstance(n, (ast.Import, ast.ImportFrom)):
                prog._index_import(fi.module, n, local_imports)
        shadow = set(fi.params())
        for n in ast.walk(fi.node):
            if isinstance(n, ast.Name) and isinstance(n.ctx, ast.Store):
                shadow.add(n.id)
        for n in ast.walk(fi.node):
            if not isinstance(n, ast.Call):
                continue
            root = n.func
            while isinstance(root, ast.Attribute):
                root = root.value
            if not isinstance(root, ast.Name) or (root.id in shadow and root.id not in local_imports):
                continue
            r = prog.resolve_expr(fi.module, n.func, local_imports)
            if r is not None and r[0] == 'lib' and r[1].split('.')[0] not in {m_.split('.')[0] for m_ in prog.modules}:
                yield fi, n, r[1]


def lib_refs(prog: Program, funcs: List[FuncInfo]):
    """every attribute chain (not only calls) rooted in an imported library name"""
    for fi in funcs:
        shadow = set(fi.params())
        for n in ast.walk(fi.node):
            if isinstance(n, ast.Name) and isinstance(n.ctx, ast.Store):
                shadow.add(n.id)
        seen = set()
        for n in ast.walk(fi.node):
            if isinstance(n, ast.Attribute) and id(n) not in seen:
                chain = n
                while isinstance(chain, ast.Attribute):
                    seen.add(id(chain))
                    chain = chain.value
                if isinstance(chain, ast.Name) and chain.id not in shadow:
                    r = prog.resolve_expr(fi.module, n)
                    # (an attribute of one of the repository's own classes / modules is not a library reference: it is looked up in the analysed tree)
                    if r is not None and r[0] == 'lib' and r[1].split('.')[0] not in {m_.split('.')[0] for m_ in prog.modules}:
                        yield fi, n, r[1]


def check_api(ctx, rule: str, funcs: List[FuncInfo], floor: int = 1):
    """obligation per library reference: the attribute chain exists in the installed library and,
    when a signature is available, the call's arguments bind"""
    n = 0
    seen_nodes = set()
    for fi, call, dotted in lib_call_sites(ctx.prog, funcs):
        seen_nodes.add(id(call.func))
        n += 1
        npos = sum(1 for a in call.args if not isinstance(a, ast.Starred))
        kws = [k.arg for k in call.keywords if k.arg]
        star = any(isinstance(a, ast.Starred) for a in call.args) or any(k.arg is None for k in call.keywords)
        st, binding, why = bind_call(dotted, npos, kws, has_star=False)
        construct = f"{dotted}({npos} positional; keywords {sorted(kws)})"
        if st == 'missing':
            ctx.fail(rule, f"{dotted} exists", f"library reference does not exist in the installed library: {why}; "
                     f"every execution reaching {fi.qualname} line {call.lineno} raises AttributeError",
                     fi.loc(call), fi.qualname, dotted)
        elif st == 'bad' and not star:
            ctx.fail(rule, f"{dotted} arguments bind", f"arguments do not bind to the installed signature: {why}",
                     fi.loc(call), fi.qualname, construct)
        else:
            ctx.ok(rule, f"{dotted} @ {fi.name}", 'exists' + ('' if st == 'nosig' else ', arguments bind'),
                   fi.loc(call), fi.qualname, construct)
    for fi, node, dotted in lib_refs(ctx.prog, funcs):
        if id(node) in seen_nodes:
            continue
        ok, _, why = resolve_lib(dotted)
        n += 1
        if not ok:
            ctx.fail(rule, f"{dotted} exists", f"library reference does not exist: {why}", fi.loc(node), fi.qualname, dotted)
        else:
            ctx.ok(rule, f"{dotted} (reference) @ {fi.name}", 'exists', fi.loc(node), fi.qualname, dotted)
    ctx.floor(rule, n, floor, 'library references')
    return n
