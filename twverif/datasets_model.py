"""E6: registry/table extraction for the datasets package (from the syntax tree and the shipped data files only)."""
from __future__ import annotations

import ast
import csv
import fnmatch
import math
import os
import posixpath
import re
from dataclasses import dataclass, field
from typing import Dict, List, Optional, Tuple

from . import sym
from .values import Val, Num, Const, Tup, Kw, Term, Fn, veq, walk_vals
from .symeval import Evaluator
from .model import Program, FuncInfo, AnalysisError
from .rules.common import REPO_RESULT_KIND

DS = 'traffic_weaver.datasets.'
BASE = DS + '_base'
LOOKUP = DS + '_datasets'
REMOTE_LOADER = BASE + '.load_csv_dataset_from_remote'
RES_LOADER = BASE + '.load_csv_dataset_from_resources'


def documented_names(prog: Program) -> Dict[str, List[str]]:
    """dataset names listed in the `name` column of the Markdown tables shipped in data_description/"""
    d = os.path.join(prog.pkgdir, 'datasets', 'data_description')
    if not os.path.isdir(d):
        raise AnalysisError(f"description directory not found: {d}")
    out: Dict[str, List[str]] = {}
    for fn in sorted(os.listdir(d)):
        if not fn.endswith('.md'):
            continue
        names = []
        col = None
        with open(os.path.join(d, fn), encoding='utf-8') as f:
            for line in f:
                if not line.lstrip().startswith('|'):
                    col = None if not line.strip() else col
                    continue
                cells = [c.strip() for c in line.strip().strip('|').split('|')]
                if col is None:
                    if 'name' in cells:
                        col = cells.index('name')
                    continue
                if all(re.fullmatch(r':?-+:?', c) for c in cells if c):
                    continue
                if col < len(cells) and cells[col]:
                    names.append(cells[col])
        out[fn] = names
    return out


@dataclass
class Loader:
    fi: FuncInfo
    kind: str                         # 'remote' | 'bundled'
    call: Optional[object] = None     # call event
    filename: Optional[str] = None
    url: Optional[str] = None
    checksum: Optional[str] = None
    dataset_filename: Optional[str] = None
    dataset_folder: Optional[str] = None
    validate_checksum: Optional[Val] = None
    forwards_kwargs: bool = False
    resource: Optional[str] = None
    problems: List[str] = field(default_factory=list)


def const_str(v) -> Optional[str]:
    return v.v if isinstance(v, Const) and isinstance(v.v, str) else None


def join_parts(t) -> Optional[List[str]]:
    """literal components of an os.path.join(...) term (arguments are normalised by signature binding: a=<first>, *rest)"""
    if isinstance(t, Term) and t.head == 'lib:os.path.join':
        first = t.kw('a')
        items = ([first] if first is not None else []) + list(t.args)
        if items and all(const_str(x) is not None for x in items):
            return [const_str(x) for x in items]
    return None


def _inline(f: FuncInfo) -> bool:
    """helpers are looked through; the two CSV loaders are the semantic anchors"""
    return f.qualname not in (REMOTE_LOADER, RES_LOADER)


def analyse_loader(prog: Program, fi: FuncInfo) -> Optional[Loader]:
    if fi.qualname in (REMOTE_LOADER, RES_LOADER):
        return None
    ev = Evaluator(prog, inline=_inline, opaque_kind=REPO_RESULT_KIND)
    a = fi.node.args
    star = Term('param', (Const('**' + a.kwarg.arg),), kind='dict') if a.kwarg else None
    args = {p: Term('param', (Const(p),)) for p in fi.params()}
    res, st = ev.run_function(fi, args=args, star_kwargs=star)
    calls = [e for e in ev.events if e.kind == 'call' and e.data['callee'] is not None]
    rem = [e for e in calls if e.data['callee'].qualname == REMOTE_LOADER]
    bun = [e for e in calls if e.data['callee'].qualname == RES_LOADER]
    if len(rem) == 1 and not bun:
        e = rem[0]
        b = e.data['bound']
        ld = Loader(fi, 'remote', e)
        r = b.get('remote')
        fields = {}
        if isinstance(r, Term) and r.head == 'apply':
            # RemoteFileMetadata(filename=..., url=..., checksum=...)
            names = ['filename', 'url', 'checksum']
            for i, v in enumerate(r.args[1:]):
                if i < len(names):
                    fields[names[i]] = v
            for k, v in r.kwargs:
                fields[k] = v
        ld.filename, ld.url, ld.checksum = const_str(fields.get('filename')), const_str(fields.get('url')), const_str(fields.get('checksum'))
        ld.dataset_filename = const_str(b.get('dataset_filename'))
        ld.dataset_folder = const_str(b.get('dataset_folder'))
        ld.validate_checksum = b.get('validate_checksum')
        ld.forwards_kwargs = star is not None and any(isinstance(t, Term) and t.head == 'kwget' and veq(t.args[0], star) for v in b.values()
                                                       for t in walk_vals(v))
        if not veq(res, e.data['term']):
            ld.problems.append('the loader does not return what load_csv_dataset_from_remote returns')
        return ld
    if len(bun) == 1 and not rem:
        e = bun[0]
        b = e.data['bound']
        ld = Loader(fi, 'bundled', e)
        fn = b.get('file_name')
        parts = join_parts(fn)
        if parts is not None:
            ld.resource = posixpath.join(*parts)
        elif const_str(fn) is not None:
            ld.resource = const_str(fn)
        ld.forwards_kwargs = star is not None and any(isinstance(t, Term) and t.head == 'kwget' and veq(t.args[0], star) for v in b.values()
                                                       for t in walk_vals(v))
        rm = b.get('resources_module')
        ld.dataset_folder = const_str(rm) if const_str(rm) else None
        if isinstance(rm, Term) and rm.head == 'kwget':
            ld.dataset_folder = const_str(rm.args[2])
        if not veq(res, e.data['term']):
            ld.problems.append('the loader does not return what load_csv_dataset_from_resources returns')
        return ld
    return None


def lookup_namespace(prog: Program, modname: str) -> Dict[str, FuncInfo]:
    """names bound in `modname` that resolve to repository functions (what getattr on the module can find)"""
    mi = prog.modules.get(modname)
    if mi is None:
        raise AnalysisError(f"lookup module {modname} not found")
    from .symeval import module_binds
    if module_binds(prog, modname, '__probe__') is None:
        raise AnalysisError(f"the namespace of {modname} is built dynamically (star import / globals() / vars()): which names it binds is not decided statically")
    out: Dict[str, FuncInfo] = dict(mi.functions)
    for local, (mod, attr) in mi.imports.items():
        if attr is None:
            continue
        kind, obj = prog.resolve_dotted(f"{mod}.{attr}")
        if kind == 'func':
            out[local] = obj
    return out


def lookup_of(prog: Program, name: str):
    """evaluate load_dataset symbolically for one literal name: (module looked into, attribute name, events)"""
    fi = prog.func(BASE + '.load_dataset')
    ev = Evaluator(prog, inline=_inline, opaque_kind=REPO_RESULT_KIND)
    params = fi.params()
    args = {params[0]: Const(name)}
    for p in params[1:]:
        args[p] = Term('param', (Const(p),))
    a = fi.node.args
    star = Term('param', (Const('**kw'),), kind='dict') if a.kwarg else None
    res, st = ev.run_function(fi, args=args, star_kwargs=star)
    gets = [e for e in ev.events if e.kind == 'lib' and e.data['name'] == 'builtins.getattr']
    targets = set()
    for e in gets:
        pos = e.data['pos']
        if len(pos) >= 2 and isinstance(pos[0], Term) and pos[0].head == 'module' and const_str(pos[1]) is not None:
            targets.add((pos[0].args[0].v, const_str(pos[1])))
    return targets, ev, res


def unknown_name_outcome(prog: Program, name: str = 'no-such-dataset-0'):
    """evaluate load_dataset on a name bound nowhere: (raised exception names, did it return?)"""
    targets, ev, res = lookup_of(prog, name)
    raises = [e.data.get('exc') for e in ev.events if e.kind == 'raise']
    returns = [e for e in ev.events if e.kind == 'return' and e.func is prog.func(BASE + '.load_dataset')]
    return raises, bool(returns), ev


def dynamic_lookup_namespaces(prog: Program, ev) -> List[str]:
    """modules whose attributes load_dataset looks up and whose namespace is built at import time (star imports, globals() updates): what an
    unknown name resolves to there is not decidable from the source text"""
    from .symeval import module_binds
    from .values import walk_vals, Term, Const
    out = set()
    for e in ev.events:
        if e.kind == 'lib' and e.data.get('name') in ('builtins.globals', 'builtins.vars', 'builtins.locals'):
            # the loader is taken from a namespace dictionary at run time
            fn = getattr(e, 'func', None)
            out.add(f"{fn.module.name if fn is not None else '?'} (through {e.data['name'].split('.')[-1]}())")
        for v in e.data.values():
            if not hasattr(v, 'rats') and not isinstance(v, (list, tuple, dict)):
                continue
            vals = v if isinstance(v, (list, tuple)) else (list(v.values()) if isinstance(v, dict) else [v])
            for x in vals:
                try:
                    ts = list(walk_vals(x))
                except Exception:
                    continue
                for t in ts:
                    if isinstance(t, Term) and t.head == 'global' and t.args and isinstance(t.args[0], Const) and t.args[0].v in ('globals', 'vars', 'locals'):
                        fn = getattr(e, 'func', None)
                        out.add(f"{fn.module.name if fn is not None else '?'} (through {t.args[0].v}())")
                    if isinstance(t, Term) and t.head in ('getattr', 'modvars') and t.args:
                        m = t.args[0] if t.head == 'getattr' else t.args[0]
                        if isinstance(m, Term) and m.head == 'module' and isinstance(m.args[0], Const):
                            if module_binds(prog, m.args[0].v, 'no-such-dataset-0') is None:
                                out.add(m.args[0].v)
    return sorted(out)


def package_data_globs(prog: Program) -> Dict[str, List[str]]:
    import tomllib
    p = os.path.join(prog.root, 'pyproject.toml')
    if not os.path.exists(p):
        raise AnalysisError('pyproject.toml not found')
    with open(p, 'rb') as f:
        t = tomllib.load(f)
    return t.get('tool', {}).get('setuptools', {}).get('package-data', {})


def check_csv(path: str) -> Tuple[bool, str, int]:
    rows = 0
    prev = None
    try:
        with open(path, newline='') as f:
            for rec in csv.reader(f):
                if not rec or all(not c.strip() for c in rec):
                    continue
                if len(rec) != 2:
                    return False, f"row {rows + 1} has {len(rec)} columns", rows
                try:
                    x, y = float(rec[0]), float(rec[1])
                except ValueError:
                    return False, f"row {rows + 1} is not numeric: {rec}", rows
                if not (math.isfinite(x) and math.isfinite(y)):
                    return False, f"row {rows + 1} is not finite", rows
                if prev is not None and not x > prev:
                    return False, f"first column not strictly increasing at row {rows + 1} ({prev} -> {x})", rows
                prev = x
                rows += 1
    except OSError as e:
        return False, str(e), rows
    if rows < 2:
        return False, f"only {rows} rows", rows
    return True, '', rows
