"""thorough tier: self-test corpus (violating and benign variants) - see DESIGN 3.4"""


def run_for_property(pid, root, jobs, ctx):
    return {'selftest': 'corpus not built yet'}
