"""thorough tier: self-test of the checker (DESIGN 3.4).

For the property under check, a corpus of *violating* variants (each must make the check fire) and *benign* variants (each
must leave it silent) is generated from the CURRENT tree and analysed in scratch copies on all cores:

  * operator mutants: small source rewrites (regex operators below) - each names the properties whose check must fire;
  * stored patches: /verif/seeded/*/patch.diff (changes by independent agents, confirmed to break a property) with the
    detections recorded in their meta.json, /verif/selftest/prefix/*.diff (the repaired defects, re-introduced),
    /verif/benign/*/patch.diff (behaviour-preserving refactorings, confirmed harmless);
  * computed benign variants: whole-package ast round trip (drops comments, changes every line number), renaming of locals.

A variant whose patch no longer applies to the current tree is skipped and counted.  A corpus failure on a tree whose base
check is clean means the *checker* is wrong: reported as ANALYSIS-ERROR (exit 2), never as a violation of the property.
"""
from __future__ import annotations

import ast
import concurrent.futures as cf
import json
import os
import re
import shutil
import subprocess
import sys
import tempfile
from typing import Dict, List, Optional, Tuple

HERE = os.path.dirname(os.path.dirname(os.path.abspath(__file__)))
PKG = 'src/traffic_weaver/'

# (id, file, regex, replacement, properties whose check must fire)
OPERATORS: List[Tuple[str, str, str, str, List[str]]] = [
    ('kernel-2dp', 'match.py', r'y_hat = 2 \* delta_p /', 'y_hat = delta_p /', ['C01', 'C02']),
    ('kernel-rect-w', 'match.py', r'np\.sum\(w\[:-1\] \* delta_xi\)', 'np.sum(w[1:] * delta_xi)', ['C01', 'C02']),
    ('kernel-end+1', 'match.py', r'\n        end = end \+ 1\n', '\n', ['C01', 'C02', 'C03']),
    ('kernel-alpha2', 'match.py', r'/ delta_x\) \*\* alpha', '/ delta_x) ** 2', ['C03']),
    ('kernel-centre', 'match.py', r'x_n2 = \(x\[-1\] \+ x\[0\]\) / 2', 'x_n2 = x[len(x) // 2]', ['C03', 'C01']),
    ('kernel-mult', 'match.py', r'res_y = y \+ y_hat \* w', 'res_y = y * (1 + y_hat * w)', ['C01', 'C03']),
    ('match-swap-methods', 'weaver.py', r'target_function_integral_method=target_function_integral_method,',
     'target_function_integral_method=reference_function_integral_method,', ['C02']),
    ('rect-rule', 'sorted_array_utils.py', r'return y\[:-1\] \* d\b', 'return y[1:] * d', ['C01', 'C17']),
    ('linfit-denom', 'funfit.py', r'return y_0 \+ \(y_1 - y_0\) \* \(x - x_0\) / \(x_1 - x_0\)', 'return y_0 + (y_1 - y_0) * (x - x_0) / x_1', ['C06', 'C07']),
    ('expfit-alpha', 'funfit.py', r'\(\(x - x_0\) / \(x_1 - x_0\)\) \*\* alpha', '((x - x_0) / (x_1 - x_0)) ** 2', ['C06']),
    ('fixed-range', 'rfa.py', r'for i in range\(0, self\.a_l\):', 'for i in range(0, self.a_l + 1):', ['C05']),
    ('fixed-al', 'rfa.py', r'self\.a_l = int\(self\.a / 2\)\n        self\.a_r = self\.a_l\n\n    def rfa\(self\):\n        x, y = self\._initial_oversample\(\)\n        n = self\.n\n        a_r',
     'self.a_l = int(self.a / 2) + 1\n        self.a_r = self.a_l\n\n    def rfa(self):\n        x, y = self._initial_oversample()\n        n = self.n\n        a_r', ['C05']),
    ('adaptive-abs', 'rfa.py', r'nom = abs\(y\[k \+ 1, 0\] - y\[k, 0\]\)', 'nom = y[k + 1, 0] - y[k, 0]', ['C06', 'C07']),
    ('adaptive-swap', 'rfa.py', r'gamma = nom / denom\n', 'gamma = denom / nom\n', ['C06']),
    ('adaptive-k2', 'rfa.py', r'denom = abs\(y\[k, 0\] - y\[k - 1, 0\]\)', 'denom = abs(y[k, 0] - y[k - 2, 0])', ['C06', 'C07']),
    ('rfa-cut', 'rfa.py', r'return x\.array\[n:-n\], z\.array\[n:-n\]\n\n\nclass LinearAdaptiveRFA', 'return x.array[n:-n + 1], z.array[n:-n + 1]\n\n\nclass LinearAdaptiveRFA', ['C04', 'C02']),
    ('rfa-nguard', 'rfa.py', r'if n < 2:\n            raise ValueError\("n cannot be lower than 2\."\)', 'if n < 1:\n            raise ValueError("n cannot be lower than 2.")', ['C04', 'C20']),
    ('exp-omitted', 'rfa.py', r'\(x\[k, a_l\], y_0\), alpha=exp, \)', '(x[k, a_l], y_0), )', ['C06']),
    ('shift-ref', 'weaver.py', r'\n        self\.reference_x = self\.reference_x \+ shift\n', '\n', ['C08']),
    ('repeat-ref', 'weaver.py', r'repeat\(self\.reference_x, self\.reference_y, repeats=n\)', 'repeat(self.reference_x, self.reference_y, repeats=n + 1)', ['C08', 'C12']),
    ('normalize-swap', 'weaver.py', r'self\.reference_x = normalize\(self\.reference_x, min_val, max_val\)', 'self.reference_x = normalize(self.reference_x, max_val, min_val)', ['C08', 'C14']),
    ('smooth-ref', 'weaver.py', r'self\.y = spline_smooth\(self\.x, self\.y, s=s\)\(self\.x\)', 'self.reference_y = self.y = spline_smooth(self.x, self.y, s=s)(self.x)', ['C08']),
    ('init-alias', 'weaver.py', r'self\.original_y = self\.y\.copy\(\)', 'self.original_y = self.y', ['C09']),
    ('restore-nocopy', 'weaver.py', r'self\.x = self\.original_x\.copy\(\)\n        self\.y = self\.original_y\.copy\(\)\n        self\.reference_x',
     'self.x = self.original_x\n        self.y = self.original_y.copy()\n        self.reference_x', ['C09']),
    ('trend-asarray', 'process.py', r'y = np\.array\(y, dtype=np\.float64\)\n    range_x', 'y = np.asarray(y, dtype=np.float64)\n    range_x', ['C09']),
    ('interp-list', 'weaver.py', r'\n            new_x = np\.asarray\(new_x\)\n', '\n', ['C09']),
    ('scan-lower-adv', 'sorted_array_utils.py', r'x_next_val <= lookup_val', 'x_next_val < lookup_val', ['C10', 'C11', 'C13', 'C01']),
    ('scan-higher-res', 'sorted_array_utils.py', r'            indices\[lookup_idx\] = x_idx \+ 1\n        lookup_val = next\(lookup_it, None\)\n        lookup_idx \+= 1\n    return indices\n\n\ndef find_closest_lower_or',
     '            indices[lookup_idx] = x_idx\n        lookup_val = next(lookup_it, None)\n        lookup_idx += 1\n    return indices\n\n\ndef find_closest_lower_or', ['C10', 'C11']),
    ('scan-tie', 'sorted_array_utils.py', r'lookup_val - x_val <= x_next_val - lookup_val', 'lookup_val - x_val < x_next_val - lookup_val', ['C10', 'C01', 'C02']),
    ('dispatch-cross', 'sorted_array_utils.py', r"elif strategy == 'lower':\n        return find_closest_lower_equal", "elif strategy == 'lower':\n        return find_closest_higher_equal", ['C10']),
    ('truncate-plus1', 'process.py', r'fill_not_valid=True\)\[0\] \+ 1\n', 'fill_not_valid=True)[0]\n', ['C11']),
    ('truncate-guard', 'process.py', r'if x_left >= x_right:', 'if x_left > x_right:', ['C20']),
    ('tbi-guard', 'weaver.py', r'        if stop > len\(self\.x\):\n            raise ValueError\("Stop index should be less than length of x"\)\n        self\.x = self\.x\[start:stop\]',
     '        self.x = self.x[start:stop]', ['C20']),
    ('repeat-range', 'process.py', r'for i in range\(1, repeats\):', 'for i in range(repeats):', ['C12']),
    ('repeat-step', 'process.py', r'x\[n \* i - 1\] - x\[n \* i - 2\]\)', 'x[n * i - 1] - x[n * i - 3])', ['C12']),
    ('repeat-ytile', 'process.py', r'    y = np\.tile\(y, repeats\)\n', '    y = np.tile(y, repeats + 0) * 1.0\n', []),
    ('interp-swap', 'process.py', r'np\.interp\(new_x, x, y, \*\*kwargs\)', 'np.interp(x, new_x, y, **kwargs)', ['C13']),
    ('interp-cubic', 'process.py', r"elif method == 'cubic':\n        return CubicSpline\(x, y, \*\*kwargs\)\(new_x\)", "elif method == 'cubic':\n        return BSpline(*splrep(x, y, **kwargs))(new_x)", ['C13']),
    ('grid-ends-and', 'weaver.py', r'if new_x\[0\] != self\.x\[0\] or new_x\[-1\] != self\.x\[-1\]:', 'if new_x[0] != self.x[0] and new_x[-1] != self.x[-1]:', ['C20']),
    ('grid-n+1', 'weaver.py', r'np\.linspace\(self\.x\[0\], self\.x\[-1\], n\)', 'np.linspace(self.x[0], self.x[-1], n + 1)', ['C13']),
    ('pwc-higher', 'process.py', r'indices = find_closest_lower_equal_element_indices_to_values\(x, new_x\)', 'indices = find_closest_higher_equal_element_indices_to_values(x, new_x)', ['C13']),
    ('trend-assign', 'process.py', r'y\[i\] \+= fun\(x\[i\]\)\n', 'y[i] = fun(x[i])\n', ['C14']),
    ('trend-norm', 'process.py', r'fun\(x\[i\] / range_x\)', 'fun(x[i] / x[-1])', ['C14']),
    ('normalize-plus', 'process.py', r'\* \(max_val - min_val\) \+ min_val', '* (max_val + min_val) + min_val', ['C14']),
    ('noise-power', 'process.py', r'sp = np\.mean\(squares\)', 'sp = np.mean(a)**2', ['C15']),
    ('noise-db20', 'process.py', r'10 \*\* \(snr / 10\)', '10 ** (snr / 20)', ['C15']),
    ('noise-branches', 'process.py', r'if snr_in_db is True:', 'if snr_in_db is False:', ['C15']),
    ('smooth-truthy', 'process.py', r'    if s is None:\n        s = len\(y\) \* np\.std\(y\) \*\* 2', '    if not s:\n        s = len(y) * np.std(y) ** 2', ['C16']),
    ('smooth-positional', 'process.py', r'splrep\(x, y, s=s\)', 'splrep(x, y, s)', ['C16']),
    ('smooth-degree', 'process.py', r'splrep\(x, y, s=s\)', 'splrep(x, y, k=s)', ['C16']),
    ('smooth-refx', 'weaver.py', r'spline_smooth\(self\.x, self\.y, s=s\)\(self\.x\)', 'spline_smooth(self.x, self.y, s=s)(self.reference_x)', ['C16', 'C09']),
    ('ext-right', 'sorted_array_utils.py', r'np\.linspace\(a\[-1\], rstop, n \+ 1\)\[1:\]', 'np.linspace(a[-1], rstop, n + 1)[:-1]', ['C17', 'C04']),
    ('ext-mirror', 'sorted_array_utils.py', r'lstart = 2 \* a\[0\] - a\[n\]', 'lstart = 2 * a[0] - a[n - 1]', ['C17', 'C04']),
    ('setitem-idx', 'interval.py', r'self\.a\[interval \* self\.n \+ element\] = value', 'self.a[interval * self.n + element + 1] = value', ['C17']),
    ('pad-head', 'interval.py', r'\(0, m \* n - self\.a\.size\)', '(m * n - self.a.size, 0)', ['C17']),
    ('average-axis', 'process.py', r'to_2d_array\(\), axis=1\)', 'to_2d_array(), axis=0)', ['C17', 'C02']),
    ('ds-slot', 'datasets/_mix_it.py', r'dataset_filename="mix-it-bologna_weekly"', 'dataset_filename="mix-it-bologna_daily"', ['C18', 'C19']),
    ('ds-novalidate', 'datasets/_mix_it.py', r'dataset_filename="mix-it-bologna_daily",\n(\s+)dataset_folder=DATASET_FOLDER, validate_checksum=True',
     'dataset_filename="mix-it-bologna_daily",\n\\1dataset_folder=DATASET_FOLDER, validate_checksum=False', ['C18', 'C19']),
    ('ds-import', 'datasets/_datasets.py', r'    fetch_mix_it_milan_daily,\n', '', ['C18']),
    ('cache-direct', 'datasets/_base.py', r'pickle\.dump\(dataset, open\(dataset_tmp_file_path, "wb"\)\)\n\s+os\.rename\(dataset_tmp_file_path, dataset_file_path\)',
     'pickle.dump(dataset, open(dataset_file_path, "wb"))', ['C19']),
    ('cache-tmpdir', 'datasets/_base.py', r'TemporaryDirectory\(dir=dataset_dir\)', 'TemporaryDirectory()', ['C19']),
    ('retry-dec', 'datasets/_base.py', r'\n            n_retries -= 1', '', ['C19']),
    ('retry-exc', 'datasets/_base.py', r'except \(URLError, TimeoutError\):', 'except Exception:', ['C19']),
    ('checksum-after', 'datasets/_base.py', r'if remote\.checksum != checksum:', 'if remote.checksum != checksum and False:', ['C19']),
    ('slice-notfound', 'weaver.py', r'if len\(start_indices\) == 0:\n                raise ValueError\("Start value not found in x"\)', 'if len(start_indices) == 0:\n                raise IndexError("Start value not found in x")', ['C20']),
    ('interp-commit', 'weaver.py', r'        self\.y = interpolate\(self\.x, self\.y, new_x, method=method, \*\*kwargs\)\n        self\.x = new_x',
     '        old_x, self.x = self.x, new_x\n        self.y = interpolate(old_x, self.y, new_x, method=method, **kwargs)', ['C20']),
]


def prefix_patches() -> List[Tuple[str, str, List[str]]]:
    d = os.path.join(HERE, 'selftest', 'prefix')
    out = []
    if os.path.isdir(d):
        for fn in sorted(os.listdir(d)):
            if fn.endswith('.diff'):
                meta = os.path.join(d, fn[:-5] + '.json')
                exp = json.load(open(meta)).get('must_fire', []) if os.path.exists(meta) else []
                out.append(('prefix:' + fn[:-5], os.path.join(d, fn), exp))
    return out


def seeded_patches() -> List[Tuple[str, str, List[str], List[str]]]:
    d = os.path.join(HERE, 'seeded')
    out = []
    if os.path.isdir(d):
        for sid in sorted(os.listdir(d)):
            mp = os.path.join(d, sid, 'meta.json')
            pp = os.path.join(d, sid, 'patch.diff')
            if os.path.exists(mp) and os.path.exists(pp):
                m = json.load(open(mp))
                fire = [p for p, v in m.get('detected_by', {}).items() if v == 'VIOLATION']
                err = [p for p, v in m.get('detected_by', {}).items() if v != 'VIOLATION']
                out.append(('seeded:' + sid, pp, fire, err))
    return out


def benign_patches() -> List[tuple]:
    d = os.path.join(HERE, 'benign')
    out = []
    if os.path.isdir(d):
        for bid in sorted(os.listdir(d)):
            pp = os.path.join(d, bid, 'patch.diff')
            mp = os.path.join(d, bid, 'meta.json')
            if os.path.exists(pp):
                m = json.load(open(mp)) if os.path.exists(mp) else {}
                exc = list(m.get('not_silent_for', [])) + [p for p, v in m.get('checks_not_silent', {}).items() if v != 'silent']
                out.append(('benign:' + bid, pp, exc, m.get('files_touched', []), m.get('refactors_around_property')))
    return out


def anchor_files(pid: str) -> List[str]:
    """source files named by the property's anchors (a behaviour-preserving change elsewhere cannot change this property's verdict)"""
    fn = os.path.join(HERE, 'properties.jsonl')
    for line in open(fn):
        d = json.loads(line)
        if d['id'] == pid:
            return list(d.get('anchors', {}).get('files', []))
    return []


# --------------------------------------------------------------------------- computed benign variants
class _Rename(ast.NodeTransformer):
    """rename the local variables of every function (not parameters, not attributes, not globals)"""

    def __init__(self, module_names):
        self.module_names = module_names

    def visit_FunctionDef(self, node: ast.FunctionDef):
        params = {a.arg for a in node.args.posonlyargs + node.args.args + node.args.kwonlyargs}
        if node.args.vararg:
            params.add(node.args.vararg.arg)
        if node.args.kwarg:
            params.add(node.args.kwarg.arg)
        stored = set()
        for n in ast.walk(node):
            if isinstance(n, ast.Name) and isinstance(n.ctx, ast.Store):
                stored.add(n.id)
            elif isinstance(n, (ast.Global, ast.Nonlocal)):
                return node
            elif isinstance(n, (ast.FunctionDef, ast.Lambda, ast.ListComp, ast.GeneratorExp, ast.SetComp, ast.DictComp, ast.ClassDef)) and n is not node:
                return node        # nested scopes: leave the function alone
        locals_ = {s for s in stored if s not in params and s not in self.module_names and not s.startswith('__')}
        mapping = {s: s + '_lv' for s in locals_}

        class R(ast.NodeTransformer):
            def visit_Name(self, n):
                if n.id in mapping:
                    return ast.copy_location(ast.Name(mapping[n.id], n.ctx), n)
                return n
        node.body = [R().visit(s) for s in node.body]
        return node


class _FlipIf(ast.NodeTransformer):
    """`if c: A else: B`  ->  `if not c: B else: A` (both branches present)"""

    def visit_If(self, node: ast.If):
        self.generic_visit(node)
        if node.orelse and node.body:
            test = node.test.operand if isinstance(node.test, ast.UnaryOp) and isinstance(node.test.op, ast.Not) else ast.UnaryOp(ast.Not(), node.test)
            return ast.copy_location(ast.If(test, node.orelse, node.body), node)
        return node

    def visit_IfExp(self, node: ast.IfExp):
        self.generic_visit(node)
        return ast.copy_location(ast.IfExp(ast.UnaryOp(ast.Not(), node.test), node.orelse, node.body), node)


class _TempReturn(ast.NodeTransformer):
    """`return e`  ->  `result_tmp = e; return result_tmp`"""

    def _block(self, stmts):
        out = []
        for s_ in stmts:
            s_ = self.visit(s_)
            if isinstance(s_, ast.Return) and s_.value is not None and not isinstance(s_.value, (ast.Name, ast.Constant)):
                out.append(ast.copy_location(ast.Assign([ast.Name('result_tmp', ast.Store())], s_.value), s_))
                out.append(ast.copy_location(ast.Return(ast.Name('result_tmp', ast.Load())), s_))
            else:
                out.append(s_)
        return out

    def generic_visit(self, node):
        for f in ('body', 'orelse', 'finalbody'):
            v = getattr(node, f, None)
            if isinstance(v, list) and v and isinstance(v[0], ast.stmt):
                setattr(node, f, self._block(v))
        for h in getattr(node, 'handlers', []) or []:
            h.body = self._block(h.body)
        return node

    def visit_Lambda(self, node):
        return node


class _FlipCompare(ast.NodeTransformer):
    """`a < b` -> `b > a`, `a <= b` -> `b >= a`, `a == b` -> `b == a` (single comparisons, neither side a call with effects)"""
    FLIP = {ast.Lt: ast.Gt, ast.Gt: ast.Lt, ast.LtE: ast.GtE, ast.GtE: ast.LtE, ast.Eq: ast.Eq, ast.NotEq: ast.NotEq}

    def visit_Compare(self, node: ast.Compare):
        self.generic_visit(node)
        if len(node.ops) == 1 and type(node.ops[0]) in self.FLIP and not any(isinstance(n, ast.Call) for n in ast.walk(node)):
            return ast.copy_location(ast.Compare(node.comparators[0], [self.FLIP[type(node.ops[0])]()], [node.left]), node)
        return node


class _ConstCommute(ast.NodeTransformer):
    """`e + c` -> `c + e`, `e * c` -> `c * e` for a numeric literal c (and the reverse)"""

    def visit_BinOp(self, node: ast.BinOp):
        self.generic_visit(node)
        def num(n):
            return isinstance(n, ast.Constant) and isinstance(n.value, (int, float)) and not isinstance(n.value, bool)
        if isinstance(node.op, (ast.Add, ast.Mult)) and (num(node.left) != num(node.right)):
            return ast.copy_location(ast.BinOp(node.right, node.op, node.left), node)
        return node


class _DeMorgan(ast.NodeTransformer):
    """in test position: `a and b` -> `not (not a or not b)`, `a or b` -> `not (not a and not b)`"""

    def _t(self, test):
        if isinstance(test, ast.BoolOp) and not any(isinstance(n, ast.NamedExpr) for n in ast.walk(test)):
            other = ast.Or() if isinstance(test.op, ast.And) else ast.And()
            return ast.UnaryOp(ast.Not(), ast.BoolOp(other, [ast.UnaryOp(ast.Not(), v) for v in test.values]))
        return test

    def visit_If(self, node):
        self.generic_visit(node)
        node.test = self._t(node.test)
        return node

    def visit_While(self, node):
        self.generic_visit(node)
        node.test = self._t(node.test)
        return node

    def visit_IfExp(self, node):
        self.generic_visit(node)
        node.test = self._t(node.test)
        return node


COMPUTED = {'flip-if': _FlipIf, 'temp-return': _TempReturn, 'flip-compare': _FlipCompare, 'const-commute': _ConstCommute, 'demorgan': _DeMorgan}


def computed_variant(kind: str, root: str):
    src = os.path.join(root, 'src', 'traffic_weaver')
    for dp, dn, fns in os.walk(src):
        for fn in fns:
            if not fn.endswith('.py'):
                continue
            p = os.path.join(dp, fn)
            text = open(p, encoding='utf-8').read()
            tree = ast.parse(text)
            if kind == 'rename-locals':
                names = {n.name for n in tree.body if isinstance(n, (ast.FunctionDef, ast.ClassDef))}
                for n in tree.body:
                    if isinstance(n, (ast.Import, ast.ImportFrom)):
                        names |= {(a.asname or a.name).split('.')[0] for a in n.names}
                    elif isinstance(n, ast.Assign):
                        names |= {t.id for t in n.targets if isinstance(t, ast.Name)}
                tree = _Rename(names).visit(tree)
                ast.fix_missing_locations(tree)
            elif kind in COMPUTED:
                tree = COMPUTED[kind]().visit(tree)
                ast.fix_missing_locations(tree)
            open(p, 'w', encoding='utf-8').write(ast.unparse(tree) + '\n')


# --------------------------------------------------------------------------- runner
def _copy_tree(root: str) -> str:
    base = '/dev/shm' if os.path.isdir('/dev/shm') else tempfile.gettempdir()
    d = tempfile.mkdtemp(prefix=f'twverif-{os.getpid()}-', dir=base)
    r = os.path.join(d, 'repo')
    os.makedirs(r)
    shutil.copytree(os.path.join(root, 'src'), os.path.join(r, 'src'), ignore=shutil.ignore_patterns('__pycache__', '*.egg-info'))
    if os.path.exists(os.path.join(root, 'pyproject.toml')):
        shutil.copy(os.path.join(root, 'pyproject.toml'), r)
    return d


def _run_variant(args) -> dict:
    vid, kind, payload, pid, root = args
    d = _copy_tree(root)
    try:
        r = os.path.join(d, 'repo')
        if kind == 'operator':
            fn, rx, rep = payload
            p = os.path.join(r, PKG, fn)
            if not os.path.exists(p):
                return {'id': vid, 'status': 'skipped', 'why': 'file missing'}
            text = open(p, encoding='utf-8').read()
            new, n = re.subn(rx, rep, text, count=1)
            if n != 1 or new == text:
                return {'id': vid, 'status': 'skipped', 'why': 'edit site not found'}
            try:
                ast.parse(new)
            except SyntaxError:
                return {'id': vid, 'status': 'skipped', 'why': 'variant does not parse'}
            open(p, 'w', encoding='utf-8').write(new)
        elif kind == 'patch':
            q = subprocess.run(['patch', '-p1', '-s', '--no-backup-if-mismatch', '-i', payload], cwd=r, capture_output=True, text=True)
            if q.returncode != 0:
                return {'id': vid, 'status': 'skipped', 'why': 'patch does not apply to the current tree'}
        elif kind == 'computed':
            computed_variant(payload, r)
        q = subprocess.run([sys.executable, os.path.join(HERE, 'check.py'), pid, '--root', r, '--no-evidence'], capture_output=True, text=True, timeout=600)
        first = ''
        for line in q.stdout.splitlines():
            if line.startswith('--- ') or line.startswith('ANALYSIS-ERROR'):
                first = line[:200]
                break
        return {'id': vid, 'status': 'ran', 'rc': q.returncode, 'first': first}
    except subprocess.TimeoutExpired:
        return {'id': vid, 'status': 'ran', 'rc': 2, 'first': 'timeout'}
    finally:
        shutil.rmtree(d, ignore_errors=True)


def run_for_property(pid: str, root: str, jobs: int, ctx) -> dict:
    base_clean = not any(o.status != 'ok' for o in ctx.obls)
    work = []
    expect: Dict[str, str] = {}
    for oid, fn, rx, rep, fire in OPERATORS:
        if pid in fire:
            work.append((f"op:{oid}", 'operator', (fn, rx, rep), pid, root))
            expect[f"op:{oid}"] = 'fire'
    for vid, path, fire in prefix_patches():
        if pid in fire:
            work.append((vid, 'patch', path, pid, root))
            expect[vid] = 'fire'
    for vid, path, fire, err in seeded_patches():
        if pid in fire:
            work.append((vid, 'patch', path, pid, root))
            expect[vid] = 'fire'
    anchors = set(anchor_files(pid))
    for vid, path, exc, files, around in benign_patches():
        relevant = around == pid or not files or bool(anchors & set(files))
        if pid not in exc and relevant:
            work.append((vid, 'patch', path, pid, root))
            expect[vid] = 'silent'
    for kind in ('ast-roundtrip', 'rename-locals') + tuple(COMPUTED):
        work.append((f"computed:{kind}", 'computed', kind, pid, root))
        expect[f"computed:{kind}"] = 'silent'
    results = []
    with cf.ProcessPoolExecutor(max(1, min(jobs, 16))) as ex:
        for r in ex.map(_run_variant, work):
            results.append(r)
    bad = []
    counts = {'violating': 0, 'fired': 0, 'benign': 0, 'silent': 0, 'skipped': 0}
    for r in results:
        e = expect[r['id']]
        if r['status'] == 'skipped':
            counts['skipped'] += 1
            continue
        if e == 'fire':
            counts['violating'] += 1
            if r['rc'] == 1:
                counts['fired'] += 1
            elif r['rc'] == 2 and r['id'].startswith('seeded:'):
                # a stored seeded change that this check used to flag and now answers "not recognised" for (a gate added since the detection table was
                # written): reported, counted, not a failure of the self-test - silence (exit 0) would be
                counts['undecided'] = counts.get('undecided', 0) + 1
                print(f"SELFTEST-NOTE property={pid} {r['id']}: recorded as VIOLATION, now exit 2 (not recognised): {r.get('first', '')[:160]}")
            else:
                bad.append(f"{r['id']}: expected a VIOLATION, got exit {r['rc']} {r.get('first', '')}")
        else:
            counts['benign'] += 1
            if r['rc'] == 0:
                counts['silent'] += 1
            else:
                bad.append(f"{r['id']}: expected silence, got exit {r['rc']} {r.get('first', '')}")
    summary = {'selftest': counts, 'selftest_failures': bad[:20],
               'selftest_samples': [f"{r['id']} -> {'skipped: ' + r.get('why', '') if r['status'] == 'skipped' else 'exit ' + str(r['rc'])}" for r in results][:60],
               'selftest_rule': 'violating variants (operator mutants, re-introduced repaired defects, independently seeded changes) must give exit 1; benign variants '
                                '(confirmed refactorings, ast round trip, local renaming) must give exit 0; variants that do not apply are skipped'}
    if bad and base_clean:
        for b in bad:
            print(f"SELFTEST-FAILURE property={pid} {b}")
        ctx.unknown('selftest', f"{len(bad)} corpus expectation(s) failed", '; '.join(bad[:5]), '', '', 'selftest')
    else:
        print(f"selftest {pid}: {counts}")
    ctx.rule('selftest', 'checker self-test: every violating variant of the corpus fires, every benign variant is silent (a failure is the checker\'s fault: exit 2)')
    return summary
