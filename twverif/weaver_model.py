"""Per-method symbolic summaries of the Weaver class (induction over histories from per-method obligations)."""
from __future__ import annotations

import ast
from dataclasses import dataclass, field
from typing import Dict, List, Optional, Tuple, Set

from . import sym
from .sym import Rat, C
from .values import (Val, Num, Const, Tup, Kw, Term, Obj, P, Gam, Ref, Fn, arr_param, scalar_param, veq, walk_vals, term_as_num,
                     fresh_serial)
from .symeval import Evaluator, Event
from .model import Program, FuncInfo, ClassInfo, AnalysisError
from .rules.common import REPO_RESULT_KIND

WEAVER = 'traffic_weaver.weaver.Weaver'
SERIES_FIELDS = ['x', 'y', 'reference_x', 'reference_y', 'original_x', 'original_y']
DOMAIN_OPS = ['append_one_sample', 'shift_x', 'shift_y', 'scale_x', 'scale_y', 'normalize_x', 'normalize_y', 'repeat',
              'truncate_by_value', 'truncate_by_index']
RESHAPING_OPS = ['recreate_from_average', 'integral_match', 'interpolate', 'smooth', 'trend', 'noise']
ARRAY_PARAMS = {'new_x', 'x', 'y', 'xy'}
OPAQUE_PARAMS = {'rfa_class', 'trend_func', 'df', 'file_name', 'method', 'x_col', 'y_col'}


@dataclass
class MethodFacts:
    fi: FuncInfo
    ev: Evaluator
    result: Val
    params: Dict[str, Val]
    stores: List[Event]          # field stores on self, program order
    raises: List[Event]
    calls: List[Event]
    issues: List[str]

    def stored_fields(self) -> List[str]:
        out = []
        for e in self.stores:
            if e.data['field'] not in out:
                out.append(e.data['field'])
        return out


class _MethodTable(dict):
    """facts of the Weaver methods by name; reading the facts of a method the evaluator could not follow (an uninterpreted construct on its way) is an
    analysis error, whatever rule asks - never a basis for a verdict"""

    def __getitem__(self, name):
        mf = dict.__getitem__(self, name)
        if getattr(mf, 'issues', None):
            raise AnalysisError(f"Weaver.{name} not canonicalisable: {mf.issues[:3]}")
        return mf

    def get(self, name, default=None):
        if name not in self:
            return default
        return self[name]


class WeaverModel:
    def __init__(self, prog: Program):
        self.prog = prog
        self.cls = prog.cls(WEAVER)
        self.Lw, self.Lr, self.Lo = sym.sym('Lw'), sym.sym('Lr'), sym.sym('Lo')
        self.fields: Dict[str, Val] = {
            'x': arr_param('self.x', length=self.Lw), 'y': arr_param('self.y', length=self.Lw),
            'reference_x': arr_param('self.reference_x', length=self.Lr), 'reference_y': arr_param('self.reference_y', length=self.Lr),
            'original_x': arr_param('self.original_x', length=self.Lo), 'original_y': arr_param('self.original_y', length=self.Lo),
            'x_scale': Num(sym.sym('self.x_scale')), 'y_scale': Num(sym.sym('self.y_scale')),
        }
        self.methods: Dict[str, MethodFacts] = _MethodTable()
        self.public = [m for n, m in self.cls.methods.items() if not m.is_static]
        for m in self.public:
            if m.name == '__init__':
                continue
            if m.name.startswith('_') and not m.name.startswith('__'):
                continue        # private helpers are analysed through their callers (Weaver methods are inlined)
            self.methods[m.name] = self.evaluate(m)
        init = self.cls.methods.get('__init__')
        if init is None:
            raise AnalysisError('Weaver has no __init__')
        self.init = self.evaluate(init, is_init=True)
        self.init_xnone = self.evaluate(init, is_init=True, overrides={'x': Const(None)})

    def variants_of(self, name: str) -> List[Tuple[str, 'MethodFacts']]:
        """the method as evaluated for symbolic arguments, and once more for every parameter whose default is None left out (the
        default-resolution path of that parameter)"""
        cache = self.__dict__.setdefault('_variants', {})
        if name in cache:
            return cache[name]
        base = self.methods.get(name)
        if base is None:
            return []
        out = [('', base)]
        fi = base.fi
        a = fi.node.args
        ps = fi.params()
        defaults = dict(zip(ps[len(ps) - len(a.defaults):], a.defaults))
        for k, d in zip(a.kwonlyargs, a.kw_defaults):
            if d is not None:
                defaults[k.arg] = d
        for p_, d in defaults.items():
            if isinstance(d, ast.Constant) and d.value is None:
                out.append((f"{p_}=None", self.evaluate(fi, overrides={p_: Const(None)})))
        cache[name] = out
        return out

    def param_value(self, fi: FuncInfo, name: str) -> Optional[Val]:
        if name.startswith('**') or name in ('kwargs',):
            return None
        if name in ARRAY_PARAMS:
            return arr_param('arg:' + name, kind='list', length=sym.sym('L:' + name))
        if name in OPAQUE_PARAMS:
            return Term('param', (Const(name),))
        return Num(sym.sym('arg:' + name))

    def inline(self, fi: FuncInfo) -> bool:
        # methods of the class, and helper functions / helper classes living in the Weaver's own module (the library functions it delegates to are
        # the anchors the rules are phrased in: they stay calls)
        return fi.cls is self.cls or fi.module is self.cls.module

    def evaluate(self, fi: FuncInfo, is_init=False, overrides: Dict[str, Val] = None) -> MethodFacts:
        oid = fresh_serial()
        obj = Obj(self.cls, oid)
        heap = {oid: {} if is_init else dict(self.fields)}
        args: Dict[str, Val] = {}
        a = fi.node.args
        params = fi.params()[1:] + [x.arg for x in a.kwonlyargs]
        for p in params:
            if overrides and p in overrides:
                args[p] = overrides[p]
                continue
            v = self.param_value(fi, p)
            if v is not None:
                args[p] = v
        star = Term('param', (Const('**' + a.kwarg.arg),), kind='dict') if a.kwarg else None
        ev = Evaluator(self.prog, inline=self.inline, opaque_kind=REPO_RESULT_KIND)
        res, st = ev.run_function(fi, args=args, self_val=obj, heap=heap, star_kwargs=star)
        stores = [e for e in ev.events if e.kind == 'field' and isinstance(e.data['obj'], Obj) and e.data['obj'].oid == oid]
        raises = [e for e in ev.events if e.kind == 'raise']
        calls = [e for e in ev.events if e.kind in ('call', 'lib', 'apply', 'method')]
        mf = MethodFacts(fi, ev, res, args, stores, raises, calls, list(ev.issues))
        mf.obj = obj
        mf.initial_fields = {} if is_init else dict(self.fields)
        mf.final_fields = dict(st.heap.get(oid, {}))
        return mf


# --------------------------------------------------------------------------- renaming of field references
def rename_refs(v, mapping: Dict[str, str]):
    """replace array identities Ref(label) by Ref(mapping[label]) everywhere in a value (values, atoms, nested terms)"""
    memo: Dict[int, Rat] = {}

    def ref_image(ref):
        if isinstance(ref, Ref):
            if ref.term is None and ref.label in mapping:
                return Ref(mapping[ref.label])
            if ref.term is not None:
                return Ref(ref.label, val_image(ref.term))
        return ref

    def arg_image(a):
        if isinstance(a, Rat):
            return rat_image(a)
        if isinstance(a, Ref):
            return ref_image(a)
        if isinstance(a, Val):
            return val_image(a)
        if isinstance(a, tuple):
            return tuple(arg_image(x) for x in a)
        return a

    def atom_image(aid: int) -> Rat:
        if aid in memo:
            return memo[aid]
        head, args = sym.ATOMS.defs[aid]
        nargs = tuple(arg_image(a) for a in args)
        out = sym.make_atom(head, *nargs) if not sym.args_equal(nargs, args) else Rat.atom(aid)
        memo[aid] = out
        return out

    def rat_image(r: Rat) -> Rat:
        mapping_atoms = {}
        for a in r.atoms():
            img = atom_image(a)
            if not (img == Rat.atom(a)):
                mapping_atoms[a] = img
        if not mapping_atoms:
            return r
        return sym.subst(r, mapping_atoms)

    def val_image(x):
        if isinstance(x, Num):
            return Num(rat_image(x.r), None if x.length is None else rat_image(x.length), x.kind)
        if isinstance(x, Ref):
            return ref_image(x)
        if isinstance(x, Tup):
            return Tup([val_image(i) for i in x.items], x.kind)
        if isinstance(x, Kw):
            return Kw({k: val_image(i) for k, i in x.items.items()}, x.rest)
        if isinstance(x, Term):
            return Term(x.head, [arg_image(a) for a in x.args], [(k, arg_image(a)) for k, a in x.kwargs], x.kind, x.uid, x.node)
        if isinstance(x, P):
            return P(x.op, *[arg_image(a) for a in x.args])
        if isinstance(x, Gam):
            return Gam(val_image(x.pred), val_image(x.a), val_image(x.b))
        return x

    if isinstance(v, Rat):
        return rat_image(v)
    return val_image(v)


def refs_in(v) -> Set[str]:
    """labels of the plain (term-less) array identities a value mentions"""
    out = set()
    for t in walk_vals(v):
        if isinstance(t, Ref) and t.term is None:
            out.add(t.label)
        if isinstance(t, Num):
            for a in sym.all_atoms(t.r) | (sym.all_atoms(t.length) if t.length is not None else set()):
                for arg in sym.ATOMS.args(a):
                    if isinstance(arg, Ref) and arg.term is None:
                        out.add(arg.label)
    return out
