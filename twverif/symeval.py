"""Value-numbering evaluator: walks a function body once (structured, no path
enumeration), binds every name to a canonical value, joins branches with gamma
nodes, evaluates loop bodies once with the loop variables as free symbols, and
records *guarded events* (stores, field stores, library calls, repo calls,
raises, returns) in program order.

It never executes repository code: it interprets the syntax tree over the
abstract domain of values.py / sym.py.
"""
from __future__ import annotations

import ast
import copy
from dataclasses import dataclass, field
from fractions import Fraction
from typing import Dict, List, Optional, Tuple, Any, Callable

from . import sym
from .sym import Rat, C, Unknown
from .values import (Val, Num, Const, Tup, Kw, Term, Fn, Obj, P, Gam, Ref, gamma, veq, p_not, TRUE, FALSE, NONE,
                     arr_param, scalar_param, term_as_num, fresh_serial, walk_vals, contradicts, _len_of)
from .model import Program, FuncInfo, ClassInfo, ModuleInfo, AnalysisError


# --------------------------------------------------------------------------- events
@dataclass
class LoopCtx:
    lid: int
    kind: str                     # 'range' | 'zip' | 'iter' | 'while'
    var: Optional[str]
    sym: Optional[Rat]            # loop index symbol
    lo: Optional[Rat] = None
    hi: Optional[Rat] = None      # exclusive
    node: Any = None
    cond: Optional[Val] = None


@dataclass
class Event:
    kind: str                     # 'store' | 'field' | 'lib' | 'call' | 'raise' | 'return' | 'with_enter' | 'with_exit' | 'append' | 'issue'
    seq: int
    guard: Tuple[Val, ...]
    loops: Tuple[LoopCtx, ...]
    node: Any
    func: Optional[FuncInfo]
    data: dict = field(default_factory=dict)

    def loc(self):
        f = self.func.file if self.func else '?'
        return f"{f}:{getattr(self.node, 'lineno', '?')}"

    def __getattr__(self, k):
        d = self.__dict__.get('data', {})
        if k in d:
            return d[k]
        raise AttributeError(k)


class State:
    def __init__(self, env=None, heap=None, guard=(), imports=None):
        self.env: Dict[str, Val] = env if env is not None else {}
        self.heap: Dict[int, Dict[str, Val]] = heap if heap is not None else {}
        self.guard: Tuple[Val, ...] = tuple(guard)
        self.imports = imports if imports is not None else {}

    def clone(self):
        return State(dict(self.env), {k: dict(v) for k, v in self.heap.items()}, self.guard, dict(self.imports))


def zip_extent(lens: list):
    """the number of tuples zip(...) yields: the smallest of the extents (decided when they differ by constants; otherwise a `min` atom)"""
    lens = [l for l in lens if l is not None]
    if not lens:
        return None
    best = lens[0]
    for l in lens[1:]:
        d = l - best
        if d.is_const():
            if d.const_value() < 0:
                best = l
        else:
            from .values import minmax_atom
            best = minmax_atom('min', [best, l])
    return best


def flat_env(env: dict, heap: dict) -> dict:
    """the environment with every object field as a pseudo-name `@<oid>.<field>`: loop state kept in object fields is read like loop state kept in names"""
    out = dict(env)
    for oid, fields in heap.items():
        for f, v in fields.items():
            out[f"@{oid}.{f}"] = v
    return out


class Frame:
    def __init__(self, func: Optional[FuncInfo], module: ModuleInfo, self_cls: Optional[ClassInfo] = None):
        self.func = func
        self.module = module
        self.returns: List[Tuple[Tuple[Val, ...], Val]] = []
        self.defcls = self_cls


class _PyRaise(Exception):
    """the abstract machine itself determines that an exception is raised here (e.g. a missing key of a literal dict)"""

    def __init__(self, exc: str):
        super().__init__(exc)
        self.exc = exc


class _NoReturn(Exception):
    """an inlined callee never returns normally (every path raises): the calling path ends here"""


UNSUPPORTED = 'unsupported'


def neg_const_index(r: Rat) -> bool:
    """index expression that counts from the end: every numerator coefficient negative, denominator constant"""
    if r.is_zero() or not r.d.is_const():
        return False
    s = 1 if r.d.const_value() > 0 else -1
    return all(c * s < 0 for c in r.n.t.values())


class Evaluator:
    def __init__(self, prog: Program, inline: Callable[[FuncInfo], bool] = None, max_depth: int = 8,
                 param_hook: Callable[[FuncInfo, str], Optional[Val]] = None,
                 decide: Callable[[Val], Optional[bool]] = None, opaque_kind: Dict[str, str] = None, elementwise: bool = False):
        self.prog = prog
        # element-wise mode (used by rules that compare vectorised code with an element-wise specification): numpy.where / clip / minimum / maximum /
        # searchsorted / boolean-mask reads and stores get element-wise closed forms instead of opaque terms
        self.elementwise = elementwise
        self.inline = inline or (lambda f: True)
        self.max_depth = max_depth
        self.events: List[Event] = []
        self.issues: List[str] = []
        self.notes: List[str] = []
        self.loops: List[LoopCtx] = []
        self.depth = 0
        self.frames: List[Frame] = []
        self.seq = 0
        self.param_hook = param_hook
        self.decide = decide
        self._in_try = 0
        self.loop_log: List[dict] = []       # per executed while loop: state before, state at the end of the body, condition
        self._unrolled: List[dict] = []      # unrolled loops over literal tables being executed (continue / break bookkeeping)
        self.opaque_kind = opaque_kind or {}
        self.opaque_calls = 0

    # ------------------------------------------------------------------ events
    def emit(self, kind, st: State, node, **data) -> Event:
        self.seq += 1
        ev = Event(kind, self.seq, st.guard, tuple(self.loops), node, self.frames[-1].func if self.frames else None, data)
        self.events.append(ev)
        return ev

    def issue(self, st, node, msg):
        self.issues.append(f"{self.frames[-1].func.file if self.frames and self.frames[-1].func else '?'}:{getattr(node, 'lineno', '?')} {msg}")

    def unsupported(self, st, node, what) -> Term:
        self.issue(st, node, f"unsupported construct: {what}")
        return Term(UNSUPPORTED, (Const(what),), uid=fresh_serial(), node=node)

    # ------------------------------------------------------------------ entry points
    def run_function(self, fi: FuncInfo, args: Dict[str, Val] = None, self_val: Optional[Val] = None,
                     heap: Dict[int, Dict[str, Val]] = None, pos: List[Val] = None, kwargs: Dict[str, Val] = None,
                     star_kwargs: Optional[Val] = None):
        """Evaluate `fi` with parameters bound from `args` (by name); unbound parameters take their
        defaults (evaluated) or fresh symbols.  Returns (result Val, final State)."""
        st = State(heap=heap if heap is not None else {})
        pos = list(pos or [])
        kw = dict(kwargs or {})
        if args:
            kw.update(args)
        try:
            res = self._invoke(fi, st, pos, kw, star_kwargs, self_val, node=fi.node, top=True)
        except _NoReturn:
            res = NONE
        return res, st

    # ------------------------------------------------------------------ invocation
    def _bind(self, fi: FuncInfo, st: State, pos: List[Val], kw: Dict[str, Val], star_kw: Optional[Val], self_val, node,
              top=False) -> Optional[Dict[str, Val]]:
        a = fi.node.args
        params = [x.arg for x in a.posonlyargs + a.args]
        env: Dict[str, Val] = {}
        pos = list(pos)
        if self_val is not None and not fi.is_static and fi.cls is not None:
            pos = [self_val] + pos
        ndef = len(a.defaults)
        defaults = {params[len(params) - ndef + i]: d for i, d in enumerate(a.defaults)}
        for i, kd in enumerate(a.kw_defaults):
            if kd is not None:
                defaults[a.kwonlyargs[i].arg] = kd
        allnames = params + [x.arg for x in a.kwonlyargs]
        extra_pos = []
        for i, v in enumerate(pos):
            if i < len(params):
                env[params[i]] = v
            else:
                extra_pos.append(v)
        if extra_pos:
            if a.vararg:
                env[a.vararg.arg] = Tup(extra_pos)
            else:
                self.issue(st, node, f"too many positional arguments for {fi.qualname}")
                return None
        elif a.vararg:
            env[a.vararg.arg] = Tup([])
        extra_kw = {}
        for k, v in kw.items():
            if k in allnames:
                if k in env:
                    self.issue(st, node, f"multiple values for parameter {k} of {fi.qualname}")
                    return None
                env[k] = v
            else:
                extra_kw[k] = v
        if extra_kw and not a.kwarg:
            self.issue(st, node, f"unexpected keyword(s) {sorted(extra_kw)} for {fi.qualname}")
            return None
        if a.kwarg:
            env[a.kwarg.arg] = Kw(extra_kw, star_kw)
        for name in allnames:
            if name in env:
                continue
            if name in defaults:
                dv = self.eval_default(fi, defaults[name])
                if star_kw is not None and not (isinstance(star_kw, Kw) and star_kw.rest is None and name not in star_kw.items):
                    # an opaque **kwargs at the call site may override this default
                    dv = Term('kwget', (star_kw, Const(name), dv), kind=getattr(dv, 'kind', 'unknown'))
                env[name] = dv
            elif top:
                hv = self.param_hook(fi, name) if self.param_hook else None
                env[name] = hv if hv is not None else Term('param', (Const(f"{fi.qualname}:{name}"),))
            else:
                if star_kw is not None:
                    env[name] = Term('kwget', (star_kw, Const(name), Term('missing', ())))
                else:
                    self.issue(st, node, f"missing argument {name} for {fi.qualname}")
                    return None
        return env

    def _returns_values(self, fi: FuncInfo) -> bool:
        cache = self.__dict__.setdefault('_rv_cache', {})
        if fi.qualname not in cache:
            def walk(n):
                for c in ast.iter_child_nodes(n):
                    if isinstance(c, (ast.FunctionDef, ast.AsyncFunctionDef, ast.Lambda, ast.ClassDef)):
                        continue
                    if isinstance(c, ast.Return) and c.value is not None and not (isinstance(c.value, ast.Constant) and c.value.value is None):
                        return True
                    if walk(c):
                        return True
                return False
            cache[fi.qualname] = walk(fi.node)
        return cache[fi.qualname]

    def eval_default(self, fi: FuncInfo, node: ast.expr) -> Val:
        st = State()
        fr = Frame(None, fi.module, fi.cls)
        self.frames.append(fr)
        try:
            return self.eval(node, st)
        finally:
            self.frames.pop()

    def _repo_decorators(self, fi: FuncInfo):
        out = []
        for d in getattr(fi.node, 'decorator_list', []) or []:
            target = d.func if isinstance(d, ast.Call) else d
            r = self.prog.resolve_expr(fi.module, target)
            if r is not None and r[0] == 'func':
                out.append((d, r[2]))
        return out

    def _invoke(self, fi: FuncInfo, st: State, pos, kw, star_kw, self_val, node, top=False, closure_env=None, raw=False) -> Val:
        if not raw and self.depth < self.max_depth:
            decos = self._repo_decorators(fi)
            if decos:
                # a decorator defined in the repository decides what a call of the method does: apply it to the undecorated function
                cur = Fn('repo', fi)
                cur.raw = True
                for d, dfi in reversed(decos):
                    if isinstance(d, ast.Call):
                        # a decorator factory: its arguments are evaluated where the function is defined (module level), the call yields the decorator
                        if any(isinstance(a_, ast.Starred) for a_ in d.args) or any(k_.arg is None for k_ in d.keywords):
                            self.issue(st, node, f"decorator factory {ast.unparse(d)[:40]} on {fi.qualname}")
                            break
                        self.frames.append(Frame(None, fi.module))
                        try:
                            dst = State({}, st.heap, st.guard, {})
                            dpos = [self.eval(a_, dst) for a_ in d.args]
                            dkw = {k_.arg: self.eval(k_.value, dst) for k_ in d.keywords}
                        finally:
                            self.frames.pop()
                        deco = self._invoke(dfi, st, dpos, dkw, None, None, d)
                        cur = self.call(deco, [cur], {}, None, st, node)
                        continue
                    cur = self._invoke(dfi, st, [cur], {}, None, None, node)
                else:
                    res_ = self.call(cur, ([self_val] if (self_val is not None and not fi.is_static and fi.cls is not None) else []) + list(pos), kw, star_kw, st, node)
                    if top:
                        self.top_state = getattr(self, 'top_state', None) or st
                    return res_
        if self.depth >= self.max_depth:
            return self.opaque_call(fi, st, pos, kw, star_kw, self_val, node)
        env = self._bind(fi, st, pos, kw, star_kw, self_val, node, top=top)
        if env is None:
            return Term('badcall', (Const(fi.qualname),), uid=fresh_serial(), node=node)
        if closure_env:
            merged = dict(closure_env)
            merged.update(env)
            env = merged
        bound0 = dict(env)
        sub = State(env, st.heap, st.guard, {})
        fr = Frame(fi, fi.module, fi.cls)
        fr.caller_env = st.env
        self.frames.append(fr)
        self.depth += 1
        try:
            falls = self.exec_block(fi.body_nodes(), sub)
        finally:
            self.depth -= 1
            self.frames.pop()
        st.heap = sub.heap
        if top:
            self.top_state = sub
        if not top and isinstance(node, ast.Call) and len(self.frames) >= 1 and self.frames[-1].func is not None:
            # in-place writes into a parameter's array are writes into the caller's array
            for p_, expr in self._callee_arg_exprs(self.frames[-1].func, node):
                if isinstance(expr, (ast.Name, ast.Attribute)) and p_ in sub.env and p_ in bound0 and not (sub.env[p_] is bound0[p_]):
                    try:
                        self.rebind(expr, sub.env[p_], st)
                    except Exception:
                        pass
        if falls and (fr.returns or self._returns_values(fi)):
            # control may fall off the end of a function that also returns values (on this or on other paths): implicit None
            fr.returns.append((sub.guard, NONE))
            self.emit('fallthrough', sub, fi.node, func=fi)
        if not falls and not fr.returns and not top:
            raise _NoReturn()
        # path facts that hold on every normal exit of the callee hold afterwards in the caller
        # (e.g. the negation of a guard whose failing branch raises)
        exits = [g[len(st.guard):] for g, _ in fr.returns]
        if falls and not fr.returns:
            exits = [sub.guard[len(st.guard):]]
        if exits and not top:
            common = [p for p in exits[0] if all(any(veq(p, q) for q in ex) for ex in exits[1:])]
            if common:
                st.guard = st.guard + tuple(p for p in common if not any(veq(p, q) for q in st.guard))
        # combine return cases
        if not fr.returns:
            return NONE
        # fall-through (implicit None) is handled in exec: a function whose block falls off its end
        res = None
        for guard, val in reversed(fr.returns):
            extra = guard[len(st.guard):]
            if res is None:
                res = val
            else:
                cond = self.conj(extra)
                res = gamma(cond, val, res)
        return res

    @staticmethod
    def conj(preds) -> Val:
        uniq = []
        for p in preds:
            if not any(veq(p, q) for q in uniq):
                uniq.append(p)
        preds = uniq
        if not preds:
            return TRUE
        if len(preds) == 1:
            return preds[0]
        return P('and', *preds)

    def opaque_call(self, fi: FuncInfo, st, pos, kw, star_kw, self_val, node) -> Val:
        """call kept as an uninterpreted application, arguments normalised by parameter binding"""
        self.opaque_calls += 1
        env = self._bind(fi, st, pos, kw, star_kw, self_val, node)
        if env is None:
            t = Term('badcall', (Const(fi.qualname),), uid=fresh_serial(), node=node)
        else:
            items = [(k, v) for k, v in env.items() if not (k == 'self' and fi.cls is not None and not fi.is_static)]
            t = Term('call:' + fi.qualname, (), items, node=node, kind=self.opaque_kind.get(fi.qualname, 'unknown'))
        self.emit('call', st, node, callee=fi, term=t, bound=env)
        return t

    # ------------------------------------------------------------------ statements
    def exec_block(self, stmts, st: State) -> bool:
        """returns True if control may fall through the end of the block"""
        for s in stmts:
            if not self.exec(s, st):
                return False
        return True

    def exec(self, s: ast.stmt, st: State) -> bool:
        m = getattr(self, 'exec_' + type(s).__name__, None)
        if m is None:
            self.unsupported(st, s, type(s).__name__)
            return True
        depth = len(self.frames)
        loops = len(self.loops)
        try:
            return m(s, st)
        except _NoReturn:
            del self.frames[depth:]
            del self.loops[loops:]
            return False
        except _PyRaise as ex:
            if isinstance(s, ast.Try):
                raise
            del self.frames[depth:]
            del self.loops[loops:]
            if self._in_try:
                raise
            self.emit('raise', st, s, exc=ex.exc, reraise=False, implicit=True)
            return False

    def exec_Pass(self, s, st):
        return True

    def exec_Expr(self, s, st):
        if isinstance(s.value, ast.Constant):
            return True
        self.eval(s.value, st)
        return True

    def exec_Import(self, s, st):
        self.prog._index_import(self.frames[-1].module, s, st.imports)
        return True

    exec_ImportFrom = exec_Import

    def exec_Assert(self, s, st):
        return True

    def exec_Return(self, s, st):
        v = self.eval(s.value, st) if s.value is not None else NONE
        self.frames[-1].returns.append((st.guard, v))
        self.emit('return', st, s, value=v)
        return False

    def exec_Raise(self, s, st):
        exc = None
        msg = None
        if s.exc is not None:
            e = s.exc
            r_ = None
            if isinstance(e, ast.Call) and isinstance(e.func, (ast.Name, ast.Attribute)):
                root_ = e.func
                while isinstance(root_, ast.Attribute):
                    root_ = root_.value
                if isinstance(root_, ast.Name) and root_.id not in st.env:
                    r_ = self.prog.resolve_expr(self.frames[-1].module, e.func, st.imports)
            if r_ is not None and r_[0] == 'func':
                # `raise helper(...)`: the exception is what the helper builds
                v_ = self.eval(e, st)
                exc = v_.args[0].v if isinstance(v_, Term) and v_.head == 'exception' and v_.args and isinstance(v_.args[0], Const) else r_[1]
            elif isinstance(e, ast.Call):
                exc = self.exc_name(e.func, st)
                for a in e.args:
                    self.eval(a, st)
            else:
                exc = self.exc_name(e, st)
        self.emit('raise', st, s, exc=exc, reraise=s.exc is None)
        return False

    def handler_types(self, t, st):
        """the exception names an `except` clause lists: a tuple display, or a module-level name bound to one, is spelled out"""
        if t is None:
            return None
        if isinstance(t, ast.Tuple):
            return [self.exc_name(e_, st) for e_ in t.elts]
        if isinstance(t, ast.Name) and t.id not in st.env:
            mi = self.frames[-1].module
            c_ = mi.constants.get(t.id)
            if isinstance(c_, ast.Tuple):
                return [self.exc_name(e_, st) for e_ in c_.elts]
        return self.exc_name(t, st)

    def exc_name(self, e, st):
        if isinstance(e, ast.Name):
            if e.id in st.env:
                return f"<var {e.id}>"
            r = self.prog.resolve_expr(self.frames[-1].module, e, st.imports)
            if r is not None:
                return r[1]
            return e.id
        d = self.prog.dotted_of(self.frames[-1].module, e, st.imports)
        return d or ast.unparse(e)

    def exec_Assign(self, s, st):
        v = self.eval(s.value, st)
        for t in s.targets:
            self.assign(t, v, st, s)
        return True

    def exec_AnnAssign(self, s, st):
        if s.value is not None:
            self.assign(s.target, self.eval(s.value, st), st, s)
        return True

    def exec_AugAssign(self, s, st):
        cur = self.eval(s.target, st)
        rhs = self.eval(s.value, st)
        v = self.binop(s.op, cur, rhs, st, s)
        self.inplace_update(s.target, cur, v, st, s)
        return True

    def inplace_update(self, target, cur: Val, v: Val, st: State, node):
        """`target op= rhs` / `ufunc(..., out=target)`: the object bound to `target` is modified in place when it is an array"""
        view = getattr(cur, 'view_of', None) if isinstance(target, ast.Name) else None
        if view is not None:
            parent_expr, idx = view
            parent = self.eval(parent_expr, st)
            if isinstance(parent, Term) and parent.kind == 'ndarray':
                parent = term_as_num(parent, True, 'ndarray')
            if isinstance(parent, Num) and parent.length is not None:
                # the name is a slice view of `parent`: the update lands in the parent
                self.emit('store', st, node, target=ast.unparse(parent_expr), base=parent, index=idx, value=v, aug=True, whole=False, target_expr=parent_expr,
                          through_view=target.id)
                newp = Term('stored', (parent,), uid=fresh_serial(), kind=getattr(parent, 'kind', 'unknown'))
                newp = term_as_num(newp, True, getattr(parent, 'kind', None))
                pre = self._whole_store(parent, idx, v)
                self.rebind(parent_expr, pre if pre is not None else newp, st)
                st.env[target.id] = v
                return
        if isinstance(target, ast.Name) and isinstance(cur, (Term, Num)) and not (isinstance(cur, Num) and cur.length is None and not any(
                isinstance(t_, Term) for t_ in walk_vals(cur))) and any(isinstance(t_, Term) and t_.head in ('method:reshape', 'lib:numpy.reshape', 'T', 'lib:numpy.split',
                                                                                                 'lib:numpy.array_split', 'lib:numpy.lib.stride_tricks.as_strided')
                                                         for t_ in walk_vals(cur)):
            # possibly a view (a row of a reshaped array, ...) updated in place: the parent changes in a way this evaluator does not follow
            self.emit('store', st, node, target=target.id, base=cur, index=None, value=v, aug=True, whole=True, target_expr=target, view_unknown=True)
        self.assign(target, v, st, node, aug=True)

    def assign(self, t, v: Val, st: State, node, aug=False):
        if isinstance(t, ast.Name):
            if aug and isinstance(st.env.get(t.id), Num) and st.env[t.id].length is not None:
                cur = st.env[t.id]
                if getattr(cur, 'view', False):
                    # `view += v`: the update lands in the array the view was sliced from
                    through = self._view_store(ast.Subscript(value=t, slice=ast.Constant(value=Ellipsis), ctx=ast.Store()), cur, Const(Ellipsis), st)
                    if isinstance(through, tuple):
                        pname, pidx = through
                        self.__dict__.setdefault('_view_written', set()).add(pname)
                        parent = st.env[pname]
                        self.emit('store', st, node, target=pname, base=parent, index=pidx, value=v, aug=True, whole=False,
                                  target_expr=ast.copy_location(ast.Name(id=pname, ctx=ast.Load()), t))
                        newp = Term('stored', (parent,), uid=fresh_serial(), kind=getattr(parent, 'kind', 'unknown'))
                        st.env[pname] = term_as_num(newp, True, getattr(parent, 'kind', None)) if isinstance(parent, Num) else newp
                        st.env[t.id] = v
                        return
                    self.issue(st, node, f"in-place update of {t.id}, a view of an array that is not held by a local name")
                # `a += v` on an array name mutates the array in place
                self.emit('store', st, node, target=t.id, base=st.env[t.id], index=None, value=v, aug=True, whole=True,
                          target_expr=t)
            elif aug and isinstance(st.env.get(t.id), (Term, Gam)) and getattr(st.env[t.id], 'kind', 'unknown') in ('ndarray', 'ndarray2d', 'unknown', 'list') \
                    and not (isinstance(st.env[t.id], Term) and st.env[t.id].head in ('loopvar', 'param')):
                # an in-place update of something that may be an array (or a view of one) the evaluator has not resolved: what it writes is not known
                self.issue(st, node, f"in-place update `{t.id} {type(getattr(node, 'op', None)).__name__}= ...` of a value that is not resolved "
                                     f"({str(st.env[t.id])[:60]}): it may write into an array through a view")
            st.env[t.id] = v
        elif isinstance(t, (ast.Tuple, ast.List)):
            items = self.unpack(v, len(t.elts), st, node)
            for sub, iv in zip(t.elts, items):
                self.assign(sub, iv, st, node)
        elif isinstance(t, ast.Attribute):
            base = self.eval(t.value, st)
            setter = self.prog.find_method(base.cls, t.attr + '.setter') if isinstance(base, Obj) else None
            if setter is not None and self.depth < self.max_depth:
                # assignment to a property: its setter runs
                self._invoke(setter, st, [v], {}, None, base, node)
            elif isinstance(base, Obj):
                getter = self.prog.find_method(base.cls, t.attr)
                if getter is not None and getter.is_property:
                    self.issue(st, node, f"assignment to the read-only property {t.attr} of {base.cls.qualname}")
                st.heap.setdefault(base.oid, {})[t.attr] = v
                self.emit('field', st, node, obj=base, field=t.attr, value=v)
            else:
                self.emit('field', st, node, obj=base, field=t.attr, value=v)
        elif isinstance(t, ast.Subscript):
            base = self.eval(t.value, st)
            if isinstance(base, Obj):
                m = self.prog.find_method(base.cls, '__setitem__')
                if m is not None:
                    idx = self.eval_index(t.slice, st, base)
                    self._invoke(m, st, [idx, v], {}, None, base, node)
                    return
            idx = self.eval_index(t.slice, st, base)
            if isinstance(base, Kw) and isinstance(idx, Const) and isinstance(idx.v, str) and not aug and isinstance(t.value, (ast.Name, ast.Attribute)):
                # d['key'] = v on a dictionary with known items: the dictionary with that item set (branches merge item by item)
                items = dict(base.items)
                items[idx.v] = v
                self.rebind(t.value, Kw(items, base.rest), st)
                return
            through = self._view_store(t, base, idx, st) if isinstance(t.value, ast.Name) else None
            if through == 'unknown':
                self.issue(st, node, f"store through the view {ast.unparse(t.value)} of an array that is not held by a local name")
            elif through is not None:
                # `view[...] = v` / `view[:] = v`: the store lands in the parent array, at the view's window
                pname, pidx = through
                t = ast.Subscript(value=ast.copy_location(ast.Name(id=pname, ctx=ast.Load()), t), slice=t.slice, ctx=ast.Store())
                base, idx = st.env[pname], pidx
                self.__dict__.setdefault('_view_written', set()).add(pname)
            self.emit('store', st, node, target=ast.unparse(t.value), base=base, index=idx, value=v, aug=aug, whole=False,
                      target_expr=t.value)
            newv = Term('stored', (base,), uid=fresh_serial(), kind=getattr(base, 'kind', 'unknown'))
            newv = term_as_num(newv, True, getattr(base, 'kind', None)) if isinstance(base, Num) else newv
            pre = self._prefix_store(base, idx, v)
            if pre is None:
                pre = self._whole_store(base, idx, v)
            if pre is None and not aug:
                pre = self._segment_store(base, idx, v)
            if pre is None and not aug and self.elementwise:
                pre = self._masked_store(base, idx, v)
            if pre is not None:
                newv = pre
            self.rebind(t.value, newv, st)
        elif isinstance(t, ast.Starred):
            self.unsupported(st, node, 'starred assignment')
        else:
            self.unsupported(st, node, f"assignment target {type(t).__name__}")

    @staticmethod
    def _reread_views(v: Val, old: Val, new: Val) -> Val:
        """`v` with every element read of the array `old` (a whole array, known by identity) replaced by the same element of `new`"""
        if not (isinstance(old, Num) and isinstance(new, Num) and old.length is not None and new.length is not None and isinstance(v, Val)):
            return v
        oa = list(old.r.atoms())
        if len(oa) != 1 or not (old.r == Rat.atom(oa[0])) or sym.ATOMS.head(oa[0]) != 'el' or not (sym.ATOMS.args(oa[0])[1] == sym.idx()):
            return v
        ref = sym.ATOMS.args(oa[0])[0]
        mp = {}
        for r in v.rats():
            for a in sym.all_atoms(r):
                if sym.ATOMS.head(a) == 'el' and (sym.ATOMS.args(a)[0] is ref or sym.ATOMS.args(a)[0] == ref) and isinstance(sym.ATOMS.args(a)[1], Rat):
                    mp[a] = new.at(sym.ATOMS.args(a)[1]).r
        if not mp:
            return v
        return v.subst(lambda r: sym.subst(r, mp))

    def _view_store(self, t, base, idx, st):
        """(parent name, slice index) when `t` = `name[...]` / `name[:]` and `name` holds a view (basic slice) of an ndarray held by a local name;
        'unknown' when it is a view of something no local name holds; None when `name` is not a view"""
        if not (isinstance(base, Num) and base.length is not None and getattr(base, 'view', False)):
            return None
        whole = (isinstance(idx, Const) and idx.v is Ellipsis) or (isinstance(idx, Term) and idx.head == 'slice' and all(
            isinstance(a_, Const) and a_.v is None for a_ in idx.args))
        if not whole:
            return None
        ats = list(base.r.atoms())
        if len(ats) != 1 or not (base.r == Rat.atom(ats[0])) or sym.ATOMS.head(ats[0]) != 'el':
            return 'unknown'
        ref, ix = sym.ATOMS.args(ats[0])
        off = ix - sym.idx()
        if sym.idx_atom() in sym.all_atoms(off):
            return 'unknown'
        for nm, w in st.env.items():
            if nm == t.value.id or not (isinstance(w, Num) and w.length is not None and w.kind == 'ndarray'):
                continue
            wa = list(w.r.atoms())
            if len(wa) == 1 and w.r == Rat.atom(wa[0]) and sym.ATOMS.head(wa[0]) == 'el':
                wref, wix = sym.ATOMS.args(wa[0])
                if (wref is ref or wref == ref) and wix == sym.idx():
                    return nm, Term('slice', (Num(off), Num(off + base.length), Const(None)))
        return 'unknown'

    def _whole_store(self, base, idx, v) -> Optional[Val]:
        """`a[:] = v` / `a[:len(a)] = v` (also as `+=`, where v is already a[...] + rhs) with v of the same extent: a holds the elements of v"""
        if not (isinstance(base, Num) and base.length is not None and isinstance(idx, Term) and idx.head == 'slice' and len(idx.args) == 3):
            return None
        lo, hi, step = idx.args
        if not ((isinstance(lo, Const) and lo.v is None) or (isinstance(lo, Num) and lo.is_const() and lo.const() == 0)):
            return None
        if not ((isinstance(hi, Const) and hi.v is None) or (isinstance(hi, Num) and hi.length is None and hi.r == base.length)):
            return None
        if not ((isinstance(step, Const) and step.v is None) or (isinstance(step, Num) and step.is_const() and step.const() == 1)):
            return None
        if not (isinstance(v, Num) and v.length is not None and v.length == base.length):
            return None
        out = Num(v.r, v.length, base.kind)
        from .dtypes import dtype_of
        out.dt = dtype_of(base)
        return out

    def _masked_store(self, base, idx, v) -> Optional[Val]:
        """`a[M] = c` (scalar c) or `a[M] = w` where w was computed from reads through the same mask: element i becomes c / w[i] where M[i] holds"""
        if not (isinstance(idx, Term) and idx.head == 'mask' and idx.args and getattr(idx, 'mask', None) is None):
            return None
        nb = base if isinstance(base, Num) else (self.as_num(base, True) if isinstance(base, Term) and base.kind in ('ndarray', 'list') else None)
        if nb is None or nb.length is None or getattr(nb, 'mask', None) is not None:
            return None
        vn = v if isinstance(v, Num) else self.as_num(v)
        if vn is None:
            return None
        if vn.length is not None:
            if getattr(vn, 'mask', None) is None or not veq(vn.mask, idx.args[0]):
                return None
        elif getattr(vn, 'mask', None) is not None:
            return None
        out = gamma(idx.args[0], Num(vn.r, nb.length, nb.kind), nb)
        if isinstance(out, Num):
            out.dt = getattr(nb, 'dt', None)
            return out
        return None

    def _segment_store(self, base, idx, v) -> Optional[Val]:
        """`buf[lo:hi] = v` on a buffer known as a concatenation of segments, where lo is the start of a still unfilled segment and the stored piece
        (an array of hi - lo elements, or a scalar broadcast over hi - lo slots) fits into it: the segment is split into the piece and its unfilled rest"""
        bt = arr_identity(base) if isinstance(base, Num) else base
        bt = _as_fill(bt)
        if not (isinstance(idx, Term) and idx.head == 'slice' and len(idx.args) == 3):
            return None
        segs = list(bt.args) if isinstance(bt, Term) and bt.head == 'cat' else ([bt] if isinstance(bt, Term) and bt.head == 'fill' else None)
        if not segs:
            return None
        lens = []
        for sg in segs:
            sg_ = _as_fill(sg)
            ln = sg_.args[1].r if isinstance(sg_, Term) and sg_.head == 'fill' and isinstance(sg_.args[1], Num) else _len_of(sg)
            if ln is None:
                return None
            lens.append(ln)
        total = C(0)
        for ln in lens:
            total = total + ln
        lo, hi, step = idx.args
        if not (isinstance(step, Const) and step.v is None):
            return None
        if isinstance(lo, Const) and lo.v is None:
            lo_r = C(0)
        elif isinstance(lo, Num) and lo.length is None:
            lo_r = total + lo.r if neg_const_index(lo.r) else lo.r
        else:
            return None
        if isinstance(hi, Const) and hi.v is None:
            hi_r = total
        elif isinstance(hi, Num) and hi.length is None:
            hi_r = total + hi.r if neg_const_index(hi.r) else hi.r
        else:
            return None
        m = hi_r - lo_r
        if m.is_zero():
            return base                 # a store into an empty slice changes nothing
        off = C(0)
        for k, (sg, ln) in enumerate(zip(segs, lens)):
            sg_ = _as_fill(sg)
            if off == lo_r and isinstance(sg_, Term) and sg_.head == 'fill' and isinstance(sg_.args[0], Const) and sg_.args[0].v == '<uninitialised>':
                rest = ln - m
                if not (rest.is_const() and rest.const_value() >= 0) and not (rest.d.t == {(): 1} and all(c_ >= 0 for c_ in rest.n.t.values())):
                    return None         # the piece is not known to fit into the segment
                if isinstance(v, Num) and v.length is not None:
                    if not (v.length == m):
                        return None
                    piece = v
                elif isinstance(v, Term) and v.kind in ('ndarray', 'list'):
                    piece = self.as_num(v, True)
                    if piece is None or piece.length is None or not (piece.length == m):
                        return None
                elif isinstance(v, Num):
                    piece = Num(v.r, m, 'ndarray')          # a scalar broadcast over the slice: m copies of it
                else:
                    return None
                new = [piece] + ([] if rest.is_zero() else [Term('fill', (sg_.args[0], Num(rest)), kind='ndarray')])
                out = mk_cat(segs[:k] + new + segs[k + 1:])
                return term_as_num(out, True, 'ndarray') if isinstance(base, Num) else out
            off = off + ln
        return None

    def _prefix_store(self, base, idx, v) -> Optional[Val]:
        """`buf[:L] = a` on a freshly filled buffer of N copies of c, with L = len(a): the array a ++ fill(c, N - L)"""
        bt = arr_identity(base) if isinstance(base, Num) else base
        bt = _as_fill(bt)
        if isinstance(bt, Term) and bt.head == 'cat' and isinstance(idx, Num) and idx.length is None and bt.args:
            # `buf[-1] = v` where the buffer is  <known elements> ++ one still unfilled slot
            last = _as_fill(bt.args[-1])
            total = term_as_num(bt, True).length
            ix = total + idx.r if neg_const_index(idx.r) else idx.r
            if isinstance(last, Term) and last.head == 'fill' and last.args[1].r == C(1) and ix == total - C(1) and isinstance(v, Num) and v.length is None:
                out = mk_cat(list(bt.args[:-1]) + [v])
                return term_as_num(out, True, 'ndarray') if isinstance(base, Num) else out
            return None
        if not (isinstance(bt, Term) and bt.head == 'fill' and isinstance(idx, Term) and idx.head == 'slice' and len(idx.args) == 3):
            return None
        lo, hi, step = idx.args
        if isinstance(hi, Num) and hi.length is None and neg_const_index(hi.r):
            hi = Num(bt.args[1].r + hi.r)
        if not ((isinstance(lo, Const) and lo.v is None) or (isinstance(lo, Num) and lo.is_const() and lo.const() == 0)):
            return None
        if not (isinstance(step, Const) and step.v is None) or not isinstance(hi, Num) or hi.length is not None:
            return None
        a_ = v if isinstance(v, Num) else (self.as_num(v, True) if isinstance(v, Term) else None)
        if a_ is None or a_.length is None or not (a_.length == hi.r):
            return None
        rest = Term('fill', (bt.args[0], Num(bt.args[1].r - hi.r)), kind='ndarray')
        out = mk_cat([a_, rest])
        return term_as_num(out, True, 'ndarray') if isinstance(base, Num) else out

    def rebind(self, target_expr, newv, st):
        if isinstance(target_expr, ast.Name):
            st.env[target_expr.id] = newv
        elif isinstance(target_expr, ast.Attribute):
            b = self.eval(target_expr.value, st)
            if isinstance(b, Obj):
                st.heap.setdefault(b.oid, {})[target_expr.attr] = newv

    def namedtuple_items(self, v: Val, st) -> Optional[List[Val]]:
        """the fields, in order, of an instance of a typing.NamedTuple class of the repository (a tuple: it unpacks, stars and indexes by position)"""
        if not isinstance(v, Obj) or not any(ast.unparse(b).endswith('NamedTuple') for b in v.cls.node.bases):
            return None
        names = [n_.target.id for n_ in v.cls.node.body if isinstance(n_, ast.AnnAssign) and isinstance(n_.target, ast.Name)]
        fields = st.heap.get(v.oid, {})
        if not names or any(nm not in fields for nm in names):
            return None
        return [fields[nm] for nm in names]

    def unpack(self, v: Val, n: int, st, node) -> List[Val]:
        nt = self.namedtuple_items(v, st)
        if nt is not None and len(nt) == n:
            return nt
        if isinstance(v, Tup) and len(v.items) == n:
            return list(v.items)
        if isinstance(v, Gam):
            a = self.unpack(v.a, n, st, node)
            b = self.unpack(v.b, n, st, node)
            return [gamma(v.pred, x, y) for x, y in zip(a, b)]
        if isinstance(v, Num) and v.length is not None:
            return [v.at(C(i)) for i in range(n)]
        if isinstance(v, Term) and v.kind in ('ndarray', 'list'):
            nv = term_as_num(v, True, v.kind)
            return [nv.at(C(i)) for i in range(n)]
        return [Term('item', (v, Const(i)), kind='unknown') for i in range(n)]

    # ---- control flow
    def exec_If(self, s, st):
        cond = self.truth(self.eval(s.test, st), st, s.test)
        if isinstance(cond, Const):
            return self.exec_block(s.body if cond.v else s.orelse, st)
        a = st.clone()
        a.guard = st.guard + (cond,)
        b = st.clone()
        b.guard = st.guard + (p_not(cond),)
        fa = self.exec_block(s.body, a)
        fb = self.exec_block(s.orelse, b)
        if not fa and not fb:
            return False
        if fa and not fb:
            st.env, st.heap, st.guard, st.imports = a.env, a.heap, a.guard, a.imports
            return True
        if fb and not fa:
            st.env, st.heap, st.guard, st.imports = b.env, b.heap, b.guard, b.imports
            return True
        self.merge(st, cond, a, b)
        return True

    @staticmethod
    def _store_over(va: Val, vb: Val) -> bool:
        """`va` is `vb` after one or more in-place stores (whose effect on the elements is not tracked): joining the two, the buffer counts as stored into"""
        def term_of(v):
            if isinstance(v, Term):
                return v
            if isinstance(v, Num) and v.length is not None:
                ats = list(v.r.atoms())
                if len(ats) == 1 and sym.ATOMS.head(ats[0]) == 'el' and v.r == Rat.atom(ats[0]):
                    ref, ix = sym.ATOMS.args(ats[0])
                    if isinstance(ref, Ref) and isinstance(ref.term, Term) and isinstance(ix, Rat) and ix == sym.idx():
                        return ref.term
            return None
        t = term_of(va)
        for _ in range(8):
            if not (isinstance(t, Term) and t.head in ('stored', 'mutated') and t.args):
                return False
            inner = t.args[0]
            if veq(inner, vb):
                return True
            t = term_of(inner)
        return False

    def merge(self, st: State, cond: Val, a: State, b: State):
        env = {}
        for k in set(a.env) | set(b.env):
            va, vb = a.env.get(k), b.env.get(k)
            if va is None or vb is None:
                env[k] = gamma(cond, va if va is not None else Term('unbound', (Const(k),)),
                               vb if vb is not None else Term('unbound', (Const(k),)))
            elif self._store_over(va, vb):
                env[k] = va
            elif self._store_over(vb, va):
                env[k] = vb
            else:
                env[k] = gamma(cond, va, vb)
        heap = {}
        for oid in set(a.heap) | set(b.heap):
            fa, fb = a.heap.get(oid, {}), b.heap.get(oid, {})
            heap[oid] = {}
            for f in set(fa) | set(fb):
                va, vb = fa.get(f), fb.get(f)
                if va is None or vb is None:
                    heap[oid][f] = va if va is not None else vb
                elif self._store_over(va, vb):
                    heap[oid][f] = va
                elif self._store_over(vb, va):
                    heap[oid][f] = vb
                else:
                    heap[oid][f] = gamma(cond, va, vb)
        st.env, st.heap = env, heap
        st.imports.update(a.imports)
        st.imports.update(b.imports)

    def mutated_params(self, fi: FuncInfo, depth: int = 0) -> set:
        """parameters of a repository function whose array the function writes in place (`p[...] = v`, `p[...] += v`, `out=p`, or handing p on to
        a function that does) without ever re-binding the name: the caller's array changes"""
        memo = self.__dict__.setdefault('_mutated_memo', {})
        if fi.qualname in memo:
            return memo[fi.qualname]
        memo[fi.qualname] = set()
        ps = set(fi.params())
        rebound, written = set(), set()
        for n in ast.walk(fi.node):
            if isinstance(n, (ast.Assign, ast.AugAssign, ast.AnnAssign, ast.For)):
                tgts = n.targets if isinstance(n, ast.Assign) else [n.target]
                for t in tgts:
                    for x in ast.walk(t):
                        if isinstance(x, ast.Name) and isinstance(x.ctx, ast.Store) and x.id in ps:
                            rebound.add(x.id)
                    if isinstance(t, ast.Subscript) and isinstance(t.value, ast.Name) and t.value.id in ps:
                        written.add(t.value.id)
            elif isinstance(n, ast.Call):
                for k_ in n.keywords:
                    if k_.arg == 'out' and isinstance(k_.value, ast.Name) and k_.value.id in ps:
                        written.add(k_.value.id)
                if depth < 3:
                    for p_, expr in self._callee_arg_exprs(fi, n, depth):
                        if isinstance(expr, ast.Name) and expr.id in ps:
                            written.add(expr.id)
        memo[fi.qualname] = written - rebound
        return memo[fi.qualname]

    def mutated_fields(self, ci, mname: str, depth: int = 0) -> set:
        """attributes of `self` that method `mname` of repository class `ci` (re)assigns, directly or through other methods of the object"""
        memo = self.__dict__.setdefault('_fields_memo', {})
        key = (ci.qualname, mname)
        if key in memo:
            return memo[key]
        memo[key] = set()
        m = self.prog.find_method(ci, mname)
        out = set()
        if m is not None and m.params():
            me = m.params()[0]
            for n in ast.walk(m.node):
                if isinstance(n, ast.Attribute) and isinstance(n.ctx, ast.Store) and isinstance(n.value, ast.Name) and n.value.id == me:
                    out.add(n.attr)
                if isinstance(n, ast.Subscript) and isinstance(n.ctx, ast.Store) and isinstance(n.value, ast.Attribute) and isinstance(n.value.value, ast.Name) \
                        and n.value.value.id == me:
                    out.add(n.value.attr)
                if depth < 3 and isinstance(n, ast.Call) and isinstance(n.func, ast.Attribute) and isinstance(n.func.value, ast.Name) and n.func.value.id == me:
                    out |= self.mutated_fields(ci, n.func.attr, depth + 1)
        memo[key] = out
        return out

    def _callee_arg_exprs(self, fi: FuncInfo, call: ast.Call, depth: int = 0):
        """(parameter, argument expression) for the parameters the resolved repository callee of `call` mutates in place"""
        try:
            r = self.prog.resolve_expr(fi.module, call.func, {})
        except Exception:
            r = None
        if r is None or r[0] != 'func':
            return []
        cfi = r[2]
        mp = self.mutated_params(cfi, depth + 1)
        if not mp:
            return []
        cps = cfi.params()
        if cfi.cls is not None and not cfi.is_static:
            cps = cps[1:]
        out = []
        for i, a in enumerate(call.args):
            if isinstance(a, ast.Starred):
                break
            if i < len(cps) and cps[i] in mp:
                out.append((cps[i], a))
        for k_ in call.keywords:
            if k_.arg in mp:
                out.append((k_.arg, k_.value))
        return out

    def assigned_in(self, stmts) -> Tuple[set, list]:
        names, stores = set(), []
        cur_fi = self.frames[-1].func if self.frames else None
        # names bound (in this block) to a basic slice of an array are views of it: updating them in place updates the parent
        views = {}
        for s in stmts:
            for n in ast.walk(s):
                if isinstance(n, ast.Assign) and len(n.targets) == 1 and isinstance(n.targets[0], ast.Name) and isinstance(n.value, ast.Subscript) \
                        and isinstance(n.value.slice, ast.Slice) and isinstance(n.value.value, (ast.Name, ast.Attribute)):
                    views[n.targets[0].id] = n.value.value

        def add_store(expr):
            if ast.unparse(expr) not in {ast.unparse(x_) for x_ in stores if not isinstance(x_, tuple)}:
                stores.append(expr)
        for s in stmts:
            for n in ast.walk(s):
                if isinstance(n, ast.AugAssign) and isinstance(n.target, ast.Name) and n.target.id in views:
                    add_store(views[n.target.id])
                if isinstance(n, ast.Call) and isinstance(n.func, ast.Attribute) and isinstance(n.func.value, (ast.Name, ast.Attribute)) \
                        and n.func.attr not in MUTATING_METHODS:
                    # a method call on an object: the fields that method assigns are loop state (decided when the receiver is known, in havoc)
                    key_ = ('fields', ast.unparse(n.func.value), n.func.attr)
                    if key_ not in {x_[:3] for x_ in stores if isinstance(x_, tuple)}:
                        stores.append(('fields', ast.unparse(n.func.value), n.func.attr, n.func.value))
                if isinstance(n, ast.Call) and cur_fi is not None:
                    # a call that writes into the array passed for one of its parameters
                    for p_, expr in self._callee_arg_exprs(cur_fi, n):
                        if isinstance(expr, (ast.Name, ast.Attribute)):
                            add_store(expr)
                if isinstance(n, ast.Call):
                    for k_ in n.keywords:
                        if k_.arg == 'out' and isinstance(k_.value, ast.Name):
                            names.add(k_.value.id)
                            if k_.value.id in views:
                                add_store(views[k_.value.id])
                        elif k_.arg == 'out' and isinstance(k_.value, ast.Subscript):
                            add_store(k_.value.value)
        for s in stmts:
            for n in ast.walk(s):
                if isinstance(n, (ast.Assign, ast.AugAssign, ast.AnnAssign, ast.For)):
                    tgts = n.targets if isinstance(n, ast.Assign) else [n.target]
                    for t in tgts:
                        for x in ast.walk(t):
                            if isinstance(x, ast.Name) and isinstance(x.ctx, ast.Store):
                                names.add(x.id)
                        if isinstance(t, ast.Subscript) and ast.unparse(t.value) not in {ast.unparse(x_) for x_ in stores if not isinstance(x_, tuple)}:
                            stores.append(t.value)
                        for x in ([t] if isinstance(t, ast.Attribute) else (t.elts if isinstance(t, (ast.Tuple, ast.List)) else [])):
                            # `obj.field = ...`: the field of that object is loop state
                            if isinstance(x, ast.Attribute) and isinstance(x.value, (ast.Name, ast.Attribute)):
                                key_ = ('attr', ast.unparse(x.value), x.attr)
                                if key_ not in {x_[:3] for x_ in stores if isinstance(x_, tuple)}:
                                    stores.append(('attr', ast.unparse(x.value), x.attr, x.value))
                        if isinstance(n, ast.AugAssign) and isinstance(t, ast.Name):
                            names.add(t.id)
                elif isinstance(n, ast.withitem) and n.optional_vars is not None:
                    for x in ast.walk(n.optional_vars):
                        if isinstance(x, ast.Name):
                            names.add(x.id)
                elif isinstance(n, ast.NamedExpr):
                    names.add(n.target.id)
                elif isinstance(n, ast.Call) and isinstance(n.func, ast.Attribute) and n.func.attr in MUTATING_METHODS:
                    if isinstance(n.func.value, ast.Name):
                        names.add(n.func.value.id)
        return names, stores

    def havoc(self, st: State, names, stores, lid: int, phase: str, targets=()) -> set:
        """returns the pseudo-names (`@<oid>.<field>`) of the object fields made loop state"""
        field_names: set = set()
        for nm in names:
            if nm in targets:
                continue
            if nm in st.env:
                old = st.env[nm]
                t = Term('loopvar', (Const(nm), Const(phase)), uid=lid, kind=getattr(old, 'kind', 'unknown'))
                if isinstance(old, Num):
                    st.env[nm] = term_as_num(t, old.length is not None, old.kind)
                else:
                    st.env[nm] = t
        for expr in stores:
            if isinstance(expr, tuple) and expr[0] in ('fields', 'attr'):
                try:
                    recv = self.eval(expr[3], st, quiet=True)
                except Exception:
                    continue
                if isinstance(recv, Obj):
                    for fname in (sorted(self.mutated_fields(recv.cls, expr[2])) if expr[0] == 'fields' else [expr[2]]):
                        fv = st.heap.get(recv.oid, {}).get(fname)
                        if fv is None:
                            continue
                        pseudo = f"@{recv.oid}.{fname}"
                        if pseudo in field_names:
                            continue
                        field_names.add(pseudo)
                        t = Term('loopvar', (Const(pseudo), Const(phase)), uid=lid, kind=getattr(fv, 'kind', 'unknown'))
                        st.heap[recv.oid][fname] = term_as_num(t, fv.length is not None, fv.kind) if isinstance(fv, Num) else t
                continue
            try:
                old = self.eval(expr, st, quiet=True)
            except Exception:
                continue
            if isinstance(old, Obj):
                # stores go through __setitem__: the object's array fields are loop state
                for fname, fv in list(st.heap.get(old.oid, {}).items()):
                    if (isinstance(fv, Num) and fv.length is not None) or getattr(fv, 'kind', '') in ('ndarray', 'list'):
                        t = Term('loopstate', (fv, Const(phase)), uid=lid, kind=getattr(fv, 'kind', 'unknown'))
                        st.heap[old.oid][fname] = term_as_num(t, True, getattr(fv, 'kind', None))
                continue
            t = Term('loopstate', (old, Const(phase)), uid=lid, kind=getattr(old, 'kind', 'unknown'))
            nv = term_as_num(t, True, getattr(old, 'kind', None)) if isinstance(old, Num) else t
            self.rebind(expr, nv, st)
        return field_names

    def exec_For(self, s, st):
        it = self.eval(s.iter, st)
        if isinstance(it, Term) and it.head == 'iter' and it.args and isinstance(it.args[0], (Num, Tup)) and not any(
                e.kind == 'lib' and e.data['name'] == 'builtins.next' and e.data['pos'] and veq(e.data['pos'][0], it) for e in self.events):
            it = it.args[0]             # a fresh (never advanced) iterator over a sequence visits its elements in order
        if isinstance(it, Kw) and it.rest is None:
            it = Tup([Const(k) for k in it.items])
        if isinstance(it, Term) and it.head == 'method:items' and isinstance(it.args[0], Kw) and it.args[0].rest is None:
            it = Tup([Tup([Const(k), v]) for k, v in it.args[0].items.items()])
        if isinstance(it, Tup) and len(it.items) <= 24 and not s.orelse:
            # a loop over a short literal table is unrolled (no loop-carried abstraction needed)
            base = st.guard
            exits = []                  # states that left the loop by `break`
            alive = True
            for item in it.items:
                self.assign(s.target, item, st, s)
                rec = {'depth': len(self.loops), 'frames': len(self.frames), 'continues': [], 'breaks': []}
                self._unrolled.append(rec)
                try:
                    ft = self.exec_block(s.body, st)
                finally:
                    self._unrolled.pop()
                exits.extend(rec['breaks'])
                live = ([st.clone()] if ft else []) + rec['continues']
                if not live:
                    alive = False
                    break
                self._join(st, base, live)
            if exits:
                self._join(st, base, exits + ([st.clone()] if alive else []))
                alive = True
            return alive
        lid = fresh_serial()
        names, stores = self.assigned_in(s.body)
        tnames = {x.id for x in ast.walk(s.target) if isinstance(x, ast.Name)}
        var = s.target.id if isinstance(s.target, ast.Name) else None
        lsym = sym.A('sym', f"${var or 'j'}#{lid}")
        ctx = LoopCtx(lid, 'iter', var, lsym, C(0), None, s)
        elem: Val
        if isinstance(it, Term) and it.head == 'range' and len(it.args) == 4:
            lo, hi, step, cnt = it.args
            ctx.kind, ctx.lo, ctx.hi = 'range', C(0), cnt.r
            ctx.stepped = True          # the loop symbol counts iterations; the loop variable is lo + step * counter
            elem = Num(lo.r + step.r * lsym)
        elif isinstance(it, Term) and it.head == 'range':
            lo, hi = it.args
            ctx.kind, ctx.lo, ctx.hi = 'range', lo.r, hi.r
            elem = Num(lsym)
            # an empty literal range never runs
            if lo.is_const() and hi.is_const() and hi.const() <= lo.const():
                return True
        elif isinstance(it, Term) and it.head == 'lib:itertools.count':
            start = it.kw('start') if it.kw('start') is not None else (it.args[0] if it.args else Num(C(0)))
            step = it.kw('step') if it.kw('step') is not None else (it.args[1] if len(it.args) > 1 else Num(C(1)))
            if isinstance(start, Num) and isinstance(step, Num) and step.is_const() and step.const() == 1:
                ctx.kind, ctx.lo, ctx.hi = 'count', start.r, None      # 0, 1, 2, ... without end
                elem = Num(lsym)
            else:
                elem = self.element_of(it, lsym)
        elif isinstance(it, Term) and it.head == 'zip':
            ctx.kind = 'zip'
            lens = [a.length for a in it.args if isinstance(a, Num) and a.length is not None]
            ctx.hi = zip_extent(lens)
            elem = Tup([self.element_of(a, lsym) for a in it.args])
        elif isinstance(it, Term) and it.head == 'map':
            ctx.kind = 'zip'
            lens = [a.length for a in it.args[1:] if isinstance(a, Num) and a.length is not None]
            ctx.hi = lens[0] if lens else None
            elem = self.call(it.args[0], [self.element_of(a, lsym) for a in it.args[1:]], {}, None, st, s)
        elif isinstance(it, Term) and it.head == 'enumerate':
            ctx.kind = 'zip'
            a = it.args[0]
            if isinstance(a, Term) and a.head == 'iter' and a.args:
                a = a.args[0]           # a fresh iterator over a sequence visits its elements in order
            if isinstance(a, Term) and a.head == 'zip':
                lens_ = [x_.length for x_ in a.args if isinstance(x_, Num) and x_.length is not None]
                ctx.hi = lens_[0] if lens_ else None
            else:
                ctx.hi = a.length if isinstance(a, Num) else (term_as_num(a, True).length if isinstance(a, Term) else None)
            start = it.kw('start') if it.kw('start') is not None else (it.args[1] if len(it.args) > 1 else Num(C(0)))
            elem = Tup([Num(lsym + start.r) if isinstance(start, Num) else Term('binop:Add', (Num(lsym), start)), self.element_of(a, lsym)])
        else:
            if isinstance(it, Num) and it.length is not None:
                ctx.hi = it.length
            elif isinstance(it, Tup):
                ctx.hi = C(len(it.items))
            elif isinstance(it, Term) and it.kind in ('ndarray', 'list', 'unknown'):
                ctx.hi = term_as_num(it, True, it.kind).length
            elem = self.element_of(it, lsym)
        mark_events = len(self.events)
        mark_issues = len(self.issues)
        carried: Dict[str, Val] = {}
        view_parents: List[str] = []
        for attempt in (0, 1):
            body = st.clone()
            fnames = self.havoc(body, names, stores, lid, 'in', targets=tnames)
            body.env.update(carried)
            elem_k = elem
            for nm in view_parents:
                # views taken before the loop (e.g. by a lazily evaluated generator) show what the array holds now: re-read them from the loop state
                elem_k = self._reread_views(elem_k, st.env.get(nm), body.env.get(nm))
            self.loops.append(ctx)
            outer_vw = self.__dict__.get('_view_written')
            self._view_written = set()
            try:
                self.assign(s.target, elem_k, body, s)
                entry_env = flat_env(body.env, body.heap)
                self.exec_block(s.body, body)
            finally:
                self.loops.pop()
                written_through = self._view_written
                self._view_written = (outer_vw | written_through) if outer_vw is not None else written_through
            have = {ast.unparse(x_) for x_ in stores if not isinstance(x_, tuple)}
            extra = sorted(nm for nm in written_through if nm in st.env and nm not in have)
            if extra and attempt == 0:
                # the body wrote an array through a view of it: that array is loop state, which the syntactic pre-pass could not know
                stores = list(stores) + [ast.Name(id=nm, ctx=ast.Load()) for nm in extra]
                view_parents = extra
                del self.events[mark_events:]
                del self.issues[mark_issues:]
                continue
            if attempt == 1 or True:
                self.loop_log = [e_ for e_ in self.loop_log if e_['lid'] != lid]
                self.loop_log.append({'node': s, 'lid': lid, 'pre': st.clone(), 'entry': dict(entry_env), 'end': body, 'cond': Const(True), 'depth': len(self.loops),
                                      'names': set(names) | fnames, 'orelse': bool(s.orelse), 'outer': self._outer_envs(), 'for': True, 'var': var, 'sym': lsym, 'kind': ctx.kind, 'lo': ctx.lo, 'hi': ctx.hi})
            if attempt == 1:
                break
            carried = self._carried_values(ctx, names - tnames, st, body)
            if not carried:
                break
            # second pass with the loop-carried names bound to their previous-iteration value
            del self.events[mark_events:]
            del self.issues[mark_issues:]
        if s.orelse:
            self.exec_block(s.orelse, body)
        summary = self._summarise_loop(s, ctx, st, body, mark_events)
        # after the loop: everything the body assigns is unknown
        st.heap = {k_: dict(v_) for k_, v_ in body.heap.items()}     # (a copy: the state at the end of the body is kept in the loop log)
        self.havoc(st, names | tnames, [x_ for x_ in stores if isinstance(x_, tuple)], lid, 'out')
        for expr in stores:
            if isinstance(expr, tuple):
                continue                # object fields: unknown after the loop (above)
            v = self.eval(expr, body, quiet=True)
            if not isinstance(v, Obj):
                self.rebind(expr, v, st)
        for nm in names | tnames:
            if nm not in st.env and nm in body.env:
                old = body.env[nm]
                t = Term('loopvar', (Const(nm), Const('out')), uid=lid, kind=getattr(old, 'kind', 'unknown'))
                st.env[nm] = term_as_num(t, old.length is not None, old.kind) if isinstance(old, Num) else t
        for nm, val in summary.items():
            st.env[nm] = val
        return True

    def _carried_values(self, ctx: 'LoopCtx', names, st: State, body: State) -> Dict[str, Val]:
        """loop-carried names with a closed form: `v` is (unconditionally) re-assigned in every iteration k to E(k), E free of
        loop-carried state, and its value before the loop is E(lo - 1): then on entry of every iteration v == E(k - 1)."""
        out: Dict[str, Val] = {}
        if ctx.kind != 'range' or ctx.lo is None or ctx.sym is None:
            return out
        jat = _single_atom(ctx.sym)
        if jat is None:
            return out

        def loop_state(v) -> bool:
            return any(isinstance(t, Term) and t.head in ('loopvar', 'loopstate') and t.uid == ctx.lid for t in walk_vals(v))

        for nm in sorted(names):
            init, end = st.env.get(nm), body.env.get(nm)
            if init is None or end is None or not isinstance(end, (Num, Term, Tup)) or loop_state(end):
                continue
            try:
                at_entry = end.subst(lambda r: sym.subst(r, {jat: ctx.sym - C(1)}))
                first = end.subst(lambda r: sym.subst(r, {jat: ctx.lo - C(1)}))
            except Exception:
                continue
            if veq(first, self._when_nonempty(ctx, init)):
                out[nm] = at_entry
        return out

    @staticmethod
    def _when_nonempty(ctx: 'LoopCtx', v: Val) -> Val:
        """`v` as seen from inside the body of `for k in range(lo, hi)`: a conditional whose test is settled by hi - lo >= 1
        (`f(1) if n > 2 else None` before `for k in range(1, n - 1)`) is the branch taken"""
        while isinstance(v, Gam) and ctx.lo is not None and ctx.hi is not None:
            q, neg = (v.pred.args[0], True) if isinstance(v.pred, P) and v.pred.op == 'not' else (v.pred, False)
            if not (isinstance(q, P) and q.op == '<' and all(isinstance(a, Num) and a.length is None for a in q.args)):
                break
            cnt = ctx.hi - ctx.lo
            up, down = q.args[1].r - q.args[0].r - cnt, q.args[0].r - q.args[1].r - cnt
            if up.is_const() and up.const_value() >= 0:
                holds = True            # B - A >= hi - lo >= 1
            elif down.is_const() and down.const_value() >= -1:
                holds = False           # A - B >= hi - lo - 1 >= 0
            else:
                break
            v = v.a if holds != neg else v.b
        return v

    def _summarise_loop(self, s, ctx: LoopCtx, st: State, body: State, mark: int) -> Dict[str, Val]:
        """`for j in range(n): out.append(v(j))` on an empty list, or `out[j] = v(j)` on a freshly allocated array of n
        elements, is the element-wise array [v(j) | j < n] (what a comprehension would build)"""
        out: Dict[str, Val] = {}
        if ctx.lo is None or ctx.hi is None or ctx.sym is None:
            return out
        evs = [e for e in self.events[mark:] if ctx in e.loops]
        if any(len(e.loops) > len(self.loops) + 1 for e in evs if e.kind in ('append', 'store')):
            return out
        jat = _single_atom(ctx.sym)
        back = {jat: sym.idx()}
        apps = [e for e in evs if e.kind == 'append']
        stores = [e for e in evs if e.kind == 'store']
        def one_value(es) -> Optional[Val]:
            """the value appended in an iteration: one unconditional append, or the two branches of an if / else each appending once"""
            if len(es) == 1 and not es[0].guard[len(st.guard):]:
                return es[0].data['value']
            if len(es) == 2:
                g1, g2 = es[0].guard[len(st.guard):], es[1].guard[len(st.guard):]
                if g1 and g2 and veq(self.conj(g2), p_not(self.conj(g1))):
                    v1, v2 = es[0].data['value'], es[1].data['value']
                    if isinstance(v1, Num) and isinstance(v2, Num) and v1.length is None and v2.length is None:
                        return gamma(self.conj(g1), v1, v2)
            return None
        if len(apps) == 2 and not stores and not any(e.data.get('extend') for e in apps) and ctx.lo == C(0):
            recvs = {e.node.func.value.id for e in apps if isinstance(e.node, ast.Call) and isinstance(e.node.func, ast.Attribute) and isinstance(e.node.func.value, ast.Name)}
            v = one_value(apps)
            if len(recvs) == 1 and isinstance(v, Num) and v.length is None:
                nm = next(iter(recvs))
                before = st.env.get(nm)
                if isinstance(before, Tup) and before.kind == 'list' and not before.items:
                    out[nm] = Num(sym.subst(v.r, back), ctx.hi, 'list')
                    return out
        if not (ctx.lo == C(0)):
            # `for j in range(lo, hi): out.append(v(j))` on a literal list: the list followed by [v(lo + i) | i < hi - lo], one list per appended-to name
            if apps and not stores and all(not e.data.get('extend') for e in apps):
                shift = {jat: sym.idx() + ctx.lo}
                by_name = {}
                for e in apps:
                    recv = e.node.func.value if isinstance(e.node, ast.Call) and isinstance(e.node.func, ast.Attribute) else None
                    by_name.setdefault(recv.id if isinstance(recv, ast.Name) else None, []).append(e)
                for nm, es in by_name.items():
                    before = st.env.get(nm) if nm is not None else None
                    v = one_value(es)
                    if nm is None or v is None or not (isinstance(before, Tup) and before.kind == 'list') or not (isinstance(v, Num) and v.length is None):
                        continue
                    tail = Num(sym.subst(v.r, shift), ctx.hi - ctx.lo, 'list')
                    out[nm] = Term('cat', (before, tail), kind='list') if before.items else tail
            return out
        if len(apps) == 1 and not stores and not apps[0].guard[len(st.guard):] and not apps[0].data.get('extend'):
            e = apps[0]
            recv = e.node.func.value if isinstance(e.node, ast.Call) and isinstance(e.node.func, ast.Attribute) else None
            before = st.env.get(recv.id) if isinstance(recv, ast.Name) else None
            v = e.data['value']
            if isinstance(before, Tup) and before.kind == 'list' and not before.items and isinstance(v, Num) and v.length is None:
                out[recv.id] = Num(sym.subst(v.r, back), ctx.hi, 'list')
            elif isinstance(before, Tup) and before.kind == 'list' and not before.items and isinstance(v, Val) and not isinstance(v, Num):
                out[recv.id] = Term('listcomp', (v.subst(lambda r: sym.subst(r, back)), Num(ctx.hi)), kind='list')
        if len(stores) == 1 and not apps and not stores[0].guard[len(st.guard):] and not stores[0].data.get('aug'):
            e = stores[0]
            tgt = e.data.get('target_expr')
            idx, v = e.data['index'], e.data['value']
            before = st.env.get(tgt.id) if isinstance(tgt, ast.Name) else None
            bt = arr_identity(before) if isinstance(before, Num) else before
            alloc = isinstance(bt, Term) and bt.head in ('lib:numpy.zeros', 'lib:numpy.empty', 'lib:numpy.ones', 'lib:numpy.full', 'lib:numpy.zeros_like',
                                                         'lib:numpy.empty_like')
            if alloc and isinstance(idx, Num) and idx.length is None and idx.r == ctx.sym and isinstance(v, Num) and v.length is None:
                blen = term_as_num(bt, True).length
                if blen == ctx.hi:
                    out[tgt.id] = Num(sym.subst(v.r, back), ctx.hi, 'ndarray')
        if len(stores) == 1 and not apps and not stores[0].guard[len(st.guard):] and isinstance(stores[0].data.get('target_expr'), ast.Name) \
                and stores[0].data['target_expr'].id not in out:
            # `for k in range(len(a)): a[k] = v(k)` (or `+=`) on an existing array: every slot is written once, at its own iteration, so a read of
            # a[k] inside v(k) is the value before the loop; reads of other slots would be loop-carried and are not summarised
            e = stores[0]
            tgt = e.data['target_expr']
            idx, v = e.data['index'], e.data['value']
            if isinstance(v, Term) and v.kind not in ('ndarray', 'list', 'tuple', 'dict', 'str'):
                v = self.as_num(v) or v         # an opaque scalar (the result of calling a parameter) is a value like any other
            before = st.env.get(tgt.id)
            if isinstance(before, Num) and before.length is not None and before.length == ctx.hi and isinstance(idx, Num) and idx.length is None \
                    and idx.r == ctx.sym and isinstance(v, Num) and v.length is None:
                mapping, ok_ = {}, True
                for a_ in sym.all_atoms(v.r):
                    if sym.ATOMS.head(a_) != 'el':
                        continue
                    ref_, ix_ = sym.ATOMS.args(a_)
                    t_ = ref_.term if isinstance(ref_, Ref) else None
                    if isinstance(t_, Term) and t_.head == 'loopstate' and t_.uid == ctx.lid:
                        if isinstance(ix_, Rat) and ix_ == ctx.sym and veq(t_.args[0], before):
                            mapping[a_] = before.at(ctx.sym).r
                        else:
                            ok_ = False
                if ok_ and not any(isinstance(t_, Term) and t_.head in ('loopvar', 'loopstate') and t_.uid == ctx.lid
                                   for t_ in walk_vals(Num(sym.subst(v.r, mapping) if mapping else v.r))):
                    nv = Num(sym.subst(sym.subst(v.r, mapping) if mapping else v.r, back), ctx.hi, before.kind)
                    from .dtypes import dtype_of
                    nv.dt = dtype_of(before)
                    out[tgt.id] = nv
        names_ = {e.data['target_expr'].id for e in stores if isinstance(e.data.get('target_expr'), ast.Name)}
        if len(stores) >= 2 and not apps and len(names_) == 1 and all(isinstance(e.data.get('target_expr'), ast.Name) for e in stores) \
                and next(iter(names_)) not in out and not any(e.data.get('aug') for e in stores):
            # several guarded stores `a[k] = v_m(k)` at the iteration's own slot of an array known element-wise: slot k holds the value of the last
            # store whose condition held, else what it held before
            nm = next(iter(names_))
            before = st.env.get(nm)
            if isinstance(before, Num) and before.length is not None and before.length == ctx.hi and not sym.atoms_with_head(before.r, 'el') or \
                    (isinstance(before, Num) and before.length is not None and before.length == ctx.hi and before.r.is_const()):
                cur = Num(before.at(ctx.sym).r)
                good = True
                for e in stores:
                    idx, v = e.data['index'], e.data['value']
                    v = v if isinstance(v, Num) else (self.as_num(v) if isinstance(v, Term) and v.kind not in ('ndarray', 'list', 'tuple', 'dict', 'str') else None)
                    extra = e.guard[len(st.guard):]
                    if not (isinstance(idx, Num) and idx.length is None and idx.r == ctx.sym and isinstance(v, Num) and v.length is None):
                        good = False
                        break
                    cur = gamma(self.conj(extra), v, cur) if extra else v
                    if not isinstance(cur, Num):
                        good = False
                        break
                if good and not any(isinstance(t_, Term) and t_.head in ('loopvar', 'loopstate') and t_.uid == ctx.lid for t_ in walk_vals(cur)):
                    nv = Num(sym.subst(cur.r, back), ctx.hi, before.kind)
                    from .dtypes import dtype_of
                    nv.dt = dtype_of(before)
                    out[nm] = nv
        return out

    def element_of(self, a: Val, idx: Rat) -> Val:
        if isinstance(a, Num) and a.length is not None:
            return a.at(idx)
        if isinstance(a, Term) and a.head == 'zip' and a.args:
            return Tup([self.element_of(x_, idx) for x_ in a.args])
        if isinstance(a, Term) and a.head == 'range' and len(a.args) in (2, 4) and all(isinstance(x_, Num) and x_.length is None for x_ in a.args):
            # element j of range(lo, hi[, step]) is lo + j * step
            return Num(a.args[0].r + idx) if len(a.args) == 2 else Num(a.args[0].r + a.args[2].r * idx)
        if isinstance(a, Term) and a.head == 'enumerate' and a.args:
            start = a.kw('start') if a.kw('start') is not None else (a.args[1] if len(a.args) > 1 else Num(C(0)))
            if isinstance(start, Num) and start.length is None:
                return Tup([Num(idx + start.r), self.element_of(a.args[0], idx)])
        if isinstance(a, Term) and a.head in ('lib:builtins.list', 'lib:builtins.tuple') and len(a.args) == 1 and not a.kwargs:
            return self.element_of(a.args[0], idx)
        if isinstance(a, Tup):
            return Term('item', (a, Num(idx)))
        if isinstance(a, Term) and a.head == 'listcomp' and len(a.args) == 3 and isinstance(a.args[0], (Term, Tup)) and isinstance(a.args[2], Num):
            # item i of [f(c) | c < n] whose items are arrays: the comprehension variable (its own symbol) becomes i, the items' element index stays
            return a.args[0].subst(lambda r: sym.subst(r, {_single_atom(a.args[2].r): idx}))
        if isinstance(a, Term) and a.head == 'listcomp' and len(a.args) == 2 and isinstance(a.args[0], (Term, Tup)):
            # element i of [f($i) | $i < n] whose items are not numbers (slices, tuples, ...): the item expression at i
            return a.args[0].subst(lambda r: sym.subst(r, {sym.idx_atom(): idx}))
        if isinstance(a, (Term, Gam)) and getattr(a, 'kind', 'unknown') not in ('tuple', 'dict', 'str', 'object'):
            return term_as_num(a, True, getattr(a, 'kind', None)).at(idx)
        return Term('item', (a, Num(idx)))

    def _outer_envs(self) -> list:
        """per active frame, a snapshot of the names of the frame that called it (None for the entry frame): a loop inside a helper cannot re-bind them"""
        return [dict(f.caller_env) if getattr(f, 'caller_env', None) is not None else None for f in self.frames]

    def exec_While(self, s, st):
        lid = fresh_serial()
        names, stores = self.assigned_in(s.body)
        body = st.clone()
        pre = st.clone()
        fnames = self.havoc(body, names, stores, lid, 'in')
        entry_env = flat_env(body.env, body.heap)
        cond = self.truth(self.eval(s.test, body), body, s.test)
        ctx = LoopCtx(lid, 'while', None, None, node=s, cond=cond)
        self.loop_log.append({'node': s, 'lid': lid, 'pre': pre, 'entry': entry_env, 'end': body, 'cond': cond, 'depth': len(self.loops), 'names': set(names) | fnames,
                              'orelse': bool(s.orelse), 'outer': self._outer_envs()})
        if not isinstance(cond, Const):
            body.guard = body.guard + (cond,)
        elif not cond.v:
            return True
        self.loops.append(ctx)
        try:
            self.exec_block(s.body, body)
        finally:
            self.loops.pop()
        st.heap = {k_: dict(v_) for k_, v_ in body.heap.items()}     # (a copy: the state at the end of the body is kept in the loop log)
        self.havoc(st, names, [x_ for x_ in stores if isinstance(x_, tuple)], lid, 'out')
        for expr in stores:
            if isinstance(expr, tuple):
                continue                # object fields: unknown after the loop (above)
            v = self.eval(expr, body, quiet=True)
            if not isinstance(v, Obj):
                self.rebind(expr, v, st)
        for nm in names:
            if nm not in st.env and nm in body.env:
                st.env[nm] = Term('loopvar', (Const(nm), Const('out')), uid=lid)
        return True

    def exec_Match(self, s, st):
        from .model import desugar_match
        stmts = desugar_match(s)
        if stmts is None:
            self.unsupported(st, s, 'Match with structural patterns')
            return True
        return self.exec_block(stmts, st)

    def exec_Break(self, s, st):
        rec = self._unrolled[-1] if self._unrolled else None
        if rec is not None and rec['depth'] == len(self.loops) and rec['frames'] == len(self.frames):
            rec['breaks'].append(st.clone())        # leaves an unrolled loop over a literal table: execution goes on after the loop
            return False
        self.emit('break', st, s, env=flat_env(st.env, st.heap))
        return False

    def exec_Continue(self, s, st):
        rec = self._unrolled[-1] if self._unrolled else None
        if rec is not None and rec['depth'] == len(self.loops) and rec['frames'] == len(self.frames):
            rec['continues'].append(st.clone())     # unrolled loop: execution goes on with the next item
            return False
        self.emit('continue', st, s)
        return False

    def _join(self, st: State, base, states):
        """`st` becomes the join of `states`, each reached under its guard beyond `base`"""
        def extra(x):
            ps = [g for g in x.guard[len(base):] if not (isinstance(g, Const) and g.v)]
            return ps[0] if len(ps) == 1 else (P('and', *ps) if ps else Const(True))
        acc = states[-1]
        conds = [extra(acc)]
        for x in reversed(states[:-1]):
            c = extra(x)
            conds.append(c)
            m = x.clone()
            self.merge(m, c, x, acc)
            acc = m
        st.env, st.heap, st.imports = acc.env, acc.heap, acc.imports
        whole = any(isinstance(c, Const) and c.v for c in conds) or (len(conds) == 2 and contradicts(conds[0], conds[1]))
        if not whole and len(conds) > 1:
            from .truth import equivalent
            try:
                whole = equivalent(P('or', *conds), Const(True))[0] is True
            except Exception:
                whole = False
        st.guard = tuple(base) if whole else tuple(base) + ((P('or', *conds) if len(conds) > 1 else conds[0]),)

    def exec_Try(self, s, st):
        mark = len(self.events)
        body = st.clone()
        caught = None
        self._in_try += 1
        depth, loops = len(self.frames), len(self.loops)
        try:
            ft = self.exec_block(s.body, body)
        except _PyRaise as ex:
            del self.frames[depth:]
            del self.loops[loops:]
            caught, ft = ex, False
        finally:
            self._in_try -= 1
        if caught is not None:
            # the body certainly raises `caught.exc`: only a matching handler continues
            FAMILY = {'KeyError': ('KeyError', 'LookupError', 'Exception', 'BaseException'), 'IndexError': ('IndexError', 'LookupError', 'Exception', 'BaseException')}
            for h in s.handlers:
                ht_ = self.handler_types(h.type, st)
                names = [None] if ht_ is None else (ht_ if isinstance(ht_, list) else [ht_])
                if any(n is None or n in FAMILY.get(caught.exc, (caught.exc, 'Exception', 'BaseException')) for n in names):
                    if h.name:
                        st.env[h.name] = Term('exception', (Const(caught.exc),))
                    cont = self.exec_block(h.body, st)
                    if s.finalbody:
                        cont = self.exec_block(s.finalbody, st) and cont
                    return cont
            if self._in_try:
                raise caught
            self.emit('raise', st, s, exc=caught.exc, reraise=False, implicit=True)
            return False
        tev = self.emit('try', st, s, body_events=(mark, len(self.events)), handlers=[self.handler_types(h.type, st) for h in s.handlers])
        falls = []
        for h in s.handlers:
            hs = st.clone()
            types = tev.data['handlers'][s.handlers.index(h)]
            hs.guard = st.guard + (P('except', Const(str(types)), Const(tev.seq)),)
            if h.name:
                hs.env[h.name] = Term('exception', (Const(str(types)),))
            fell = self.exec_block(h.body, hs)
            tev.data.setdefault('handler_ends', []).append({'types': types, 'falls_through': bool(fell), 'env': dict(hs.env)})
            if fell:
                falls.append(hs)
        if ft and s.orelse:
            ft = self.exec_block(s.orelse, body)
        if ft:
            st.env, st.heap, st.imports = body.env, body.heap, body.imports
        elif falls:
            st.env, st.heap = falls[0].env, falls[0].heap
        cont = ft or bool(falls)
        if s.finalbody:
            cont = self.exec_block(s.finalbody, st) and cont
        return cont

    def _generator_cm(self, expr, st):
        """(callee, positional, keyword, self) when `expr` calls a repository function decorated with contextlib.contextmanager"""
        if not isinstance(expr, ast.Call) or any(isinstance(a, ast.Starred) for a in expr.args) or any(k.arg is None for k in expr.keywords):
            return None
        try:
            fnv = self.eval(expr.func, st, quiet=True)
        except Exception:
            return None
        if not (isinstance(fnv, Fn) and fnv.fkind == 'repo'):
            return None
        fi = fnv.ref
        if not any(ast.unparse(d).split('(')[0].split('.')[-1] == 'contextmanager' for d in getattr(fi.node, 'decorator_list', [])):
            return None
        return fi, [self.eval(a, st) for a in expr.args], {k.arg: self.eval(k.value, st) for k in expr.keywords}, fnv.self_val

    @staticmethod
    def _split_at_yield(fi):
        """(statements run on entry, yielded expression or None, statements run on exit) of a generator-based context manager of one of the shapes
        `before; yield v; after` and `before; try: ...; yield v; ... finally: cleanup`; None for any other shape"""
        body = list(fi.body_nodes())
        if body and isinstance(body[0], ast.Expr) and isinstance(body[0].value, ast.Constant) and isinstance(body[0].value.value, str):
            body = body[1:]
        nyield = sum(1 for st_ in body for n_ in ast.walk(st_) if isinstance(n_, (ast.Yield, ast.YieldFrom)))
        if nyield != 1:
            return None

        def yielded(st_):
            v = st_.value if isinstance(st_, (ast.Expr, ast.Assign)) else None
            return v if isinstance(v, ast.Yield) else None
        for i, st_ in enumerate(body):
            y = yielded(st_)
            if y is not None and isinstance(st_, ast.Expr):
                return body[:i], y.value, body[i + 1:]
            if isinstance(st_, ast.Try) and not st_.handlers and not st_.orelse and any(isinstance(n_, ast.Yield) for n_ in ast.walk(st_)):
                for j, in_ in enumerate(st_.body):
                    y = yielded(in_)
                    if y is not None and isinstance(in_, ast.Expr):
                        return body[:i] + st_.body[:j], y.value, st_.body[j + 1:] + st_.finalbody + body[i + 1:]
                return None
        return None

    def _run_cm_part(self, fi, stmts, sub, st, yexpr=None):
        fr = Frame(fi, fi.module, fi.cls)
        fr.caller_env = st.env
        sub.heap, sub.guard = st.heap, st.guard
        self.frames.append(fr)
        self.depth += 1
        out = NONE
        try:
            self.exec_block(stmts, sub)
            if yexpr is not None:
                out = self.eval(yexpr, sub)
        finally:
            self.depth -= 1
            self.frames.pop()
        st.heap = sub.heap
        return out

    def exec_With(self, s, st):
        entered = []
        pending = []
        for item in s.items:
            cm = self._generator_cm(item.context_expr, st)
            parts = self._split_at_yield(cm[0]) if cm is not None else None
            if cm is not None and parts is None:
                self.issue(st, s, f"context manager {cm[0].qualname}: generator shape not recognised (expected `yield` once, optionally inside try/finally)")
            if cm is not None and parts is not None and self.depth < self.max_depth:
                # a generator-based context manager of the repository: its code up to the `yield` runs on entry, the rest on exit
                fi, pos, kw, self_val = cm
                before, yexpr, after = parts
                env = self._bind(fi, st, pos, kw, None, self_val, s)
                if env is not None:
                    sub = State(env, st.heap, st.guard, {})
                    yv = self._run_cm_part(fi, before, sub, st, yexpr)
                    if item.optional_vars is not None:
                        self.assign(item.optional_vars, yv, st, s)
                    pending.append((fi, sub, after))
                    continue
            ctxv = self.eval(item.context_expr, st)
            ev = self.emit('with_enter', st, s, ctx=ctxv)
            entered.append(ev)
            if item.optional_vars is not None:
                bound_val = Term('enter', (ctxv,), kind='unknown')
                for cv in ([ctxv] if not isinstance(ctxv, Gam) else []):
                    if isinstance(cv, Term) and cv.head == 'lib:contextlib.nullcontext':
                        inner = cv.kw('enter_result') if cv.kw('enter_result') is not None else (cv.args[0] if cv.args else NONE)
                        bound_val = inner
                if isinstance(ctxv, Gam):
                    def ent(c_):
                        if isinstance(c_, Gam):
                            return gamma(c_.pred, ent(c_.a), ent(c_.b))
                        if isinstance(c_, Term) and c_.head == 'lib:contextlib.nullcontext':
                            return c_.kw('enter_result') if c_.kw('enter_result') is not None else (c_.args[0] if c_.args else NONE)
                        return Term('enter', (c_,), kind='unknown')
                    bound_val = ent(ctxv)
                self.assign(item.optional_vars, bound_val, st, s)
        r = self.exec_block(s.body, st)
        for fi, sub, after in reversed(pending):
            self._run_cm_part(fi, after, sub, st)
        for ev in reversed(entered):
            self.emit('with_exit', st, s, ctx=ev.data['ctx'], enter_seq=ev.seq)
        return r

    def exec_FunctionDef(self, s, st):
        fr = self.frames[-1]
        owner = fr.func.qualname if fr.func is not None else fr.module.name
        fi = FuncInfo(f"{owner}.<locals>.{s.name}", fr.module, s, None)
        st.env[s.name] = Fn('closure', fi, env=st.env, module=fr.module, defcls=fr.defcls)
        return True

    def exec_Delete(self, s, st):
        return True

    def exec_Global(self, s, st):
        self.unsupported(st, s, 'global')
        return True

    # ------------------------------------------------------------------ expressions
    def eval(self, e: ast.expr, st: State, quiet=False) -> Val:
        m = getattr(self, 'eval_' + type(e).__name__, None)
        if m is None:
            return self.unsupported(st, e, type(e).__name__)
        return m(e, st)

    def eval_Constant(self, e, st):
        v = e.value
        if isinstance(v, bool) or v is None or isinstance(v, str) or isinstance(v, bytes) or v is Ellipsis:
            return Const(v)
        if isinstance(v, int):
            return Num(C(v))
        if isinstance(v, float):
            if v != v or v in (float('inf'), float('-inf')):
                return Term('float', (Const(repr(v)),), kind='scalar')
            return Num(C(Fraction(repr(v))))
        return Const(v)

    def eval_Name(self, e, st):
        if e.id in st.env:
            return st.env[e.id]
        fr = self.frames[-1]
        r = self.prog.resolve_expr(fr.module, e, st.imports)
        if r is not None:
            return self.resolved_val(r, st)
        if e.id in BUILTINS:
            return Fn('builtin', e.id)
        if e.id in ('True', 'False', 'None'):
            return Const(eval(e.id))
        return Term('global', (Const(e.id),))

    def resolved_val(self, r, st) -> Val:
        kind = r[0]
        if kind == 'func':
            fi_ = r[2]
            if getattr(fi_, 'cls', None) is not None and fi_.is_classmethod:
                return Fn('repo', fi_, self_val=Fn('class', fi_.cls))        # Class.method on a classmethod is bound to the class
            return Fn('repo', fi_)
        if kind == 'class':
            return Fn('class', r[2])
        if kind == 'lib':
            return Fn('lib', r[1])
        if kind == 'module':
            return Term('module', (Const(r[1]),))
        if kind == 'const':
            mi, node = r[2]
            fr = Frame(None, mi)
            self.frames.append(fr)
            try:
                return self.eval(node, State({}, st.heap, (), {}))      # objects a module-level constant holds live in the current heap
            finally:
                self.frames.pop()
        if kind == 'constattr':
            mi, node, attrs = r[2]
            fr = Frame(None, mi)
            self.frames.append(fr)
            try:
                v = self.eval(node, State({}, st.heap, (), {}))
            finally:
                self.frames.pop()
            for a_ in attrs:
                v = self.getattr_val(v, a_, st, node)
            return v
        return Term('unresolved', (Const(str(r)),))

    def eval_Attribute(self, e, st):
        fr = self.frames[-1]
        # imported dotted names (np.sum, path.join, traffic_weaver.datasets._datasets)
        root = e
        while isinstance(root, ast.Attribute):
            root = root.value
        if isinstance(root, ast.Name) and root.id not in st.env:
            rb = self.prog.resolve_expr(fr.module, e.value, st.imports) if isinstance(e.value, (ast.Name, ast.Attribute)) else None
            if rb is not None and rb[0] == 'class' and e.attr in self.class_constants(rb[2]):
                return self.class_constants(rb[2])[e.attr]          # a class-level constant / enum member
            r = self.prog.resolve_expr(fr.module, e, st.imports)
            if r is not None:
                return self.resolved_val(r, st)
        base = self.eval(e.value, st)
        return self.getattr_val(base, e.attr, st, e)

    def class_constants(self, ci) -> Dict[str, Val]:
        """class-level constants of a repository class: literal assignments, and the members of an enum.Flag / enum.Enum class (auto() numbered the way
        the enum module does: powers of two for flags, 1, 2, 3, ... otherwise; members of a Flag class are `flag` values that support |, &, in, ==, truth)"""
        memo = self.__dict__.setdefault('_class_consts', {})
        if ci.qualname in memo:
            return memo[ci.qualname]
        out: Dict[str, Val] = {}
        memo[ci.qualname] = out
        bases = [ast.unparse(b) for b in ci.node.bases]
        is_flag = any(b.split('.')[-1] in ('Flag', 'IntFlag') for b in bases)
        is_enum = is_flag or any(b.split('.')[-1] in ('Enum', 'IntEnum', 'StrEnum') for b in bases)
        last = 0
        for stmt in ci.node.body:
            if not (isinstance(stmt, ast.Assign) and len(stmt.targets) == 1 and isinstance(stmt.targets[0], ast.Name)):
                continue
            nm, ve = stmt.targets[0].id, stmt.value
            val = None
            if is_enum and isinstance(ve, ast.Call) and ast.unparse(ve.func).split('.')[-1] == 'auto' and not ve.args:
                nxt = (1 if last == 0 else 1 << (int(last).bit_length())) if is_flag else last + 1
                val = nxt
            elif isinstance(ve, ast.Constant) and isinstance(ve.value, (int, str, bool)) or (isinstance(ve, ast.Constant) and ve.value is None):
                val = ve.value
            elif is_flag and isinstance(ve, ast.BinOp) and isinstance(ve.op, (ast.BitOr, ast.BitAnd)):
                def fv(x):
                    if isinstance(x, ast.Name) and x.id in out and isinstance(out[x.id], Term) and out[x.id].head == 'flag':
                        return int(out[x.id].args[1].v)
                    if isinstance(x, ast.BinOp) and isinstance(x.op, (ast.BitOr, ast.BitAnd)):
                        a_, b_ = fv(x.left), fv(x.right)
                        return None if a_ is None or b_ is None else (a_ | b_ if isinstance(x.op, ast.BitOr) else a_ & b_)
                    return None
                val = fv(ve)
            if val is None and not (isinstance(ve, ast.Constant) and ve.value is None):
                continue
            if is_flag and isinstance(val, int) and not isinstance(val, bool):
                out[nm] = Term('flag', (Const(ci.qualname), Const(int(val))), kind='flag')
                last = max(last, int(val)) if (int(val) & (int(val) - 1)) == 0 else last
            elif is_enum:
                out[nm] = Term('enum', (Const(ci.qualname), Const(nm), Const(val)), kind='enum')
                last = val if isinstance(val, int) else last
            else:
                out[nm] = Const(val)
        return out

    def getattr_val(self, base: Val, attr: str, st, node) -> Val:
        if isinstance(base, Obj):
            fields = st.heap.get(base.oid, {})
            if attr in fields:
                return fields[attr]
            m = self.prog.find_method(base.cls, attr)
            if m is not None:
                if m.is_property:
                    return self._invoke(m, st, [], {}, None, base, node)
                if m.is_classmethod:
                    return Fn('repo', m, self_val=Fn('class', base.cls))
                return Fn('repo', m, self_val=base)
            return Term('attr', (base, Const(attr)))
        if isinstance(base, Fn) and base.fkind == 'class':
            m = self.prog.find_method(base.ref, attr)
            if m is not None:
                if m.is_classmethod:
                    return Fn('repo', m, self_val=base)      # bound to the class: `cls` is the class itself
                return Fn('repo', m)
            cv = self.class_constants(base.ref).get(attr)
            if cv is not None:
                return cv
            return Term('attr', (base, Const(attr)))
        if isinstance(base, Term) and base.head in ('enum', 'flag') and isinstance(base.args[0], Const):
            ci_ = self.prog.classes.get(base.args[0].v) if hasattr(self.prog, 'classes') else None
            if ci_ is None:
                try:
                    ci_ = self.prog.cls(base.args[0].v)
                except Exception:
                    ci_ = None
            if base.head == 'enum' and attr == 'name':
                return base.args[1]
            if attr == 'value':
                return base.args[-1] if not isinstance(base.args[-1].v, int) or isinstance(base.args[-1].v, bool) else Num(C(base.args[-1].v))
            if ci_ is not None:
                m = self.prog.find_method(ci_, attr)
                if m is not None:
                    if m.is_property:
                        return self._invoke(m, st, [], {}, None, base, node)
                    if m.is_classmethod:
                        return Fn('repo', m, self_val=Fn('class', ci_))
                    return Fn('repo', m, self_val=base)
                cv = self.class_constants(ci_).get(attr)
                if cv is not None:
                    return cv
        if isinstance(base, Fn) and base.fkind == 'builtin' and base.ref == 'str' and attr == 'maketrans':
            return Fn('builtin', 'str.maketrans')
        if isinstance(base, Term) and base.head == 'super':
            cls, selfv = base.args
            mro = self.prog.mro(selfv.cls) if isinstance(selfv, Obj) else self.prog.mro(cls.ref)
            start = 0
            for i, c in enumerate(mro):
                if c is cls.ref:
                    start = i + 1
            for c in mro[start:]:
                if attr in c.methods:
                    return Fn('repo', c.methods[attr], self_val=selfv)
            return Fn('builtin', f"object.{attr}", self_val=selfv)
        if isinstance(base, Num):
            if attr == 'T':
                return base
            if attr == 'size':
                return Num(base.length) if base.length is not None else Num(C(1))
            if attr == 'shape':
                return Tup([Num(base.length)]) if base.length is not None else Tup([])
            if attr in ('real',):
                return base
            if attr in ('dtype', 'ndim', 'itemsize', 'nbytes', 'flat', 'base'):
                return Term('attr', (base, Const(attr)))
            return Fn('builtin', f"ndarray.{attr}", self_val=base)
        if isinstance(base, Term) and base.head == 'module':
            return Term('attr', (base, Const(attr)))
        if isinstance(base, Term) and base.kind in ('ndarray', 'list') and attr in ('size', 'shape'):
            n_ = term_as_num(base, True, base.kind)
            return Num(n_.length) if attr == 'size' else Tup([Num(n_.length)])
        if isinstance(base, Gam):
            return gamma(base.pred, self.getattr_val(base.a, attr, st, node), self.getattr_val(base.b, attr, st, node))
        if isinstance(base, Const) and isinstance(base.v, str) and attr in PURE_STR_METHODS:
            return Fn('builtin', f"method.{attr}", self_val=base)
        if attr in NDARRAY_METHODS or attr in MUTATING_METHODS or attr in ('append', 'extend', 'values', 'read_text', 'hexdigest', 'update', 'read',
                                               'format', 'replace', 'startswith', 'endswith', 'get', 'close', 'write',
                                               'items', 'keys', 'join', 'strip', 'split', 'lower', 'upper'):
            return Fn('builtin', f"method.{attr}", self_val=base)
        if attr == 'T':
            return Term('T', (base,), kind=getattr(base, 'kind', 'unknown'))
        if isinstance(base, Tup) and attr in ('index', 'count'):
            return Fn('builtin', f"method.{attr}", self_val=base)
        if isinstance(base, Term) and base.head == 'lib:os.path.join' and attr in PATH_METHODS:
            return Fn('builtin', f"method.{attr}", self_val=base)       # a pathlib.Path (kept as the os.path.join term of its parts)
        return Term('attr', (base, Const(attr)))

    def eval_Tuple(self, e, st):
        return Tup([self.eval(x, st) for x in e.elts], 'tuple')

    def eval_List(self, e, st):
        return Tup([self.eval(x, st) for x in e.elts], 'list')

    def eval_Dict(self, e, st):
        items = {}
        for k, v in zip(e.keys, e.values):
            if isinstance(k, ast.Constant) and isinstance(k.value, str):
                items[k.value] = self.eval(v, st)
                continue
            kv = self.eval(k, st) if k is not None else None
            key = _const_key(kv)
            if key is None:
                return Term('dict', (), uid=fresh_serial(), kind='dict')
            items[key] = self.eval(v, st)
        return Kw(items)

    def eval_JoinedStr(self, e, st):
        parts = []
        for v in e.values:
            if isinstance(v, ast.Constant):
                parts.append(Const(v.value))
            elif isinstance(v, ast.FormattedValue):
                val = self.eval(v.value, st)
                spec = self.eval(v.format_spec, st) if v.format_spec is not None else None
                if isinstance(val, Num) and val.is_const() and val.const().denominator == 1:
                    val = Const(int(val.const()))
                if isinstance(val, Const) and (spec is None or isinstance(spec, Const)) and v.conversion in (-1, 115, 114):
                    # constant folding of a literal format
                    try:
                        txt = val.v if v.conversion == -1 else (str(val.v) if v.conversion == 115 else repr(val.v))
                        val = Const(format(txt, spec.v if spec is not None else ''))
                    except Exception:
                        pass
                parts.append(val)
        if all(isinstance(p, Const) for p in parts):
            return Const(''.join(str(p.v) for p in parts))
        return Term('fstring', parts, kind='str')

    def eval_Lambda(self, e, st):
        return Fn('lambda', e, env=dict(st.env), module=self.frames[-1].module, defcls=self.frames[-1].defcls)

    def eval_IfExp(self, e, st):
        c = self.truth(self.eval(e.test, st), st, e.test)
        if isinstance(c, Const):
            return self.eval(e.body if c.v else e.orelse, st)
        # each branch is evaluated under its own test: what it raises / stores / calls happens only when that branch is taken
        outer = st.guard
        st.guard = outer + (c,)
        try:
            a = self.eval(e.body, st)
        finally:
            st.guard = outer
        st.guard = outer + (p_not(c),)
        try:
            b = self.eval(e.orelse, st)
        finally:
            st.guard = outer
        return gamma(c, a, b)

    def eval_Starred(self, e, st):
        return Term('star', (self.eval(e.value, st),))

    def eval_ListComp(self, e, st):
        if len(e.generators) == 1 and e.generators[0].ifs:
            g0 = e.generators[0]
            it0 = self.eval(g0.iter, st)
            if isinstance(it0, Tup):
                # a filtered comprehension over a literal table: conditions that fold are applied item by item
                vals = []
                for item in it0.items:
                    s2 = st.clone()
                    self.assign(g0.target, item, s2, e)
                    conds = [self.truth(self.eval(c_, s2), s2, c_) for c_ in g0.ifs]
                    if any(isinstance(c_, Const) and not c_.v for c_ in conds):
                        continue
                    open_ = [c_ for c_ in conds if not isinstance(c_, Const)]
                    vals.append((self.conj(open_) if open_ else TRUE, self.eval(e.elt, s2)))
                if all(isinstance(c_, Const) for c_, _ in vals):
                    return Tup([v_ for _, v_ in vals], 'list')
                # items kept under a condition that is not settled: a lazily filtered sequence (only `next` of it is interpreted)
                return Term('filtered', tuple(Tup([c_, v_]) for c_, v_ in vals), kind='iterator')
        if len(e.generators) != 1 or e.generators[0].ifs:
            vals = self.unsupported(st, e, 'complex comprehension')
            return vals
        g = e.generators[0]
        it = self.eval(g.iter, st)
        if isinstance(it, Term) and it.head == 'iter' and it.args and isinstance(it.args[0], (Num, Tup)):
            it = it.args[0]             # a fresh iterator over a sequence visits its elements in order
        sub = st.clone()
        lid = fresh_serial()
        csym = sym.A('sym', f"$c#{lid}")
        length = None
        if isinstance(it, Term) and it.head == 'zip':
            elem = Tup([self.element_of(a, csym) for a in it.args])
            lens = [a.length for a in it.args if isinstance(a, Num) and a.length is not None]
            length = zip_extent(lens)
        elif isinstance(it, Term) and it.head == 'map':
            elem = self.call(it.args[0], [self.element_of(a, csym) for a in it.args[1:]], {}, None, st, e)
            lens = [a.length for a in it.args[1:] if isinstance(a, Num) and a.length is not None]
            length = lens[0] if lens else None
        elif isinstance(it, Term) and it.head == 'range' and len(it.args) == 4:
            lo, hi, step, cnt = it.args
            elem = Num(lo.r + step.r * csym)
            length = cnt.r
        elif isinstance(it, Term) and it.head == 'range':
            lo, hi = it.args
            elem = Num(csym + lo.r)
            length = hi.r - lo.r
        elif isinstance(it, Num) and it.length is not None:
            elem = it.at(csym)
            length = it.length
        elif isinstance(it, Tup):
            vals = []
            for item in it.items:
                s2 = st.clone()
                self.assign(g.target, item, s2, e)
                vals.append(self.eval(e.elt, s2))
                st.heap = s2.heap           # objects created by the element expression live on
            return Tup(vals, 'list')
        else:
            arr = term_as_num(it, True, getattr(it, 'kind', None))
            elem = arr.at(csym)
            length = arr.length
        self.assign(g.target, elem, sub, e)
        self.loops.append(LoopCtx(lid, 'comp', None, csym, C(0), length, e))
        try:
            body = self.eval(e.elt, sub)
        finally:
            self.loops.pop()
        back = {_single_atom(csym): sym.idx()}
        if isinstance(body, Num) and body.length is None:
            return Num(sym.subst(body.r, back), length, 'list')
        ca = _single_atom(csym)
        if any(isinstance(x_, Num) and x_.length is not None and (ca in sym.all_atoms(x_.r) or ca in sym.all_atoms(x_.length)) for x_ in walk_vals(body)):
            # items that are arrays have an element index of their own: the comprehension variable keeps its own symbol (third argument)
            return Term('listcomp', (body, Num(length) if length is not None else NONE, Num(csym)), kind='list')
        t = Term('listcomp', (body.subst(lambda r: sym.subst(r, back)), Num(length) if length is not None else NONE), kind='list')
        return t

    eval_GeneratorExp = eval_ListComp

    def eval_DictComp(self, e, st):
        """{k: v for k, v in d.items()} is (a copy of) d; with a filter or transformed keys / values it is a mapping derived from d - kept as an opaque
        term that names its source, so that a rule asking for d itself sees that it got something else"""
        if len(e.generators) == 1 and not e.generators[0].is_async:
            g = e.generators[0]
            if isinstance(g.iter, ast.Call) and isinstance(g.iter.func, ast.Attribute) and g.iter.func.attr == 'items' and not g.iter.args \
                    and isinstance(g.target, ast.Tuple) and len(g.target.elts) == 2 and all(isinstance(x_, ast.Name) for x_ in g.target.elts):
                src = self.eval(g.iter.func.value, st)
                kn, vn = (x_.id for x_ in g.target.elts)
                if not g.ifs and isinstance(e.key, ast.Name) and e.key.id == kn and isinstance(e.value, ast.Name) and e.value.id == vn:
                    return src
                how = ('filtered by ' + ' and '.join(ast.unparse(c_) for c_ in g.ifs)) if g.ifs else 'with transformed items'
                return Term('dictcomp', (src, Const(how)), kind='dict', node=e)
        return self.unsupported(st, e, 'DictComp')

    def eval_UnaryOp(self, e, st):
        v = self.eval(e.operand, st)
        if isinstance(e.op, ast.Not):
            return p_not(self.truth(v, st, e.operand))
        if isinstance(e.op, ast.USub):
            v = self.as_num(v)
            if v is not None:
                return Num(-v.r, v.length, v.kind)
            return Term('neg', (self.eval(e.operand, st),))
        if isinstance(e.op, ast.UAdd):
            return v
        if isinstance(e.op, ast.Invert):
            if isinstance(v, Term) and v.head == 'mask' and v.args:
                return carry_mask(self, Term('mask', (p_not(v.args[0]),), kind='ndarray'), v)        # element-wise negation of a boolean array
            if isinstance(v, (P, Const)) and (not isinstance(v, Const) or isinstance(v.v, bool)):
                return p_not(v)
            return Term('invert', (v,), kind=getattr(v, 'kind', 'unknown'))
        return self.unsupported(st, e, 'unary ' + type(e.op).__name__)

    def as_num(self, v: Val, array_hint: Optional[bool] = None) -> Optional[Num]:
        if isinstance(v, Num):
            return v
        if isinstance(v, Const) and isinstance(v.v, bool):
            return None
        if isinstance(v, (Term, Gam)):
            k = getattr(v, 'kind', 'unknown')
            if k in ('ndarray', 'list'):
                return term_as_num(v, True, k)
            if k in ('scalar', 'int', 'float'):
                return term_as_num(v, False)
            if array_hint is not None:
                return term_as_num(v, array_hint)
            return term_as_num(v, False, 'unknown')
        return None

    def eval_BinOp(self, e, st):
        a = self.eval(e.left, st)
        b = self.eval(e.right, st)
        return self.binop(e.op, a, b, st, e)

    def binop(self, op, a: Val, b: Val, st, node) -> Val:
        # list repetition / concatenation
        if isinstance(op, ast.Mult) and isinstance(a, Tup) and a.kind == 'list' and isinstance(b, Num):
            if len(a.items) == 1 and isinstance(a.items[0], Num) and a.items[0].length is None:
                return Num(a.items[0].r, b.r, 'list')
            return Term('listrep', (a, b), kind='list')
        if isinstance(op, ast.Add) and isinstance(a, Tup) and isinstance(b, Tup):
            return Tup(a.items + b.items, a.kind)
        if isinstance(op, ast.Div) and isinstance(a, Term) and a.kind == 'path':
            return Term('pathjoin', (a, b), kind='path')
        if isinstance(op, ast.Div) and isinstance(a, Term) and a.head == 'lib:os.path.join' and (isinstance(b, (Const, Term)) and not isinstance(b, Num)):
            return self.call_lib('os.path.join', [a, b], {}, None, st, node)      # Path / part
        if isinstance(a, Const) and isinstance(a.v, str) or isinstance(b, Const) and isinstance(b.v, str):
            if isinstance(op, ast.Add) and isinstance(a, Const) and isinstance(b, Const) and isinstance(a.v, str) and isinstance(b.v, str):
                return Const(a.v + b.v)
            return Term('strop', (a, b), kind='str')
        if isinstance(op, ast.Div) and isinstance(a, Term) and a.head.startswith('lib:importlib.resources.files'):
            return Term('pathjoin', (a, b), kind='path')
        if isinstance(op, (ast.BitAnd, ast.BitOr)) and all(isinstance(x_, Term) and x_.head == 'flag' for x_ in (a, b)) and veq(a.args[0], b.args[0]):
            v_ = (a.args[1].v | b.args[1].v) if isinstance(op, ast.BitOr) else (a.args[1].v & b.args[1].v)
            return Term('flag', (a.args[0], Const(v_)), kind='flag')
        if isinstance(op, (ast.BitAnd, ast.BitOr)) and all(isinstance(x_, Term) and x_.head == 'mask' and x_.args for x_ in (a, b)):
            out = Term('mask', (P('and' if isinstance(op, ast.BitAnd) else 'or', a.args[0], b.args[0]),), kind='ndarray')
            return carry_mask(self, out, a, b, st=st, node=node)
        na, nb = self.as_num(a), self.as_num(b)
        if na is None or nb is None:
            return Term('binop:' + type(op).__name__, (a, b))
        if isinstance(a, Num) and not isinstance(b, Num) and getattr(b, 'kind', 'unknown') == 'unknown':
            nb = term_as_num(b, False, 'unknown')
        length = na.length if na.length is not None else nb.length
        kind = 'ndarray' if length is not None else 'scalar'
        if na.kind == 'list' and nb.kind == 'list':
            kind = 'list'
        if na.length is not None and nb.length is not None and not (na.length == nb.length):
            self.notes.append(f"{getattr(node, 'lineno', '?')}: element-wise operation on arrays whose symbolic lengths are not provably equal: "
                              f"{na.length} vs {nb.length}")
        try:
            if isinstance(op, ast.Add):
                r = na.r + nb.r
            elif isinstance(op, ast.Sub):
                r = na.r - nb.r
            elif isinstance(op, ast.Mult):
                r = na.r * nb.r
            elif isinstance(op, ast.Div):
                r = na.r / nb.r
            elif isinstance(op, ast.Pow):
                r = sym.mk_pow(na.r, nb.r)
            elif isinstance(op, ast.FloorDiv):
                if na.r.is_const() and nb.r.is_const() and nb.r.const_value() != 0:
                    r = C(na.r.const_value() // nb.r.const_value())
                else:
                    cnt, _p = sym.split_content(na.r)
                    if cnt < 0:
                        # floor(-a / b) == -ceil(a / b) == -(floor(a / b) + [a mod b != 0])   (integers, any sign of b)
                        pos_ = -na.r
                        md = sym.A('Mod', pos_, nb.r)
                        ind = gamma(P('==', Num(C(0)), Num(md)), Num(C(0)), Num(C(1)))
                        r = -(sym.A('FloorDiv', pos_, nb.r) + ind.r)
                    else:
                        r = sym.A('FloorDiv', na.r, nb.r)
            elif isinstance(op, ast.Mod):
                if na.r.is_const() and nb.r.is_const() and nb.r.const_value() != 0:
                    r = C(na.r.const_value() % nb.r.const_value())
                else:
                    r = sym.A('Mod', na.r, nb.r)
            else:
                return Term('binop:' + type(op).__name__, (a, b))
        except Unknown as ex:
            if 'division by zero' in str(ex) and getattr(self, 'zero_division_is_value', False):
                # NumPy scalars: x / 0 is nan / inf with a warning, not an exception - a value, which matters only if something uses it
                return term_as_num(Term('undefined', (Const('division by zero'),), uid=fresh_serial(), kind='scalar'), False)
            self.issue(st, node, f"cannot canonicalise: {ex}")
            return Term('binop:' + type(op).__name__, (a, b), uid=fresh_serial())
        out = Num(r, length, kind)
        if length is not None:
            from .dtypes import dtype_of, value_tag, FLOAT, INT
            ta = dtype_of(na) if na.length is not None else value_tag(na)
            tb = dtype_of(nb) if nb.length is not None else value_tag(nb)
            if isinstance(op, ast.Div) or FLOAT in (ta, tb):
                out.dt = FLOAT
            elif ta is not None and tb is not None and (ta == tb or tb == INT):
                out.dt = ta
            elif ta is not None and tb is not None and ta == INT:
                out.dt = tb
            # an integer power / self-product taken in the element type the caller's data has (dtypes.py, DT3)
            if ta is not None and ta[0] == 'same' and ((isinstance(op, ast.Pow) and nb.length is None and nb.r.is_const() and nb.r.const_value().denominator == 1
                                                        and nb.r.const_value() >= 2) or (isinstance(op, ast.Mult) and nb.length is not None and na.r == nb.r)):
                self.emit('selfpower', st, node, base=na, tag=ta, op=type(op).__name__)
        return carry_mask(self, out, na, nb, st=st, node=node)

    def eval_BoolOp(self, e, st):
        vals = []
        is_and = isinstance(e.op, ast.And)
        for x in e.values:
            v = self.truth(self.eval(x, st), st, x)
            if isinstance(v, Const):
                if is_and and not v.v:
                    return FALSE
                if not is_and and v.v:
                    return TRUE
                continue
            vals.append(v)
        if not vals:
            return TRUE if is_and else FALSE
        if len(vals) == 1:
            return vals[0]
        return P('and' if is_and else 'or', *vals)

    def truth(self, v: Val, st, node) -> Val:
        r = self._truth(v, st, node)
        if self.decide is not None and not isinstance(r, Const):
            d = self.decide(r)
            if d is not None:
                return Const(bool(d))
        return r

    def _truth(self, v: Val, st, node) -> Val:
        if isinstance(v, Const):
            return Const(bool(v.v))
        if isinstance(v, P):
            return v
        if isinstance(v, Num):
            if v.is_const():
                return Const(v.const() != 0)
            return P('truthy', v)
        if isinstance(v, Tup):
            return Const(len(v.items) > 0)
        if isinstance(v, Kw) and v.rest is None:
            return Const(len(v.items) > 0)
        if isinstance(v, (Fn, Obj)):
            return TRUE
        if isinstance(v, Term) and v.head == 'flag':
            return Const(v.args[1].v != 0)
        if isinstance(v, Term) and v.head == 'enum':
            return TRUE
        if isinstance(v, Gam):
            a, b = self.truth(v.a, st, node), self.truth(v.b, st, node)
            if isinstance(a, Const) and isinstance(b, Const) and a.v == b.v:
                return a
        return P('truthy', v)

    def eval_Compare(self, e, st):
        left = self.eval(e.left, st)
        res = []
        for op, rn in zip(e.ops, e.comparators):
            right = self.eval(rn, st)
            res.append(self.compare(op, left, right, st, e))
            left = right
        if len(res) == 1:
            return res[0]
        out = [r for r in res if not (isinstance(r, Const) and r.v)]
        if any(isinstance(r, Const) and not r.v for r in out):
            return FALSE
        return P('and', *out) if len(out) > 1 else (out[0] if out else TRUE)

    def is_definitely_not_none(self, v: Val) -> bool:
        if isinstance(v, (Num, Tup, Kw, Fn, Obj, P)):
            return True
        if isinstance(v, Const):
            return v.v is not None
        if isinstance(v, Term):
            if v.head in OPTIONAL_LIBS and v.kw('default') is None and len(v.args) < 2:
                return False
            return v.head.startswith(('lib:', 'call:', 'stored', 'notnone', 'enter')) and v.head not in ('lib:next',)
        return False

    def compare(self, op, a: Val, b: Val, st, node) -> Val:
        if all(isinstance(v_, Term) and v_.head in ('flag', 'enum') for v_ in (a, b)) and veq(a.args[0], b.args[0]):
            fa, fb = a.args[-1].v if a.head == 'enum' else a.args[1].v, b.args[-1].v if b.head == 'enum' else b.args[1].v
            if isinstance(op, (ast.In, ast.NotIn)) and a.head == 'flag':
                return Const(((fb & fa) == fa) != isinstance(op, ast.NotIn))
            if isinstance(op, (ast.Eq, ast.Is)):
                return Const(veq(a, b))
            if isinstance(op, (ast.NotEq, ast.IsNot)):
                return Const(not veq(a, b))
        if isinstance(op, (ast.Is, ast.IsNot)):
            neg = isinstance(op, ast.IsNot)
            if isinstance(b, Const) and b.v is None:
                if isinstance(a, Const):
                    return Const((a.v is None) != neg)
                if self.is_definitely_not_none(a):
                    return Const(neg)
                p = P('isnone', a)
                return p_not(p) if neg else p
            if isinstance(a, Const) and isinstance(b, Const):
                return Const((a.v is b.v) != neg)
            p = P('is', a, b)
            return p_not(p) if neg else p
        if isinstance(op, (ast.In, ast.NotIn)):
            neg = isinstance(op, ast.NotIn)
            if isinstance(a, Const) and isinstance(b, Tup) and all(isinstance(i, Const) for i in b.items):
                return Const((a.v in [i.v for i in b.items]) != neg)
            if isinstance(a, Const) and isinstance(b, Kw) and b.rest is None:
                return Const((a.v in b.items) != neg)
            if isinstance(a, Const) and isinstance(a.v, str) and isinstance(b, Term) and b.head == 'modvars':
                bound = module_binds(self.prog, b.args[0].args[0].v, a.v)
                if bound is not None:
                    return Const(bound != neg)
            p = P('in', a, b)
            return p_not(p) if neg else p
        if isinstance(a, Const) and isinstance(b, Const):
            try:
                table = {ast.Eq: a.v == b.v, ast.NotEq: a.v != b.v}
                if type(op) in table:
                    return Const(table[type(op)])
            except Exception:
                pass
        if isinstance(op, (ast.Eq, ast.NotEq)) and (isinstance(a, Const) and isinstance(a.v, str) or isinstance(b, Const) and isinstance(b.v, str)):
            p = P('eq', a, b) if not isinstance(a, Const) else P('eq', b, a)
            if isinstance(a, Num) or isinstance(b, Num):
                return Const(isinstance(op, ast.NotEq))
            return p if isinstance(op, ast.Eq) else p_not(p)
        if isinstance(a, Term) and isinstance(b, Term) and a.head == 'bcast' and b.head == 'bcast' and a.args[1].v != b.args[1].v \
                and isinstance(op, (ast.Lt, ast.LtE, ast.Gt, ast.GtE)):
            # 2-D boolean table T[i, j] of a comparison between every element of one array and every element of the other
            return Term('outer_cmp', (Const(type(op).__name__), a, b), kind='ndarray2d')
        na, nb = self.as_num(a), self.as_num(b)
        if na is None or nb is None:
            name = type(op).__name__
            return P('cmp:' + name, a, b)
        length = na.length if na.length is not None else nb.length
        if na.is_const() and nb.is_const():
            x, y = na.const(), nb.const()
            t = {ast.Eq: x == y, ast.NotEq: x != y, ast.Lt: x < y, ast.LtE: x <= y, ast.Gt: x > y, ast.GtE: x >= y}
            return Const(t[type(op)])
        if length is None and na.length is None and nb.length is None and na.r == nb.r and isinstance(op, (ast.Eq, ast.NotEq, ast.Lt, ast.Gt, ast.LtE, ast.GtE)):
            return Const(isinstance(op, (ast.Eq, ast.LtE, ast.GtE)))
        # canonical forms:  a < b  ==  b > a ;   keep (op, lhs, rhs) with op in {<, <=, ==}
        if isinstance(op, ast.Gt):
            p = P('<', nb, na)
        elif isinstance(op, ast.GtE):
            p = P('<=', nb, na)
        elif isinstance(op, ast.Lt):
            p = P('<', na, nb)
        elif isinstance(op, ast.LtE):
            p = P('<=', na, nb)
        elif isinstance(op, ast.Eq):
            p = P('==', na, nb) if not _order(na, nb) else P('==', nb, na)
        elif isinstance(op, ast.NotEq):
            p = p_not(P('==', na, nb) if not _order(na, nb) else P('==', nb, na))
        else:
            return P('cmp:' + type(op).__name__, a, b)
        if length is not None:
            # element-wise comparison of arrays yields a boolean array (a <= b kept as not(b < a), so that complementary masks are recognised)
            if p.op == '<=':
                p = p_not(P('<', p.args[1], p.args[0]))
            return carry_mask(self, Term('mask', (p,), kind='ndarray'), na, nb, st=st, node=node)
        # a <= b is not(b < a): normalise to strict form with negation so that guards and
        # their complements are recognised
        if p.op == '<=':
            return p_not(P('<', p.args[1], p.args[0]))
        return p

    # ---- subscripts
    def eval_Subscript(self, e, st):
        base = self.eval(e.value, st)
        out = self.subscript(base, e.slice, st, e)
        if isinstance(e.slice, ast.Slice) and isinstance(out, Num) and out.length is not None and (isinstance(base, Num) or getattr(base, 'kind', '') == 'ndarray') \
                and isinstance(e.value, (ast.Name, ast.Attribute)):
            # a basic slice of an ndarray is a view: an in-place update of it writes into the parent array
            out.view_of = (e.value, self.eval_Slice(e.slice, st))
        return out

    def eval_Slice(self, e, st):
        return Term('slice', (self.eval(e.lower, st) if e.lower else NONE, self.eval(e.upper, st) if e.upper else NONE,
                              self.eval(e.step, st) if e.step else NONE))

    def eval_index(self, sl, st, base) -> Val:
        if isinstance(sl, ast.Slice):
            return self.eval_Slice(sl, st)
        v = self.eval(sl, st)
        if self.elementwise:
            # indexing with the positions where a boolean mask holds (flatnonzero / where(...)[0] / nonzero(...)[0]) selects what the mask itself
            # selects, in the same order
            t = arr_identity(v) if isinstance(v, Num) else v
            if isinstance(t, Term) and t.head == 'nz' and len(t.args) == 1 and isinstance(t.args[0], Term) and t.args[0].head == 'mask' \
                    and getattr(t.args[0], 'mask', None) is None:
                return t.args[0]
        return v

    def subscript(self, base: Val, sl, st, node) -> Val:
        return self.subscript_val(base, None, st, node, sl)

    def _cat_tail_element(self, ct: Term, i: Rat) -> Optional[Val]:
        """read of a concatenation at an index that lies in its last part, as far as the lower bounds of the active range loops tell: with the loop variable
        k >= lo, an index off + (k - lo) + c (c >= 0) is element (k - lo) + c of the last part (reads past the end are IndexErrors, not modelled)"""
        parts = list(ct.args)
        if len(parts) < 2:
            return None
        off = C(0)
        for part in parts[:-1]:
            ln = C(1) if (isinstance(part, Num) and part.length is None) else (C(len(part.items)) if isinstance(part, Tup) else _len_of(part))
            if ln is None:
                return None
            off = off + ln
        last = parts[-1]
        last = last if isinstance(last, Num) else (self.as_num(last, True) if isinstance(last, Term) else None)
        if last is None or last.length is None:
            return None
        d = i - off
        low = d
        for lc in self.loops:
            if lc.kind == 'range' and lc.sym is not None and lc.lo is not None:
                at = _single_atom(lc.sym)
                if at in set(sym.all_atoms(low)):
                    coef = low - sym.subst(low, {at: lc.sym - C(1)})       # d is linear in k with this slope, if constant
                    if not (coef.is_const() and coef.const_value() > 0):
                        return None
                    low = sym.subst(low, {at: lc.lo})
        if low.is_const() and low.const_value() >= 0 and not (d.is_const() and d.const_value() < 0):
            return last.at(d)
        return None

    def subscript_val(self, base: Val, idx: Optional[Val], st, node, sl=None) -> Val:
        if isinstance(base, Obj):
            m = self.prog.find_method(base.cls, '__getitem__')
            if m is not None:
                if idx is None:
                    idx = self.eval_index(sl, st, base)
                return self._invoke(m, st, [idx], {}, None, base, node)
        if idx is None:
            idx = self.eval_index(sl, st, base)
        if isinstance(base, Gam):
            return gamma(base.pred, self.subscript_val(base.a, idx, st, node), self.subscript_val(base.b, idx, st, node))
        if isinstance(base, Tup):
            if isinstance(idx, Num) and idx.is_const():
                i = int(idx.const())
                if -len(base.items) <= i < len(base.items):
                    return base.items[i]
            if isinstance(idx, Term) and idx.head == 'slice':
                lo, hi, step = idx.args
                if all(isinstance(x, Const) and x.v is None or (isinstance(x, Num) and x.is_const()) for x in (lo, hi, step)):
                    g = lambda x: None if isinstance(x, Const) else int(x.const())
                    return Tup(base.items[slice(g(lo), g(hi), g(step))], base.kind)
            return Term('item', (base, idx))
        if isinstance(base, Term) and base.head == 'modvars' and isinstance(idx, Const) and isinstance(idx.v, str):
            # vars(module)[name] is getattr(module, name); a missing name is a KeyError
            bound = module_binds(self.prog, base.args[0].args[0].v, idx.v)
            self.lib_event('builtins.getattr', [base.args[0], idx], {}, None, st, node, NONE)
            if bound is False:
                raise _PyRaise('KeyError')
            return Term('getattr', (base.args[0], idx), kind='unknown')
        if isinstance(base, Kw):
            if isinstance(idx, Tup) and idx.kind == 'tuple' and self.decide is not None:
                # a boolean-valued part of a tuple key whose truth the rule has decided (the state of the cache entry) is that boolean
                settled = []
                for it_ in idx.items:
                    if isinstance(it_, Term) and it_.kind == 'bool':
                        t_ = self.truth(it_, st, node)
                        settled.append(Const(bool(t_.v)) if isinstance(t_, Const) else it_)
                    else:
                        settled.append(it_)
                idx = Tup(settled, 'tuple')
            key = _const_key(idx)
            if key is not None and key in base.items:
                return base.items[key]
            if key is not None and base.rest is None:
                raise _PyRaise('KeyError')
            return Term('item', (base, idx))
        if self.elementwise and isinstance(idx, Tup) and len(idx.items) == 2:
            # a[np.newaxis, :] / a[:, np.newaxis] of a 1-D array: a row / a column for broadcasting against the other
            def is_new(v):
                return (isinstance(v, Const) and v.v is None) or (isinstance(v, Fn) and str(v.ref) == 'numpy.newaxis')

            def is_full(v):
                return isinstance(v, Term) and v.head == 'slice' and all(isinstance(x_, Const) and x_.v is None for x_ in v.args)
            nb0 = base if isinstance(base, Num) else (self.as_num(base, True) if isinstance(base, Term) and base.kind in ('ndarray', 'list') else None)
            if nb0 is not None and nb0.length is not None and getattr(nb0, 'mask', None) is None:
                if is_new(idx.items[0]) and is_full(idx.items[1]):
                    return Term('bcast', (nb0, Const(1)), kind='ndarray2d')      # varies along axis 1
                if is_full(idx.items[0]) and is_new(idx.items[1]):
                    return Term('bcast', (nb0, Const(0)), kind='ndarray2d')      # varies along axis 0
        ct = arr_identity(base) if isinstance(base, Num) else base
        if isinstance(ct, Term) and ct.head == 'cat' and isinstance(idx, Num) and idx.length is None:
            hit = self._cat_tail_element(ct, idx.r)
            if hit is not None:
                return hit
        nb = base if isinstance(base, Num) else None
        if nb is None and isinstance(base, Term) and base.kind in ('ndarray', 'list'):
            nb = term_as_num(base, True, base.kind)
        if nb is None and isinstance(base, Term) and base.kind == 'unknown' and isinstance(idx, Num) and idx.length is None \
                and base.head not in ('module', 'super', 'exception', UNSUPPORTED):
            nb = term_as_num(base, True, 'unknown')
        if nb is not None and nb.length is not None:
            if isinstance(idx, Num) and idx.length is None:
                self.emit('subscript', st, node, base=nb, index=idx)
                i = idx.r
                if neg_const_index(i):
                    i = nb.length + i
                return nb.at(i)
            if isinstance(idx, Term) and idx.head == 'slice':
                lo, hi, step = idx.args
                if isinstance(lo, Term) and lo.kind in ('scalar', 'int'):
                    lo = term_as_num(lo, False)
                if isinstance(hi, Term) and hi.kind in ('scalar', 'int'):
                    hi = term_as_num(hi, False)
                if isinstance(step, Const) or (isinstance(step, Num) and step.is_const() and step.const() == 1):
                    okl = isinstance(lo, Const) or (isinstance(lo, Num) and lo.length is None)
                    okh = isinstance(hi, Const) or (isinstance(hi, Num) and hi.length is None)
                    if okl and okh:
                        l = C(0) if isinstance(lo, Const) else (nb.length + lo.r if neg_const_index(lo.r) else lo.r)
                        h = nb.length if isinstance(hi, Const) else (nb.length + hi.r if neg_const_index(hi.r) else hi.r)
                        r = sym.subst(nb.r, {sym.idx_atom(): sym.idx() + l})
                        out_ = Num(r, h - l, nb.kind)
                        if nb.kind == 'ndarray':
                            out_.view = True        # a basic slice of an ndarray is a view: a whole-array store into it writes the parent
                        out_.dt = getattr(nb, 'dt', None)
                        return out_
                if isinstance(step, Num) and step.length is None and not (step.is_const() and step.const() <= 0) and isinstance(hi, Const) and hi.v is None \
                        and (isinstance(lo, Const) or (isinstance(lo, Num) and lo.length is None and not neg_const_index(lo.r))):
                    # a[lo::step] with a (positive) step: element i is a[lo + step*i]; ceil((len - lo) / step) elements
                    l = C(0) if isinstance(lo, Const) else lo.r
                    r = sym.subst(nb.r, {sym.idx_atom(): l + step.r * sym.idx()})
                    cnt = sym.A('FloorDiv', nb.length - l - C(1), step.r) + C(1)
                    out_ = Num(r, cnt, nb.kind)
                    out_.dt = getattr(nb, 'dt', None)
                    return out_
                return term_as_num(Term('slice_of', (nb, idx), kind=nb.kind), True, nb.kind)
            if isinstance(idx, Tup):
                if len(idx.items) == 2:
                    r_, c_ = idx.items
                    if isinstance(r_, Term) and r_.head == 'slice' and all(isinstance(x_, Const) for x_ in r_.args) and isinstance(c_, Num) and c_.length is None:
                        return term_as_num(Term('col', (arr_identity(nb), c_), kind='ndarray'), True, 'ndarray')
                return Term('index', (nb, idx), kind='ndarray')
            if isinstance(idx, Term) and idx.head == 'lib:numpy.arange':
                idx = term_as_num(idx, True, 'ndarray')
            if self.elementwise and isinstance(idx, Term) and idx.kind == 'ndarray' and idx.head.startswith(('call:', 'lib:')) and idx.head != 'lib:numpy.arange':
                idx = term_as_num(idx, True, 'ndarray')         # an opaque index array (the result of a search): element i is a[I[i]]
            if self.elementwise and isinstance(idx, Term) and idx.head == 'mask' and idx.args and getattr(nb, 'mask', None) is None \
                    and getattr(idx, 'mask', None) is None:
                # a[M] with a boolean array M: the selected elements, kept aligned with their original positions (a masked view)
                out = Num(nb.r, sym.A('Count', Ref('$m', idx)), 'ndarray')
                out.dt = getattr(nb, 'dt', None)
                out.mask = idx.args[0]
                return out
            if isinstance(idx, Num) and idx.length is not None and (self.elementwise or not any(sym.ATOMS.head(a_) == 'gamma' for a_ in sym.all_atoms(idx.r))):
                # a[I] with an index array I: element i is a[I[i]]
                out = Num(sym.subst(nb.r, {sym.idx_atom(): idx.r}), idx.length, 'ndarray')
                out.dt = getattr(nb, 'dt', None)
                if self.elementwise:
                    self.emit('gather', st, node, base=nb, index=idx, mask=getattr(idx, 'mask', None))
                return carry_mask(self, out, idx, st=st, node=node)
            if isinstance(idx, Term) and idx.head.startswith(('lib:', 'method:', 'call:')):
                self.emit('subscript', st, node, base=nb, index=idx)
            # boolean mask / fancy index: fresh array
            return term_as_num(Term('index', (nb, idx), kind='ndarray'), True, 'ndarray')
        if isinstance(idx, Tup) and len(idx.items) == 2:
            r, c = idx.items
            if isinstance(r, Term) and r.head == 'slice' and all(isinstance(x, Const) for x in r.args) and isinstance(c, Num):
                return term_as_num(Term('col', (base, c), kind='ndarray'), True, 'ndarray')
        k = 'unknown'
        if isinstance(idx, Term) and idx.head == 'slice':
            k = getattr(base, 'kind', 'unknown')
        return Term('item', (base, idx), kind=k)

    # ---- calls
    def eval_Call(self, e, st):
        # super()
        if isinstance(e.func, ast.Name) and e.func.id == 'super' and not e.args and 'super' not in st.env:
            fr = self.frames[-1]
            selfv = st.env.get('self', Term('self', ()))
            return Term('super', (Fn('class', fr.defcls), selfv))
        fn = self.eval(e.func, st)
        pos: List[Val] = []
        kw: Dict[str, Val] = {}
        star_kw = None
        for a in e.args:
            if isinstance(a, ast.Starred):
                v = self.eval(a.value, st)
                nt = self.namedtuple_items(v, st)
                if nt is not None:
                    pos.extend(nt)
                elif isinstance(v, Tup):
                    pos.extend(v.items)
                else:
                    pos.append(Term('star', (v,)))
            else:
                pos.append(self.eval(a, st))
        for k in e.keywords:
            v = self.eval(k.value, st)
            if k.arg is None:
                if isinstance(v, Kw):
                    kw.update(v.items)
                    if v.rest is not None:
                        star_kw = v.rest if star_kw is None else Term('kwmerge', (star_kw, v.rest))
                else:
                    star_kw = v if star_kw is None else Term('kwmerge', (star_kw, v))
            else:
                kw[k.arg] = v
        res = self.call(fn, pos, kw, star_kw, st, e)
        out_kw = [k for k in e.keywords if k.arg == 'out']
        if out_kw and isinstance(out_kw[0].value, (ast.Name, ast.Attribute, ast.Subscript)) and isinstance(fn, Fn) and fn.fkind == 'lib' \
                and str(fn.ref).startswith('numpy.'):
            # numpy.f(..., out=a): a is overwritten in place with the result
            tgt = out_kw[0].value
            if isinstance(res, Term) and res.head.startswith('lib:numpy.'):
                res = Term(res.head, res.args, [(k_, v_) for k_, v_ in res.kwargs if k_ != 'out'], res.kind, res.uid, res.node)
                h_ = LIB_HANDLERS.get(str(fn.ref))
                if h_ is not None:
                    try:
                        r2 = h_(self, pos, {k_: v_ for k_, v_ in kw.items() if k_ != 'out'}, st, e)
                        if r2 is not None:
                            res = r2
                    except Unknown:
                        pass
            self.inplace_update(tgt, kw['out'], res, st, e) if isinstance(tgt, ast.Name) else self.assign(tgt, res, st, e, aug=True)
        if isinstance(e.func, ast.Attribute) and e.func.attr in MUTATING_METHODS and isinstance(fn, Fn) and fn.fkind == 'builtin':
            recv = fn.self_val
            if not isinstance(recv, Obj) and recv is not None:
                newv = Term('mutated', (recv, Const(e.func.attr)), uid=fresh_serial(), kind=getattr(recv, 'kind', 'unknown'))
                if isinstance(recv, Num) and recv.length is not None:
                    newv = term_as_num(newv, True, recv.kind)
                if isinstance(recv, Tup) and recv.kind == 'list' and not self.loops and len(pos) == 1 and not kw:
                    # straight-line code (or an unrolled loop over a literal table) growing a literal list
                    if e.func.attr == 'append':
                        newv = Tup(list(recv.items) + [pos[0]], 'list')
                    elif e.func.attr == 'extend' and isinstance(pos[0], Tup):
                        newv = Tup(list(recv.items) + list(pos[0].items), 'list')
                self.rebind(e.func.value, newv, st)
        return res

    def _single_dispatch(self, fi: FuncInfo, pos, kw):
        """functools.singledispatch: the overload registered for the type of the first argument (None: `fi` is not a generic function or its own body
        applies; 'unknown': overloads exist and the argument's type is not known)"""
        decos = [ast.unparse(d).split('.')[-1] for d in getattr(fi.node, 'decorator_list', [])]
        if 'singledispatch' not in decos or fi.cls is not None:
            return None
        table = {}
        for other in fi.module.functions.values():
            for d in getattr(other.node, 'decorator_list', []):
                if isinstance(d, ast.Call) and isinstance(d.func, ast.Attribute) and d.func.attr == 'register' and isinstance(d.func.value, ast.Name) \
                        and d.func.value.id == fi.name and len(d.args) == 1:
                    table[ast.unparse(d.args[0])] = other
        if not table:
            return None
        first = pos[0] if pos else kw.get(fi.params()[0]) if fi.params() else None
        if isinstance(first, Const) and first.v is None:
            return table.get('type(None)') or table.get('NoneType') or table.get('types.NoneType')
        if set(table) <= {'type(None)', 'NoneType', 'types.NoneType'} and isinstance(first, (Num, Tup)) :
            return None                 # a number / an array is not None: the generic body
        if isinstance(first, Const) and isinstance(first.v, str):
            return table.get('str')
        return 'unknown'

    def call(self, fn: Val, pos, kw, star_kw, st, node) -> Val:
        if isinstance(fn, Gam):
            return gamma(fn.pred, self.call(fn.a, pos, kw, star_kw, st, node), self.call(fn.b, pos, kw, star_kw, st, node))
        if isinstance(fn, Obj):
            # an instance of a repository class that defines __call__
            m = self.prog.find_method(fn.cls, '__call__')
            if m is not None and self.depth < self.max_depth:
                return self._invoke(m, st, pos, kw, star_kw, fn, node)
        if isinstance(fn, Fn):
            if fn.fkind == 'repo':
                fi: FuncInfo = fn.ref
                over = self._single_dispatch(fi, pos, kw)
                if over == 'unknown':
                    self.issue(st, node, f"functools.singledispatch on {fi.name}: the type of the first argument is not known")
                elif over is not None:
                    fi = over
                    fn = Fn('repo', fi, self_val=fn.self_val)
                if self.inline(fi) and self.depth < self.max_depth and not self._recursing(fi):
                    return self._invoke(fi, st, pos, kw, star_kw, fn.self_val, node, raw=getattr(fn, 'raw', False))
                if getattr(fn, 'raw', False):
                    return self._invoke(fi, st, pos, kw, star_kw, fn.self_val, node, raw=True)
                return self.opaque_call(fi, st, pos, kw, star_kw, fn.self_val, node)
            if fn.fkind == 'class':
                ci: ClassInfo = fn.ref
                members = [m_ for m_ in self.class_constants(ci).values() if isinstance(m_, Term) and m_.head == 'enum']
                if members and len(pos) == 1 and not kw and star_kw is None:
                    # EnumClass(value): the member with that value; ValueError when there is none
                    if isinstance(pos[0], Term) and pos[0].head == 'enum' and veq(pos[0].args[0], members[0].args[0]):
                        return pos[0]
                    if isinstance(pos[0], Const):
                        for m_ in members:
                            if m_.args[2].v == pos[0].v and type(m_.args[2].v) is type(pos[0].v):
                                return m_
                        raise _PyRaise('ValueError')
                    self.issue(st, node, f"{ci.qualname}(<value>): look-up of an enumeration member by a value that is not a literal here")
                    return Term('new:' + ci.qualname, pos, kw, kind='enum', node=node)
                init = self.prog.find_method(ci, '__init__')
                if self.inline_class(ci):
                    obj = Obj(ci, fresh_serial())
                    st.heap[obj.oid] = {}
                    self.emit('new', st, node, obj=obj, cls=ci, pos=pos, kw=kw)
                    if init is not None:
                        self._invoke(init, st, pos, kw, star_kw, obj, node)
                    else:
                        self._synth_init(ci, obj, pos, kw, st, node)
                    return obj
                t = Term('new:' + ci.qualname, pos, kw, kind='object', node=node)
                self.emit('call', st, node, callee=init, term=t, bound=None)
                return t
            if fn.fkind == 'lambda':
                return self.call_lambda(fn, pos, kw, st, node)
            if fn.fkind == 'closure':
                return self._invoke(fn.ref, st, pos, kw, star_kw, None, node, closure_env=fn.env)
            if fn.fkind == 'lib':
                return self.call_lib(fn.ref, pos, kw, star_kw, st, node)
            if fn.fkind == 'builtin':
                return self.call_builtin(fn, pos, kw, star_kw, st, node)
        if isinstance(fn, Term) and fn.head == 'partial' and fn.args:
            # functools.partial(f, *a, **k)(*b, **c) == f(*a, *b, **{**k, **c})
            inner = fn.args[0]
            kw2 = dict(fn.kwargs)
            star0 = kw2.pop('**', None)
            kw2.update(kw)
            return self.call(inner, list(fn.args[1:]) + list(pos), kw2, star_kw if star_kw is not None else star0, st, node)
        # calling an opaque value (parameter callables, spline objects, classes passed as parameters)
        t = Term('apply', (fn,) + tuple(pos), list(kw.items()) + ([('**', star_kw)] if star_kw is not None else []),
                 kind='unknown', node=node)
        self.emit('apply', st, node, fn=fn, pos=pos, kw=kw, star_kw=star_kw, term=t)
        return t

    def _synth_init(self, ci: ClassInfo, obj: Obj, pos, kw, st, node):
        """@dataclass / typing.NamedTuple classes without a written __init__: the annotated class-level names, in order, are the constructor
        parameters and become the fields (a __post_init__ is then run)"""
        decos = [ast.unparse(d) for d in ci.node.decorator_list]
        is_dc = any('dataclass' in d for d in decos)
        is_nt = any(ast.unparse(b).endswith('NamedTuple') for b in ci.node.bases)
        if not (is_dc or is_nt):
            if pos or kw:
                self.issue(st, node, f"constructor arguments for {ci.qualname}, which defines no __init__")
            return
        fields = [(n.target.id, n.value) for n in ci.node.body if isinstance(n, ast.AnnAssign) and isinstance(n.target, ast.Name)]
        vals = {}
        for (name, _), v in zip(fields, pos):
            vals[name] = v
        for k_, v in kw.items():
            vals[k_] = v
        for name, default in fields:
            if name not in vals:
                if default is None:
                    self.issue(st, node, f"missing field {name} constructing {ci.qualname}")
                    vals[name] = Term('missing', (Const(name),))
                else:
                    fr = Frame(None, ci.module, ci)
                    self.frames.append(fr)
                    try:
                        vals[name] = self.eval(default, State())
                    finally:
                        self.frames.pop()
        for name, _ in fields:
            st.heap.setdefault(obj.oid, {})[name] = vals[name]
            self.emit('field', st, node, obj=obj, field=name, value=vals[name])
        post = self.prog.find_method(ci, '__post_init__')
        if post is not None:
            self._invoke(post, st, [], {}, None, obj, node)

    def inline_class(self, ci: ClassInfo) -> bool:
        init = self.prog.find_method(ci, '__init__')
        return init is None or self.inline(init)

    def _recursing(self, fi):
        return sum(1 for f in self.frames if f.func is fi) >= 2

    def call_lambda(self, fn: Fn, pos, kw, st, node) -> Val:
        lam: ast.Lambda = fn.ref
        params = [a.arg for a in lam.args.args]
        env = dict(fn.env or {})
        for p, v in zip(params, pos):
            env[p] = v
        for k, v in kw.items():
            env[k] = v
        nd = len(lam.args.defaults)
        for i, d in enumerate(lam.args.defaults):
            p = params[len(params) - nd + i]
            if p not in env or (p not in kw and params.index(p) >= len(pos)):
                env[p] = self.eval(d, State(dict(fn.env or {})))
        sub = State(env, st.heap, st.guard)
        fr = Frame(self.frames[-1].func if self.frames else None, fn.module or self.frames[-1].module, fn.defcls)
        self.frames.append(fr)
        try:
            return self.eval(lam.body, sub)
        finally:
            self.frames.pop()

    # ---- library / builtin semantics (written table, DESIGN 2.9)
    def lib_event(self, dotted, pos, kw, star_kw, st, node, result):
        self.emit('lib', st, node, name=dotted, pos=list(pos), kw=dict(kw), star_kw=star_kw, result=result)

    def call_lib(self, dotted: str, pos, kw, star_kw, st, node) -> Val:
        # a boolean array stays the comparison it is, however it reached the call (as a term, or wrapped as an opaque array)
        def unwrap(v):
            t_ = arr_identity(v) if isinstance(v, Num) and v.length is not None else v
            return t_ if isinstance(t_, Term) and t_.head == 'mask' else v
        pos = [unwrap(v) for v in pos]
        kw = {k_: unwrap(v) for k_, v in kw.items()}
        h = LIB_HANDLERS.get(dotted)
        res = None
        if h is not None:
            try:
                res = h(self, pos, kw, st, node)
            except Unknown as ex:
                self.issue(st, node, f"{dotted}: {ex}")
                res = None
        if res is None:
            kind = LIB_RESULT_KIND.get(dotted, 'unknown')
            if dotted in ('numpy.searchsorted',):
                needle = kw.get('v', pos[1] if len(pos) > 1 else None)
                kind = 'scalar' if isinstance(needle, Num) and needle.length is None else 'ndarray'
            if dotted in ('numpy.argmax', 'numpy.argmin') and 'axis' not in kw and len(pos) < 2:
                kind = 'scalar'
            if dotted in ('numpy.linspace', 'numpy.geomspace', 'numpy.logspace'):
                ends = [kw.get('start', pos[0] if pos else None), kw.get('stop', pos[1] if len(pos) > 1 else None)]
                if any(isinstance(x_, Num) and x_.length is not None for x_ in ends):
                    kind = 'ndarray2d'
            uid = fresh_serial() if dotted in IMPURE_LIBS or dotted.startswith(IMPURE_PREFIXES) else None
            npos, nkw = normalise_lib_args(dotted, pos, kw) if star_kw is None else (pos, kw)
            res = Term('lib:' + dotted, npos, list(nkw.items()) + ([('**', star_kw)] if star_kw is not None else []),
                       kind=kind, uid=uid, node=node)
        self.lib_event(dotted, pos, kw, star_kw, st, node, res)
        return res

    def call_builtin(self, fn: Fn, pos, kw, star_kw, st, node) -> Val:
        name = fn.ref
        if name == 'str.maketrans' and all(isinstance(p_, Const) and isinstance(p_.v, str) for p_ in pos) and not kw:
            return Const(str.maketrans(*[p_.v for p_ in pos]))
        if name.startswith('ndarray.') or name.startswith('method.'):
            meth = name.split('.', 1)[1]
            recv = fn.self_val
            def _lit(a_):
                if isinstance(a_, Const):
                    return True, a_.v
                if isinstance(a_, Num) and a_.length is None and a_.r.is_const():
                    c_ = a_.r.const_value()
                    return True, (int(c_) if c_.denominator == 1 else float(c_))
                return False, None
            lits_p, lits_k = [_lit(a_) for a_ in pos], {k_: _lit(a_) for k_, a_ in kw.items()}
            if isinstance(recv, Const) and isinstance(recv.v, str) and meth in PURE_STR_METHODS and all(ok_ for ok_, _ in lits_p) \
                    and all(ok_ for ok_, _ in lits_k.values()) and star_kw is None:
                # constant folding of a pure string method on literals ('{}_x'.format('reference'), name.replace('-', '_'), url.format(file_id=42), ...)
                try:
                    out_ = getattr(recv.v, meth)(*[v_ for _, v_ in lits_p], **{k_: v_ for k_, (_, v_) in lits_k.items()})
                    if isinstance(out_, (str, bool, int)) or out_ is None:
                        return Const(out_) if not isinstance(out_, int) or isinstance(out_, bool) else Num(C(out_))
                    if isinstance(out_, (list, tuple)) and all(isinstance(x_, str) for x_ in out_):
                        return Tup([Const(x_) for x_ in out_], 'list' if isinstance(out_, list) else 'tuple')
                except Exception:
                    pass
            if isinstance(recv, Term) and recv.head == 'lib:os.path.join' and meth in PATH_METHODS and star_kw is None:
                # pathlib spellings of the os / builtins calls the rules are phrased in
                if meth == 'exists' and not pos and not kw:
                    return self.call_lib('os.path.exists', [recv], {}, None, st, node)
                if meth == 'is_file' and not pos and not kw:
                    return self.call_lib('os.path.isfile', [recv], {}, None, st, node)
                if meth == 'open':
                    return self.call_lib('builtins.open', [recv] + list(pos), dict(kw), None, st, node)
                if meth == 'mkdir' and not pos:
                    parents = kw.get('parents')
                    if isinstance(parents, Const) and parents.v is True:
                        return self.call_lib('os.makedirs', [recv], {k_: v_ for k_, v_ in kw.items() if k_ != 'parents'}, None, st, node)
                    if parents is None:
                        return self.call_lib('os.mkdir', [recv], dict(kw), None, st, node)
                if meth == 'unlink' and not pos:
                    return self.call_lib('os.remove', [recv], {}, None, st, node)
                if meth in ('rename', 'replace') and len(pos) == 1 and not kw:
                    return self.call_lib('os.' + meth, [recv, pos[0]], {}, None, st, node)
            h = METHOD_HANDLERS.get(meth)
            if h is None and meth in MIRRORED_METHODS and ((isinstance(recv, Num) and recv.length is not None) or getattr(recv, 'kind', '') in ('ndarray', 'ndarray2d')):
                # a.m(...) of an array is numpy.m(a, ...): one canonical form for both spellings
                return self.call_lib('numpy.' + meth, [recv] + list(pos), kw, star_kw, st, node)
            if h is not None:
                r = h(self, recv, pos, kw, st, node)
                if r is not None:
                    self.emit('method', st, node, name=meth, recv=recv, pos=list(pos), kw=dict(kw), result=r)
                    return r
            kind = 'ndarray' if meth in NDARRAY_FRESH_METHODS else 'unknown'
            if meth == 'ravel' and not pos and not kw:
                meth, kind = 'flatten', 'ndarray'        # same elements in the same (row-major) order
            r = Term('method:' + meth, (recv,) + tuple(pos), list(kw.items()), kind=kind, node=node)
            self.emit('method', st, node, name=meth, recv=recv, pos=list(pos), kw=dict(kw), result=r)
            return r
        if name.startswith('object.'):
            return NONE
        h = BUILTIN_HANDLERS.get(name)
        if h is not None:
            r = h(self, pos, kw, st, node)
            if r is not None:
                if name in ('open', 'getattr', 'next', 'iter', 'print'):
                    self.lib_event('builtins.' + name, pos, kw, star_kw, st, node, r)
                return r
        uid = fresh_serial() if name in ('open', 'iter') else None
        r = Term('lib:builtins.' + name, pos, list(kw.items()), uid=uid, node=node,
                 kind={'float': 'scalar', 'sum': 'scalar', 'round': 'scalar', 'str': 'str', 'list': 'list', 'sorted': 'list',
                       'tuple': 'tuple'}.get(name, 'unknown'))
        self.lib_event('builtins.' + name, pos, kw, star_kw, st, node, r)
        return r


def arr_identity(v):
    """the term behind an opaque array value"""
    if isinstance(v, Num) and v.length is not None:
        atoms = v.r.atoms()
        if len(atoms) == 1:
            (a,) = atoms
            if sym.ATOMS.head(a) == 'el' and sym.ATOMS.args(a)[1] == sym.idx() and v.r == Rat.atom(a):
                ref = sym.ATOMS.args(a)[0]
                if isinstance(ref, Ref) and ref.term is not None:
                    return ref.term
    return v


def _single_atom(r: Rat) -> int:
    (m, c), = r.n.t.items()
    return m[0][0]


def normalise_lib_args(dotted: str, pos, kw):
    """bind the arguments to the installed signature (E1) so that positional / keyword spelling does not matter;
    arguments equal to the parameter's default are dropped"""
    from . import api
    import inspect
    if any(isinstance(p, Term) and p.head == 'star' for p in pos):
        return pos, kw
    st, binding, _ = api.bind_call(dotted, len(pos), list(kw))
    if st != 'ok' or binding is None:
        return pos, kw
    ok, obj, _ = api.resolve_lib(dotted)
    try:
        sig = inspect.signature(obj)
    except (TypeError, ValueError):
        return pos, kw
    out_pos, out_kw = [], {}
    # BSpline(t, c, k) with (t, c, k) = the items of one tuple-valued term  ==  BSpline(*that term)
    vals_in_order = list(pos) + list(kw.values())
    if len(vals_in_order) >= 2 and all(isinstance(v, Term) and v.head == 'item' and len(v.args) == 2 and isinstance(v.args[1], Const) for v in vals_in_order):
        src = vals_in_order[0].args[0]
        names = list(binding)
        if all(veq(v.args[0], src) for v in vals_in_order) and [v.args[1].v for v in vals_in_order] == list(range(len(vals_in_order))) \
                and names[:len(vals_in_order)] == list(sig.parameters)[:len(vals_in_order)]:
            return [Term('star', (src,))], {}
    for pname, b in binding.items():
        par = sig.parameters[pname]
        if par.kind == par.VAR_POSITIONAL:
            for item in b:
                out_pos.append(pos[item[1]])
            continue
        if par.kind == par.VAR_KEYWORD:
            for k, item in b.items():
                out_kw[k] = kw[item[1]]
            continue
        val = pos[b[1]] if b[0] == 'pos' else kw[b[1]]
        d = par.default
        if d is not par.empty:
            try:
                if isinstance(val, Const) and (val.v is d or (type(val.v) is type(d) and val.v == d)):
                    continue
                if isinstance(val, Num) and val.is_const() and isinstance(d, (int, float)) and not isinstance(d, bool) and val.const() == d:
                    continue
            except Exception:
                pass
        if par.kind == par.POSITIONAL_ONLY:
            out_pos.append(val)
        else:
            out_kw[pname] = val
    return out_pos, out_kw


def _order(a: Num, b: Num) -> bool:
    """deterministic operand order for symmetric predicates"""
    return sym.show(a.r) > sym.show(b.r)


BUILTINS = {'vars', 'setattr', 'slice', 'len', 'int', 'float', 'abs', 'min', 'max', 'range', 'zip', 'enumerate', 'isinstance', 'iter', 'next', 'open',
            'getattr', 'sum', 'round', 'str', 'list', 'tuple', 'print', 'sorted', 'bool', 'hasattr', 'type', 'dict', 'set',
            'any', 'all', 'map', 'filter', 'reversed', 'ValueError', 'IndexError', 'OSError', 'TypeError', 'KeyError',
            'AttributeError', 'Exception', 'TimeoutError', 'RuntimeError', 'NotImplementedError', 'StopIteration', 'callable',
            'divmod', 'pow', 'id', 'repr', 'format'}

OPTIONAL_LIBS = {'lib:os.environ.get', 'lib:os.getenv', 'lib:re.match', 'lib:re.search', 'lib:re.fullmatch', 'lib:shutil.which'}   # None when absent
PURE_STR_METHODS = {'format', 'replace', 'lower', 'upper', 'strip', 'lstrip', 'rstrip', 'startswith', 'endswith', 'split', 'rsplit', 'join', 'removeprefix',
                    'removesuffix', 'title', 'capitalize', 'partition', 'rpartition', 'zfill', 'count', 'find', 'index', 'translate', 'casefold', 'isdigit'}
MIRRORED_METHODS = {'repeat', 'cumsum', 'clip', 'argmin', 'argmax', 'searchsorted', 'nonzero', 'dot', 'squeeze', 'var', 'any', 'all', 'prod', 'cumprod',
                    'argsort', 'diagonal', 'trace', 'ptp'}
MUTATING_METHODS = {'append', 'extend', 'insert', 'sort', 'fill', 'put', 'resize', 'pop', 'remove', 'clear', 'reverse',
                    'update', 'setdefault', 'itemset', 'partition', 'byteswap', 'setflags'}
NDARRAY_METHODS = {'sum', 'copy', 'take', 'min', 'max', 'repeat', 'astype', 'flatten', 'reshape', 'tolist', 'item', 'mean',
                   'std', 'var', 'ravel', 'sort', 'fill', 'put', 'resize', 'view', 'squeeze', 'transpose', 'cumsum', 'any',
                   'all', 'argmin', 'argmax', 'clip', 'round', 'dot', 'nonzero', 'searchsorted'}
NDARRAY_FRESH_METHODS = {'copy', 'take', 'repeat', 'astype', 'flatten', 'cumsum', 'clip', 'round', 'tolist'}
IMPURE_LIBS = {'tempfile.TemporaryDirectory', 'tempfile.mkdtemp', 'time.time', 'time.sleep', 'urllib.request.urlretrieve',
               'os.rename', 'os.replace', 'os.makedirs', 'pickle.dump', 'pickle.load', 'shutil.rmtree', 'warnings.warn'}
IMPURE_PREFIXES = ('numpy.random.', 'random.', 'secrets.')
LIB_RESULT_KIND = {
    'numpy.asarray': 'ndarray', 'numpy.array': 'ndarray', 'numpy.asanyarray': 'ndarray', 'numpy.ascontiguousarray': 'ndarray',
    'numpy.interp': 'ndarray', 'numpy.unique': 'ndarray', 'numpy.arange': 'ndarray', 'numpy.linspace': 'ndarray',
    'numpy.zeros': 'ndarray', 'numpy.ones': 'ndarray', 'numpy.tile': 'ndarray', 'numpy.insert': 'ndarray',
    'numpy.concatenate': 'ndarray', 'numpy.pad': 'ndarray', 'numpy.column_stack': 'ndarray', 'numpy.nanmean': 'ndarray',
    'numpy.loadtxt': 'ndarray', 'numpy.random.normal': 'ndarray', 'numpy.isin': 'ndarray', 'numpy.in1d': 'ndarray',
    'numpy.where': 'tuple', 'numpy.cumsum': 'ndarray', 'numpy.sort': 'ndarray', 'numpy.full': 'ndarray',
    'numpy.empty': 'ndarray', 'numpy.zeros_like': 'ndarray', 'numpy.ones_like': 'ndarray', 'numpy.full_like': 'ndarray',
    'numpy.repeat': 'ndarray', 'numpy.append': 'ndarray', 'numpy.searchsorted': 'ndarray', 'numpy.clip': 'ndarray',
    'numpy.sqrt': 'same', 'numpy.exp': 'same', 'numpy.log': 'same', 'numpy.hstack': 'ndarray', 'numpy.vstack': 'ndarray',
    'numpy.stack': 'ndarray', 'numpy.flip': 'ndarray', 'numpy.roll': 'ndarray', 'numpy.cos': 'same', 'numpy.sin': 'same',
    'numpy.gradient': 'ndarray', 'numpy.convolve': 'ndarray', 'numpy.nan_to_num': 'ndarray', 'numpy.fromiter': 'ndarray',
    'numpy.vectorize': 'callable', 'numpy.frompyfunc': 'callable',
    'os.path.join': 'str', 'os.path.exists': 'bool', 'os.path.expanduser': 'str',
}


# --------------------------------------------------------------------------- handlers
def _arg(pos, kw, i, name, default=None):
    if i is not None and i < len(pos):
        return pos[i]
    return kw.get(name, default)


def _as_array(ev: Evaluator, v: Val, kind='ndarray') -> Optional[Num]:
    """value semantics of np.asarray: same elements, ndarray kind"""
    if isinstance(v, Num):
        if v.length is None:
            return Num(v.r, None, 'scalar')
        return Num(v.r, v.length, kind)
    if isinstance(v, Tup):
        return None
    if isinstance(v, Gam):
        a, b = _as_array(ev, v.a, kind), _as_array(ev, v.b, kind)
        if a is not None and b is not None:
            g = gamma(v.pred, a, b)
            return g if isinstance(g, Num) else None
        return None
    if isinstance(v, Term):
        if v.kind in ('ndarray', 'list') or v.head in ('param', 'kwget', 'listcomp', 'item', 'attr'):
            return term_as_num(v, True, kind)
    return None


def h_asarray(ev, pos, kw, st, node):
    v = _arg(pos, kw, 0, 'a')
    if v is None:
        v = _arg(pos, kw, 0, 'object')
    r = _as_array(ev, v)
    if r is not None:
        from .dtypes import tag_of_dtype_arg, dtype_of
        d = kw.get('dtype', pos[1] if len(pos) > 1 else None)
        r.dt = tag_of_dtype_arg(d) if d is not None and not (isinstance(d, Const) and d.v is None) else dtype_of(v)
        return r
    if isinstance(v, Tup) and all(isinstance(i, Num) and i.is_const() for i in v.items) and v.items:
        return term_as_num(Term('literal_array', (v,), kind='ndarray'), True)
    return None


def h_sum(ev, pos, kw, st, node):
    v = ev.as_num(_arg(pos, kw, 0, 'a'), True)
    if v is None or 'axis' in kw:
        return None
    if v.length is None:
        return v
    return Num(sym.mk_sum(v.r, v.length))


def h_dot(ev, pos, kw, st, node):
    """dot / inner product of two 1-D arrays of one extent: the sum of the element-wise products"""
    if len(pos) != 2 or kw:
        return None
    a, b = ev.as_num(pos[0], True), ev.as_num(pos[1], True)
    if a is None or b is None or a.length is None or b.length is None or not (a.length == b.length):
        return None
    from .dtypes import dtype_of
    ta = dtype_of(a)
    if ta is not None and ta[0] == 'same' and a.r == b.r:
        ev.emit('selfpower', st, node, base=a, tag=ta, op='dot')        # sum of squares accumulated in the caller's element type (DT3)
    return Num(sym.mk_sum(a.r * b.r, a.length))


def h_repeat_scalar(ev, pos, kw, st, node):
    """np.repeat(c, n) of one number: n copies of it (arrays keep the library term)"""
    a, reps = _arg(pos, kw, 0, 'a'), _arg(pos, kw, 1, 'repeats')
    if a is None or reps is None or (set(kw) - {'a', 'repeats'}) or len(pos) > 2:
        return None
    an = a if isinstance(a, Num) else None
    rn = ev.as_num(reps)
    if an is None or an.length is not None or rn is None or rn.length is not None:
        return None
    out = Num(an.r, rn.r, 'ndarray')
    from .dtypes import value_tag
    out.dt = value_tag(an)
    return out


def h_column_stack(ev, pos, kw, st, node):
    """column_stack((A, B, ...)) of 1-D arrays of one extent: row j is (A[j], B[j], ...) - as a sequence of rows it is zip(A, B, ...)"""
    seq = _arg(pos, kw, 0, 'tup')
    if not isinstance(seq, Tup) or len(pos) > 1 or (set(kw) - {'tup'}) or len(seq.items) < 2:
        return None
    cols = [x if isinstance(x, Num) else ev.as_num(x, True) for x in seq.items]
    if any(c is None or c.length is None for c in cols) or any(not (c.length == cols[0].length) for c in cols[1:]):
        return None
    return Term('zip', tuple(cols), kind='rows')


def h_diff(ev, pos, kw, st, node):
    v = ev.as_num(_arg(pos, kw, 0, 'a'), True)
    if v is None or v.length is None or len(pos) > 1 or (set(kw) - {'a'}):
        return None
    nxt = sym.subst(v.r, {sym.idx_atom(): sym.idx() + C(1)})
    return Num(nxt - v.r, v.length - C(1), 'ndarray')


def h_abs(ev, pos, kw, st, node):
    v = ev.as_num(pos[0] if pos else None) if pos else None
    if v is None:
        return None
    return Num(sym.mk_abs(v.r), v.length, v.kind)


def _reduce(head):
    def h(ev, pos, kw, st, node):
        v = ev.as_num(_arg(pos, kw, 0, 'a'), True)
        # `dtype=` of a sum / mean names the accumulator type: the (real) value is the same; the elements were computed before, in their own type
        if v is None or (set(kw) - {'a'} - ({'dtype'} if head in ('Sum', 'Mean') else set())) or len(pos) > 1:
            return None
        if v.length is None:
            return None
        return Num(sym.mk_reduce(head, v.r, v.length))
    return h


def h_std(ev, pos, kw, st, node):
    v = ev.as_num(_arg(pos, kw, 0, 'a'), True)
    if v is None or v.length is None or (set(kw) - {'a'}) or len(pos) > 1:
        return None
    return Num(sym.mk_pow(sym.variance_form(v.r, v.length), C(Fraction(1, 2))))


def h_var(ev, pos, kw, st, node):
    v = ev.as_num(_arg(pos, kw, 0, 'a'), True)
    if v is None or v.length is None or (set(kw) - {'a'}) or len(pos) > 1:
        return None
    return Num(sym.variance_form(v.r, v.length))


def h_sqrt(ev, pos, kw, st, node):
    v = ev.as_num(pos[0]) if pos else None
    if v is None:
        return None
    return Num(sym.mk_pow(v.r, C(Fraction(1, 2))), v.length, v.kind)


def h_power(ev, pos, kw, st, node):
    if len(pos) != 2:
        return None
    a, b = ev.as_num(pos[0]), ev.as_num(pos[1])
    if a is None or b is None:
        return None
    return Num(sym.mk_pow(a.r, b.r), a.length if a.length is not None else b.length)


def _cat_part(ev, v):
    """normalise one operand of a 1-D concatenation: a one-element list display is its element"""
    if isinstance(v, Tup) and len(v.items) == 1 and isinstance(v.items[0], Num) and v.items[0].length is None:
        return v.items[0]
    if isinstance(v, Num) and v.length is not None and v.length == C(1):
        return v.at(C(0))
    return v


def mk_cat(parts) -> Val:
    flat = []
    for p_ in parts:
        t = arr_identity(p_) if isinstance(p_, Num) else p_
        if isinstance(t, Term) and t.head == 'cat':
            flat.extend(t.args)
        elif isinstance(p_, Num) and isinstance(t, Term) and p_.length is not None and _len_of(t) is not None and _len_of(t) == p_.length:
            flat.append(t)              # an opaque array is named by its term, however it reached the concatenation (when the term tells its extent)
        else:
            flat.append(p_)
    if len(parts) == 1 and isinstance(parts[0], Num) and parts[0].length is not None:
        # the concatenation of one array is (a copy of) that array
        return Num(parts[0].r, parts[0].length, 'ndarray')
    return Term('cat', tuple(flat), kind='ndarray')


def h_append(ev, pos, kw, st, node):
    arr, vals = _arg(pos, kw, 0, 'arr'), _arg(pos, kw, 1, 'values')
    if arr is None or vals is None or 'axis' in kw or len(pos) > 2:
        return None
    return mk_cat([arr, _cat_part(ev, vals)])


def h_concatenate(ev, pos, kw, st, node):
    seq = _arg(pos, kw, 0, 'arrays')
    if not isinstance(seq, Tup) or (set(kw) - {'arrays'}) or len(pos) > 1:
        return None
    return mk_cat([_cat_part(ev, x) for x in seq.items])


def h_insert(ev, pos, kw, st, node):
    arr, obj, vals = _arg(pos, kw, 0, 'arr'), _arg(pos, kw, 1, 'obj'), _arg(pos, kw, 2, 'values')
    if arr is None or obj is None or vals is None or 'axis' in kw or len(pos) > 3:
        return None
    a = ev.as_num(arr, True) if not isinstance(arr, Num) else arr
    if isinstance(obj, Num) and obj.length is None:
        if obj.is_const() and obj.const() == 0:
            return mk_cat([_cat_part(ev, vals), arr])
        if a is not None and a.length is not None and obj.r == a.length:
            return mk_cat([arr, _cat_part(ev, vals)])
    return None


def h_binary(opname):
    import ast as _ast
    op = {'add': _ast.Add(), 'subtract': _ast.Sub(), 'multiply': _ast.Mult(), 'divide': _ast.Div(), 'true_divide': _ast.Div(), 'power': _ast.Pow()}[opname]

    def h(ev, pos, kw, st, node):
        if len(pos) != 2 or kw:
            return None
        return ev.binop(op, pos[0], pos[1], st, node)
    return h


PATH_METHODS = ('exists', 'is_file', 'open', 'mkdir', 'unlink', 'rename', 'replace')


def h_path(ev, pos, kw, st, node):
    """pathlib.Path(a, b, ...) names the same file as os.path.join(a, b, ...): kept as that (left-nested) term, so that path rules phrased for
    os.path see the pathlib spelling too; Path(p) of one part is p"""
    if kw or not pos or any(isinstance(p_, Num) for p_ in pos):
        return None
    cur = pos[0]
    if len(pos) == 1:
        return cur if isinstance(cur, Term) and cur.head == 'lib:os.path.join' else None
    for part in pos[1:]:
        cur = ev.call_lib('os.path.join', [cur, part], {}, None, st, node)
    return cur


def h_square(ev, pos, kw, st, node):
    v = ev.as_num(pos[0], True) if pos and not kw and len(pos) == 1 else None
    if v is None:
        return None
    out = Num(v.r * v.r, v.length, v.kind if v.length is not None else None)
    if v.length is not None:
        from .dtypes import dtype_of
        ta = dtype_of(v)
        out.dt = ta
        if ta is not None and ta[0] == 'same':
            ev.emit('selfpower', st, node, base=v, tag=ta, op='square')     # squared in the element type the caller's data has (DT3)
    return out


def h_negative(ev, pos, kw, st, node):
    v = ev.as_num(pos[0]) if pos and not kw and len(pos) == 1 else None
    return Num(-v.r, v.length, v.kind if v.length is not None else None) if v is not None else None


def h_shape(ev, pos, kw, st, node):
    v = pos[0] if pos else kw.get('a')
    if isinstance(v, Num):
        return Tup([Num(v.length)]) if v.length is not None else Tup([])
    return None


def h_size(ev, pos, kw, st, node):
    v = pos[0] if pos else kw.get('a')
    if isinstance(v, Num) and v.length is not None and len(pos) + len(kw) == 1:
        return Num(v.length)
    return None


def h_nonzero_tuple(ev, pos, kw, st, node):
    c = pos[0] if len(pos) == 1 and not kw else None
    if c is None:
        return None
    return Tup([Term('nz', (c,), kind='ndarray')])


def h_flatnonzero(ev, pos, kw, st, node):
    c = pos[0] if len(pos) == 1 and not kw else kw.get('a') if len(kw) == 1 and not pos else None
    if c is None:
        return None
    return Term('nz', (c,), kind='ndarray')


def h_isscalar(ev, pos, kw, st, node):
    v = pos[0] if pos else None
    if isinstance(v, Num):
        return Const(v.length is None)
    if isinstance(v, (Tup,)):
        return FALSE
    return None


def h_path_join(ev, pos, kw, st, node):
    return Term('lib:os.path.join', pos, (), kind='str')


def _const_key(v):
    """hashable Python key of a literal (constant, integer, tuple of such); None when it is not a literal"""
    if isinstance(v, Const):
        try:
            hash(v.v)
            return v.v
        except TypeError:
            return None
    if isinstance(v, Num) and v.is_const() and v.const().denominator == 1:
        return int(v.const())
    if isinstance(v, Tup) and v.kind == 'tuple':
        ks = [_const_key(i) for i in v.items]
        return tuple(ks) if all(k is not None for k in ks) else None
    return None


def _as_fill(t):
    """a freshly allocated 1-D buffer as `fill(content, n)` (empty: content not yet defined)"""
    if isinstance(t, Num) and t.length is not None and not sym.free_idx(t.r) and not sym.atoms_with_head(t.r, 'el'):
        return Term('fill', (Num(t.r), Num(t.length)), kind='ndarray')
    if isinstance(t, Term) and t.head in ('lib:numpy.empty', 'lib:numpy.zeros', 'lib:numpy.ones') and not t.head.endswith('_like'):
        shp = t.kw('shape') if t.kw('shape') is not None else (t.args[0] if t.args else None)
        if isinstance(shp, Num) and shp.length is None:
            content = {'lib:numpy.empty': Const('<uninitialised>'), 'lib:numpy.zeros': Num(C(0)), 'lib:numpy.ones': Num(C(1))}[t.head]
            return Term('fill', (content, shp), kind='ndarray')
    return t


def h_import_module(ev, pos, kw, st, node):
    name = _arg(pos, kw, 0, 'name')
    if isinstance(name, Const) and isinstance(name.v, str) and not name.v.startswith('.') and name.v in ev.prog.modules:
        return Term('module', (Const(name.v),))
    return None


def b_vars(ev, pos, kw, st, node):
    if len(pos) == 1 and isinstance(pos[0], Term) and pos[0].head == 'module':
        return Term('modvars', (pos[0],), kind='dict')
    return None


def h_partial(ev, pos, kw, st, node):
    if not pos:
        return None
    return Term('partial', tuple(pos), list(kw.items()), kind='callable', node=node)


def h_operator(opname):
    import ast as _ast
    table = {'add': _ast.Add(), 'sub': _ast.Sub(), 'mul': _ast.Mult(), 'truediv': _ast.Div(), 'pow': _ast.Pow(), 'floordiv': _ast.FloorDiv(), 'mod': _ast.Mod()}
    cmp_ = {'lt': _ast.Lt(), 'le': _ast.LtE(), 'gt': _ast.Gt(), 'ge': _ast.GtE(), 'eq': _ast.Eq(), 'ne': _ast.NotEq()}

    def h(ev, pos, kw, st, node):
        if len(pos) != 2 or kw:
            return None
        if opname in table:
            return ev.binop(table[opname], pos[0], pos[1], st, node)
        return ev.compare(cmp_[opname], pos[0], pos[1], st, node)
    return h


def h_ptp(ev, pos, kw, st, node):
    v = ev.as_num(_arg(pos, kw, 0, 'a'), True)
    if v is None or v.length is None or (set(kw) - {'a'}) or len(pos) > 1:
        return None
    return Num(sym.mk_reduce('Max', v.r, v.length) - sym.mk_reduce('Min', v.r, v.length))


def h_fromiter(ev, pos, kw, st, node):
    """fromiter(<comprehension / sequence>, dtype[, count]): the array of its elements"""
    it = _arg(pos, kw, 0, 'iter')
    if it is None:
        return None
    cnt = kw.get('count', pos[2] if len(pos) > 2 else None)
    a = it if isinstance(it, Num) and it.length is not None else (ev.as_num(it, True) if isinstance(it, Term) and it.kind in ('list', 'ndarray') else None)
    if a is None or a.length is None:
        return None
    if cnt is not None and not (isinstance(cnt, Num) and cnt.length is None and (cnt.r == a.length or (cnt.is_const() and cnt.const() == -1))):
        return None
    out = Num(a.r, a.length, 'ndarray')
    from .dtypes import tag_of_dtype_arg
    out.dt = tag_of_dtype_arg(kw.get('dtype', pos[1] if len(pos) > 1 else None))
    return out


def h_full(ev, pos, kw, st, node):
    """full(n, c): n copies of c (1-D)"""
    shape, fv = _arg(pos, kw, 0, 'shape'), _arg(pos, kw, 1, 'fill_value')
    if isinstance(shape, Tup) and len(shape.items) == 1:
        shape = shape.items[0]
    n_ = ev.as_num(shape) if shape is not None else None
    if n_ is None or n_.length is not None or fv is None or (set(kw) - {'shape', 'fill_value', 'dtype'}):
        return None
    fvn = fv if isinstance(fv, Num) else ev.as_num(fv)
    if fvn is not None and fvn.length is None and not sym.free_idx(fvn.r):
        out = Num(fvn.r, n_.r, 'ndarray')       # n copies of one number: the same array as [c] * n or np.repeat(c, n)
        from .dtypes import tag_of_dtype_arg, value_tag
        out.dt = tag_of_dtype_arg(kw.get('dtype')) if kw.get('dtype') is not None else value_tag(fvn)
        return out
    return Term('fill', (fv, n_), kind='ndarray', node=node)


def h_pad(ev, pos, kw, st, node):
    """pad(a, (lo, hi), mode='constant', constant_values=c) on a 1-D array: fill(c, lo) ++ a ++ fill(c, hi)"""
    arr, pw = _arg(pos, kw, 0, 'array'), _arg(pos, kw, 1, 'pad_width')
    mode = _arg(pos, kw, 2, 'mode', Const('constant'))
    cv = kw.get('constant_values', Num(C(0)))
    if arr is not None and isinstance(mode, Const) and mode.v == 'edge' and isinstance(pw, Tup) and len(pw.items) == 2 and not (set(kw) - {'array', 'pad_width', 'mode'}):
        # mode='edge': the first element repeated in front, the last one behind
        lo, hi = (ev.as_num(x_) for x_ in pw.items)
        a_ = ev.as_num(arr, True) if not isinstance(arr, Num) else arr
        if lo is None or hi is None or lo.length is not None or hi.length is not None or a_ is None or a_.length is None:
            return None
        parts = []
        if not (lo.is_const() and lo.const() == 0):
            parts.append(Num(a_.at(C(0)).r, lo.r, 'ndarray'))
        parts.append(a_)
        if not (hi.is_const() and hi.const() == 0):
            parts.append(Num(a_.at(a_.length - C(1)).r, hi.r, 'ndarray'))
        return mk_cat(parts) if len(parts) > 1 else a_
    if arr is not None and isinstance(mode, Const) and mode.v in ('linear_ramp', 'reflect') and isinstance(pw, Tup) and len(pw.items) == 2 \
            and not (set(kw) - {'array', 'pad_width', 'mode', 'end_values', 'reflect_type'}):
        lo, hi = (ev.as_num(x_) for x_ in pw.items)
        a_ = ev.as_num(arr, True) if not isinstance(arr, Num) else arr
        if lo is None or hi is None or lo.length is not None or hi.length is not None or a_ is None or a_.length is None:
            return None
        first, last = a_.at(C(0)).r, a_.at(a_.length - C(1)).r
        j = sym.idx()
        parts = []
        if mode.v == 'linear_ramp':
            # the pad ramps linearly from end_values (outermost) to the edge value, the edge itself excluded: linspace(end, edge, width, endpoint=False)
            endv = kw.get('end_values', Num(C(0)))
            if 'reflect_type' in kw:
                return None
            el, er = (endv.items if isinstance(endv, Tup) and len(endv.items) == 2 else (endv, endv))
            el, er = ev.as_num(el), ev.as_num(er)
            if el is None or er is None or el.length is not None or er.length is not None:
                return None
            left = Num(el.r + j * (first - el.r) / lo.r, lo.r, 'ndarray') if not (lo.is_const() and lo.const() == 0) else None
            right = Num(last + (j + C(1)) * (er.r - last) / hi.r, hi.r, 'ndarray') if not (hi.is_const() and hi.const() == 0) else None
        else:
            # mode='reflect': the array mirrored about its edge sample (edge not repeated); reflect_type='odd' mirrors the values about the edge value too.
            # One reflection only (pad width below the array length) is modelled.
            rt = kw.get('reflect_type', Const('even'))
            if 'end_values' in kw or not (isinstance(rt, Const) and rt.v in ('even', 'odd')):
                return None
            odd = rt.v == 'odd'
            def at(ix):
                return a_.at(ix).r
            left = right = None
            if not (lo.is_const() and lo.const() == 0):
                src = at(lo.r - j)
                left = Num(C(2) * first - src if odd else src, lo.r, 'ndarray')
            if not (hi.is_const() and hi.const() == 0):
                src = at(a_.length - C(2) - j)
                right = Num(C(2) * last - src if odd else src, hi.r, 'ndarray')
            from . import values as _values
            _values.ASSUMED_NONEMPTY.add('numpy.pad(mode=reflect): pad width below the array length (a single reflection)')
        if left is not None:
            parts.append(left)
        parts.append(a_)
        if right is not None:
            parts.append(right)
        return mk_cat(parts) if len(parts) > 1 else a_
    if arr is None or not (isinstance(mode, Const) and mode.v == 'constant') or not isinstance(pw, Tup) or len(pw.items) != 2:
        return None
    if (set(kw) - {'array', 'pad_width', 'mode', 'constant_values'}) or isinstance(cv, Tup):
        return None
    lo, hi = (ev.as_num(x_) for x_ in pw.items)
    if lo is None or hi is None or lo.length is not None or hi.length is not None:
        return None
    a_ = ev.as_num(arr, True) if not isinstance(arr, Num) else arr
    if a_ is None or a_.length is None:
        return None
    parts = []
    if not (lo.is_const() and lo.const() == 0):
        parts.append(Term('fill', (cv, lo), kind='ndarray'))
    parts.append(a_)
    if not (hi.is_const() and hi.const() == 0):
        parts.append(Term('fill', (cv, hi), kind='ndarray'))
    return mk_cat(parts) if len(parts) > 1 else a_


def b_divmod(ev, pos, kw, st, node):
    if len(pos) != 2 or kw:
        return None
    import ast as _ast
    return Tup([ev.binop(_ast.FloorDiv(), pos[0], pos[1], st, node), ev.binop(_ast.Mod(), pos[0], pos[1], st, node)], 'tuple')


def h_linspace(ev, pos, kw, st, node):
    """linspace(a, b, k, endpoint=False) is linspace(a, b, k + 1)[:-1] (same step (b - a)/k, the end point dropped)"""
    ax = kw.get('axis')
    if ax is not None and not getattr(ev, '_in_linspace_axis', False):
        # linspace(S, E, k, axis=-1) on 1-D end points is the transpose of the default (axis=0) layout
        ends = [kw.get('start', pos[0] if pos else None), kw.get('stop', pos[1] if len(pos) > 1 else None)]
        if isinstance(ax, Num) and ax.is_const() and ax.const() in (-1, 1) and any(isinstance(x_, Num) and x_.length is not None for x_ in ends) and len(pos) <= 4:
            ev._in_linspace_axis = True
            try:
                base = ev.call_lib('numpy.linspace', list(pos), {k: v for k, v in kw.items() if k != 'axis'}, None, st, node)
            finally:
                ev._in_linspace_axis = False
            return base.args[0] if isinstance(base, Term) and base.head == 'T' else Term('T', (base,), kind=getattr(base, 'kind', 'unknown'))
        return None
    ep = kw.get('endpoint', pos[3] if len(pos) > 3 else None)
    if not (isinstance(ep, Const) and ep.v is False) or getattr(ev, '_in_linspace', False):
        return None
    num = kw.get('num', pos[2] if len(pos) > 2 else None)
    nn = ev.as_num(num) if num is not None else None
    if nn is None or nn.length is not None:
        return None
    npos = list(pos[:2])
    nkw = {k: v for k, v in kw.items() if k not in ('endpoint', 'num')}
    nkw['num'] = Num(nn.r + C(1))
    ev._in_linspace = True
    try:
        full = ev.call_lib('numpy.linspace', npos, nkw, None, st, node)
    finally:
        ev._in_linspace = False
    return ev.subscript_val(full, Term('slice', (NONE, Num(C(-1)), NONE)), st, node)


def h_ravel(ev, pos, kw, st, node):
    v = _arg(pos, kw, 0, 'a')
    if v is None or len(pos) > 1 or (set(kw) - {'a'}):
        return None
    if isinstance(v, Num):
        return v if v.length is not None else Num(v.r, C(1), 'ndarray')
    if isinstance(v, Term):
        return Term('method:flatten', (v,), kind='ndarray', node=node)
    return None


def carry_mask(ev, out, *ins, st=None, node=None):
    """values computed from masked views (reads through one boolean mask) stay aligned with the original positions under that mask"""
    masks = [getattr(x, 'mask', None) for x in ins if isinstance(x, (Num, Term)) and getattr(x, 'mask', None) is not None]
    if not masks:
        return out
    arrays = [x for x in ins if (isinstance(x, Num) and x.length is not None) or (isinstance(x, Term) and x.head == 'mask')]
    if any(getattr(x, 'mask', None) is None for x in arrays) or any(not veq(m_, masks[0]) for m_ in masks[1:]):
        if st is not None:
            ev.issue(st, node, 'operation mixing arrays read through different boolean masks')
        return out
    out.mask = masks[0]
    if isinstance(out, Num) and out.length is not None:
        out.length = next(x.length for x in arrays if isinstance(x, Num)) if any(isinstance(x, Num) for x in arrays) else out.length
    return out


def _ew(fn):
    def h(ev, pos, kw, st, node):
        if not getattr(ev, 'elementwise', False):
            return None
        return fn(ev, pos, kw, st, node)
    return h


def _broadcast(ev, vals):
    """numeric operands brought to one extent: (list of Num, length) or None"""
    ns = []
    for v in vals:
        n_ = v if isinstance(v, Num) else ev.as_num(v, isinstance(v, Term) and v.kind in ('ndarray', 'list'))
        if n_ is None:
            return None
        ns.append(n_)
    lens = [n_.length for n_ in ns if n_.length is not None]
    if any(not (l_ == lens[0]) for l_ in lens[1:]):
        return None
    length = lens[0] if lens else None
    return [Num(n_.r, length, 'ndarray' if length is not None else n_.kind) for n_ in ns], length


@_ew
def h_where_ew(ev, pos, kw, st, node):
    if len(pos) != 3 or kw:
        return None
    c, a, b = pos
    if not (isinstance(c, Term) and c.head == 'mask' and c.args):
        return None
    bc = _broadcast(ev, [a, b])
    if bc is None:
        return None
    (na, nb), length = bc
    if length is None:
        ops = [x for x in walk_vals(c.args[0]) if isinstance(x, Num) and x.length is not None]
        if not ops:
            return None
        length = ops[0].length
        na, nb = Num(na.r, length, 'ndarray'), Num(nb.r, length, 'ndarray')
    out = gamma(c.args[0], na, nb)
    if not isinstance(out, Num):
        return None
    from .dtypes import dtype_of, value_tag
    ta = dtype_of(a) if isinstance(a, Num) and a.length is not None else (value_tag(a) if isinstance(a, Num) else None)
    tb = dtype_of(b) if isinstance(b, Num) and b.length is not None else (value_tag(b) if isinstance(b, Num) else None)
    if ta is not None and ta == tb:
        out.dt = ta
    return carry_mask(ev, out, c, a, b, st=st, node=node)


def _ew_minmax(which):
    @_ew
    def h(ev, pos, kw, st, node):
        if len(pos) != 2 or kw:
            return None
        bc = _broadcast(ev, pos)
        if bc is None:
            return None
        (na, nb), length = bc
        from .values import minmax_atom
        out = Num(minmax_atom(which, [na.r, nb.r]), length, 'ndarray' if length is not None else 'scalar')
        return carry_mask(ev, out, *pos, st=st, node=node)
    return h


@_ew
def h_clip_ew(ev, pos, kw, st, node):
    a, lo, hi = _arg(pos, kw, 0, 'a'), _arg(pos, kw, 1, 'a_min'), _arg(pos, kw, 2, 'a_max')
    if lo is None:
        lo = kw.get('min')
    if hi is None:
        hi = kw.get('max')
    if a is None or lo is None or hi is None or isinstance(lo, Const) or isinstance(hi, Const) or (set(kw) - {'a', 'a_min', 'a_max', 'min', 'max'}):
        return None
    bc = _broadcast(ev, [a, lo, hi])
    if bc is None:
        return None
    (na, nlo, nhi), length = bc
    from .values import minmax_atom
    out = Num(minmax_atom('min', [minmax_atom('max', [na.r, nlo.r]), nhi.r]), length, 'ndarray' if length is not None else 'scalar')
    out.dt = getattr(a, 'dt', None)
    return carry_mask(ev, out, a, st=st, node=node)


def _ew_const_alloc(value):
    @_ew
    def h(ev, pos, kw, st, node):
        shp = _arg(pos, kw, 0, 'shape')
        if isinstance(shp, Tup) and len(shp.items) == 1:
            shp = shp.items[0]
        n_ = ev.as_num(shp) if shp is not None else None
        if n_ is None or n_.length is not None or (set(kw) - {'shape', 'dtype'}) or len(pos) > 2:
            return None
        out = Num(C(value), n_.r, 'ndarray')
        from .dtypes import tag_of_dtype_arg, FLOAT
        d = kw.get('dtype', pos[1] if len(pos) > 1 else None)
        out.dt = tag_of_dtype_arg(d) if d is not None else FLOAT
        return out
    return h


@_ew
def h_count_table_ew(ev, pos, kw, st, node):
    """count_nonzero / sum of the comparison table of a sorted array X against queries Q along the X axis: per query, the number of elements of X
    that are <= (or <) it - the same counts searchsorted gives"""
    t = _arg(pos, kw, 0, 'a')
    ax = kw.get('axis', pos[1] if len(pos) > 1 else None)
    if not (isinstance(t, Term) and t.head == 'outer_cmp' and isinstance(ax, Num) and ax.is_const()) or (set(kw) - {'a', 'axis'}):
        return None
    opn, a, b = t.args[0].v, t.args[1], t.args[2]
    axis = int(ax.const()) % 2
    # the counted operand varies along `axis`; the other one is the query
    if a.args[1].v == axis:
        counted, query, op = a.args[0], b.args[0], opn                      # counted OP query
    else:
        counted, query, op = b.args[0], a.args[0], {'Lt': 'Gt', 'LtE': 'GtE', 'Gt': 'Lt', 'GtE': 'LtE'}[opn]
    head = {'LtE': 'cle', 'Lt': 'clt'}.get(op)
    if head is None:
        return None
    ats = list(counted.r.atoms())
    if not (len(ats) == 1 and sym.ATOMS.head(ats[0]) == 'el' and counted.r == Rat.atom(ats[0]) and sym.ATOMS.args(ats[0])[1] == sym.idx()):
        return None
    out = Num(sym.A(head, sym.ATOMS.args(ats[0])[0], query.r), query.length, 'ndarray')
    out.dt = ('int',)
    return out


@_ew
def h_searchsorted_ew(ev, pos, kw, st, node):
    """searchsorted(X, v, side) on a sorted array X: the number of elements <= v (side='right') or < v (side='left'), element-wise in v"""
    X, v = _arg(pos, kw, 0, 'a'), _arg(pos, kw, 1, 'v')
    side = _arg(pos, kw, 2, 'side', Const('left'))
    if X is None or v is None or kw.get('sorter') is not None or not (isinstance(side, Const) and side.v in ('left', 'right')):
        return None
    if not (isinstance(X, Num) and X.length is not None):
        return None
    ats = list(X.r.atoms())
    if not (len(ats) == 1 and sym.ATOMS.head(ats[0]) == 'el' and X.r == Rat.atom(ats[0]) and sym.ATOMS.args(ats[0])[1] == sym.idx()):
        return None
    ref = sym.ATOMS.args(ats[0])[0]
    vn = v if isinstance(v, Num) else ev.as_num(v, isinstance(v, Term) and v.kind in ('ndarray', 'list'))
    if vn is None:
        return None
    out = Num(sym.A('cle' if side.v == 'right' else 'clt', ref, vn.r), vn.length, 'ndarray' if vn.length is not None else 'scalar')
    out.dt = ('int',)
    return carry_mask(ev, out, vn, st=st, node=node)


LIB_HANDLERS = {
    'numpy.clip': h_clip_ew, 'numpy.minimum': _ew_minmax('min'), 'numpy.maximum': _ew_minmax('max'),
    'numpy.searchsorted': h_searchsorted_ew, 'numpy.count_nonzero': h_count_table_ew, 'numpy.zeros': _ew_const_alloc(0), 'numpy.ones': _ew_const_alloc(1),
    'numpy.linspace': h_linspace, 'numpy.ravel': h_ravel, 'numpy.full': h_full, 'numpy.pad': h_pad, 'numpy.ptp': h_ptp, 'numpy.fromiter': h_fromiter,
    'functools.partial': h_partial, 'importlib.import_module': h_import_module,
    **{'operator.' + n_: h_operator(n_) for n_ in ('add', 'sub', 'mul', 'truediv', 'pow', 'floordiv', 'mod', 'lt', 'le', 'gt', 'ge', 'eq', 'ne')},
    'numpy.asarray': h_asarray, 'numpy.asanyarray': h_asarray, 'numpy.array': h_asarray,
    'numpy.ascontiguousarray': h_asarray, 'numpy.atleast_1d': h_asarray,
    'numpy.copy': h_asarray, 'numpy.append': h_append, 'numpy.concatenate': h_concatenate, 'numpy.insert': h_insert, 'numpy.hstack': h_concatenate,
    'numpy.add': h_binary('add'), 'numpy.subtract': h_binary('subtract'), 'numpy.multiply': h_binary('multiply'),
    'pathlib.Path': h_path, 'pathlib.PurePath': h_path,
    'operator.index': (lambda ev, pos, kw, st, node: pos[0] if len(pos) == 1 and not kw and isinstance(pos[0], Num) and pos[0].length is None else None),   # an integer as it is
    'types.MappingProxyType': (lambda ev, pos, kw, st, node: pos[0] if len(pos) == 1 and not kw and isinstance(pos[0], (Kw, Tup)) else None),   # read-only view
    'numpy.divide': h_binary('divide'), 'numpy.true_divide': h_binary('true_divide'), 'numpy.square': h_square, 'numpy.negative': h_negative,
    'numpy.shape': h_shape, 'numpy.size': h_size, 'numpy.where': lambda ev, pos, kw, st, node: (h_where_ew(ev, pos, kw, st, node) if len(pos) == 3 else h_nonzero_tuple(ev, pos, kw, st, node)), 'numpy.nonzero': h_nonzero_tuple, 'numpy.flatnonzero': h_flatnonzero,
    'numpy.sum': h_sum, 'numpy.repeat': h_repeat_scalar, 'numpy.column_stack': h_column_stack, 'numpy.dot': h_dot, 'numpy.inner': h_dot, 'numpy.vdot': h_dot, 'numpy.diff': h_diff, 'numpy.abs': h_abs, 'numpy.absolute': h_abs, 'numpy.fabs': h_abs,
    'numpy.mean': _reduce('Mean'), 'numpy.std': h_std, 'numpy.var': h_var, 'numpy.min': _reduce('Min'),
    'numpy.max': _reduce('Max'), 'numpy.amin': _reduce('Min'), 'numpy.amax': _reduce('Max'),
    'numpy.sqrt': h_sqrt, 'numpy.power': h_power, 'numpy.isscalar': h_isscalar, 'math.sqrt': h_sqrt, 'math.fabs': h_abs,
    'numpy.float64': lambda ev, pos, kw, st, node: pos[0] if pos and isinstance(pos[0], Num) else None,
}


def b_len(ev, pos, kw, st, node):
    v = pos[0]
    if isinstance(v, Num) and v.length is not None:
        return Num(v.length)
    if isinstance(v, Tup):
        return Num(C(len(v.items)))
    if isinstance(v, Obj):
        m = ev.prog.find_method(v.cls, '__len__')
        if m is not None:
            return ev._invoke(m, st, [], {}, None, v, node)
    if isinstance(v, Gam):
        return gamma(v.pred, b_len(ev, [v.a], kw, st, node), b_len(ev, [v.b], kw, st, node))
    if isinstance(v, Term) and v.kind in ('ndarray', 'list'):
        return Num(term_as_num(v, True, v.kind).length)
    if isinstance(v, Kw) and v.rest is None:
        return Num(C(len(v.items)))
    return Num(sym.A('Len', Ref('$t', v)))


def b_int(ev, pos, kw, st, node):
    v = ev.as_num(pos[0]) if pos else None
    if v is None or v.length is not None:
        return None
    return Num(sym.mk_int(v.r))


def b_round(ev, pos, kw, st, node):
    """round(x[, ndigits]) of a scalar: an opaque numeric function of x (Python rounds halves to even); folded for known numbers"""
    v = ev.as_num(pos[0]) if pos else None
    if v is None or v.length is not None or kw or len(pos) > 2:
        return None
    nd = ev.as_num(pos[1]) if len(pos) == 2 else None
    if len(pos) == 2 and (nd is None or nd.length is not None):
        return None
    if v.r.is_const() and (nd is None or nd.r.is_const()):
        c = v.r.const_value()
        out = round(c) if nd is None else round(c, int(nd.r.const_value()))
        return Num(C(out))
    return Num(sym.A('Round', v.r) if nd is None else sym.A('Round', v.r, nd.r))


def b_float(ev, pos, kw, st, node):
    v = pos[0] if pos else None
    if isinstance(v, Num):
        return v
    return None


def b_abs(ev, pos, kw, st, node):
    return h_abs(ev, pos, kw, st, node)


def _minmax(head):
    def h(ev, pos, kw, st, node):
        if len(pos) < 2 or kw:
            if len(pos) == 1:
                v = ev.as_num(pos[0], True)
                if v is not None and v.length is not None:
                    return Num(sym.mk_reduce(head.capitalize(), v.r, v.length))
            return None
        nums = [ev.as_num(p) for p in pos]
        if any(n is None or n.length is not None for n in nums):
            return None
        if all(n.r.is_const() for n in nums):
            f = min if head == 'min' else max
            return Num(C(f(n.r.const_value() for n in nums)))
        from .values import minmax_atom
        return Num(minmax_atom(head, [n.r for n in nums]))
    return h


def b_range(ev, pos, kw, st, node):
    nums = [ev.as_num(p) for p in pos]
    if any(n is None or n.length is not None for n in nums) or kw:
        return None
    if len(nums) == 1:
        return Term('range', (Num(C(0)), nums[0]))
    if len(nums) == 2:
        return Term('range', (nums[0], nums[1]))
    if len(nums) == 3 and nums[2].is_const() and nums[2].const() == 1:
        return Term('range', (nums[0], nums[1]))
    if len(nums) == 3 and not (nums[2].is_const() and nums[2].const() == 0):
        # range(lo, hi, step) with an exactly divisible extent: count = (hi - lo) / step values lo + step*j
        try:
            cnt = (nums[1].r - nums[0].r) / nums[2].r
        except Exception:
            return None
        if cnt.d.is_const() if hasattr(cnt.d, 'is_const') else list(cnt.d.t.keys()) == [()]:
            return Term('range', (nums[0], nums[1], nums[2], Num(cnt)))
    return None


def b_zip(ev, pos, kw, st, node):
    if pos and not kw and all(isinstance(p_, Tup) for p_ in pos):
        # zip of sequence displays: the tuples, item by item (as many as the shortest display has)
        k_ = min(len(p_.items) for p_ in pos)
        return Tup([Tup([p_.items[i_] for p_ in pos], 'tuple') for i_ in range(k_)], 'list')
    return Term('zip', pos)


def b_map(ev, pos, kw, st, node):
    if len(pos) >= 2 and isinstance(pos[0], Fn) and not kw:
        return Term('map', pos)         # element i is f(a[i], b[i], ...), applied when the result is iterated
    return None


def b_enumerate(ev, pos, kw, st, node):
    return Term('enumerate', pos, list(kw.items()))


def b_isinstance(ev, pos, kw, st, node):
    v, t = pos
    tn = t.ref if isinstance(t, Fn) and t.fkind == 'builtin' else None
    if tn == 'int':
        if isinstance(v, Num):
            return Const(v.length is None)
        if isinstance(v, (Tup, Kw, Const)):
            return Const(isinstance(v, Const) and isinstance(v.v, int) and not isinstance(v.v, bool))
    if tn == 'str':
        if isinstance(v, Const):
            return Const(isinstance(v.v, str))
        if isinstance(v, (Num, Tup, Kw, Obj, Fn)):
            return FALSE
        if isinstance(v, Term) and v.kind == 'str':
            return TRUE
    if tn in ('tuple', 'list'):
        if isinstance(v, Tup):
            return Const(v.kind == tn)
        if isinstance(v, Num):
            return FALSE
    return None


def module_binds(prog, modname: str, attr: str) -> Optional[bool]:
    """does the repository module bind `attr`?  None when its namespace is built dynamically (star imports, globals() manipulation)"""
    mi = prog.modules.get(modname)
    if mi is None or mi.is_pkg:
        return None
    for n in ast.walk(mi.tree):
        if isinstance(n, ast.ImportFrom) and any(a.name == '*' for a in n.names):
            return None
        if isinstance(n, ast.Call) and isinstance(n.func, ast.Name) and n.func.id in ('globals', 'locals', 'vars', 'setattr', 'exec', 'eval') and n is not None:
            if n.func.id in ('globals', 'locals', 'exec', 'eval') or (n.func.id == 'vars' and not n.args):
                return None
    return attr in mi.functions or attr in mi.classes or attr in mi.constants or attr in mi.imports


def b_getattr(ev, pos, kw, st, node):
    if len(pos) >= 2 and isinstance(pos[0], Obj) and isinstance(pos[1], Const) and isinstance(pos[1].v, str):
        return ev.getattr_val(pos[0], pos[1].v, st, node)
    if len(pos) == 2 and not kw and isinstance(pos[0], Term) and pos[0].head == 'module' and isinstance(pos[1], Const) and isinstance(pos[1].v, str):
        mi = ev.prog.modules.get(pos[0].args[0].v)
        if mi is not None and not mi.is_pkg:
            bound = module_binds(ev.prog, pos[0].args[0].v, pos[1].v)
            if bound is False and not pos[1].v.startswith('__'):
                ev.lib_event('builtins.getattr', pos, kw, None, st, node, NONE)
                raise _PyRaise('AttributeError')
    return Term('getattr', pos, kind='unknown')


def b_setattr(ev, pos, kw, st, node):
    if len(pos) == 3 and isinstance(pos[0], Obj) and isinstance(pos[1], Const) and isinstance(pos[1].v, str):
        st.heap.setdefault(pos[0].oid, {})[pos[1].v] = pos[2]
        ev.emit('field', st, node, obj=pos[0], field=pos[1].v, value=pos[2])
        return NONE
    ev.issue(st, node, 'setattr with a computed attribute name')
    return Term(UNSUPPORTED, (Const('setattr'),), uid=fresh_serial())


def b_slice(ev, pos, kw, st, node):
    vals = list(pos) + [NONE] * (3 - len(pos))
    if len(pos) == 1:
        vals = [NONE, pos[0], NONE]
    return Term('slice', tuple(vals[:3]))


def b_str_isinstance_helper():
    return None


def b_next(ev, pos, kw, st, node):
    if pos and isinstance(pos[0], Term) and pos[0].head == 'filtered':
        # first item whose condition holds: a chain of conditionals; it has to end in an item kept unconditionally, or in the default
        items = [(t.items[0], t.items[1]) for t in pos[0].args]
        res = pos[1] if len(pos) > 1 else None
        for k_ in range(len(items)):
            if isinstance(items[k_][0], Const) and items[k_][0].v:
                items, res = items[:k_], items[k_][1]
                break
        if res is None:
            return ev.unsupported(st, node, 'next() of a filtered sequence that may be empty')
        for c_, v_ in reversed(items):
            res = gamma(c_, v_, res)
        return res
    if pos and isinstance(pos[0], Tup):
        # next(<comprehension over a literal table>): its first element
        if pos[0].items:
            return pos[0].items[0]
        if len(pos) > 1:
            return pos[1]
        raise _PyRaise('StopIteration')
    return Term('lib:next', pos, uid=fresh_serial(), kind='scalar')


def b_iter(ev, pos, kw, st, node):
    return Term('iter', pos, uid=fresh_serial())


def b_dict(ev, pos, kw, st, node):
    """dict(k=v, ...) / dict(mapping, k=v): a literal keyword dictionary"""
    if not pos:
        return Kw(dict(kw))
    if len(pos) == 1 and isinstance(pos[0], Kw):
        items = dict(pos[0].items)
        items.update(kw)
        return Kw(items, pos[0].rest)
    return None


def b_bool(ev, pos, kw, st, node):
    return ev.truth(pos[0], st, node) if pos else FALSE


def b_list(ev, pos, kw, st, node):
    if not pos:
        return Tup([], 'list')
    v = pos[0]
    if isinstance(v, Tup):
        return Tup(v.items, 'list')
    if isinstance(v, Num) and v.length is not None:
        return Num(v.r, v.length, 'list')
    return None


def b_tuple(ev, pos, kw, st, node):
    """tuple(<sequence display / comprehension over a literal table>): the same items as a tuple"""
    if not pos:
        return Tup([], 'tuple')
    v = pos[0]
    if isinstance(v, Tup):
        return Tup(v.items, 'tuple')
    return None


def b_exc(name):
    def h(ev, pos, kw, st, node):
        return Term('exception', (Const(name),) + tuple(pos))
    return h


BUILTIN_HANDLERS = {'setattr': b_setattr, 'slice': b_slice, 'len': b_len, 'int': b_int, 'round': b_round, 'float': b_float, 'abs': b_abs, 'min': _minmax('min'), 'max': _minmax('max'),
                    'range': b_range, 'zip': b_zip, 'map': b_map, 'enumerate': b_enumerate, 'isinstance': b_isinstance,
                    'getattr': b_getattr, 'next': b_next, 'iter': b_iter, 'bool': b_bool, 'list': b_list, 'tuple': b_tuple, 'dict': b_dict, 'divmod': b_divmod, 'vars': b_vars}
for _n in ('ValueError', 'IndexError', 'OSError', 'TypeError', 'KeyError', 'AttributeError', 'Exception', 'RuntimeError'):
    BUILTIN_HANDLERS[_n] = b_exc(_n)


def m_sum(ev, recv, pos, kw, st, node):
    return h_sum(ev, [recv], {}, st, node) if not pos and not kw else None


def m_copy(ev, recv, pos, kw, st, node):
    # value semantics: a copy holds the same values (freshness is the alias analysis' business)
    if isinstance(recv, (Num, Term, Gam)) and not pos:
        return recv
    return None


def m_reduce(head):
    def h(ev, recv, pos, kw, st, node):
        if pos or kw or not isinstance(recv, Num) or recv.length is None:
            return None
        return Num(sym.mk_reduce(head, recv.r, recv.length))
    return h


def m_std(ev, recv, pos, kw, st, node):
    return h_std(ev, [recv], {}, st, node) if not pos and not kw else None


def m_astype(ev, recv, pos, kw, st, node):
    if not isinstance(recv, Num):
        return None
    if getattr(ev, 'elementwise', False):
        from .dtypes import tag_of_dtype_arg
        tag = tag_of_dtype_arg(kw.get('dtype', pos[0] if pos else None))
        if tag == ('int',) and getattr(recv, 'dt', None) != ('int',):
            r = Num(sym.mk_int(recv.r), recv.length, recv.kind)         # a cast to an integer type truncates
            r.dt = tag
            return carry_mask(ev, r, recv)
        r = Num(recv.r, recv.length, recv.kind)
        r.dt = tag
        return carry_mask(ev, r, recv)
    from .dtypes import tag_of_dtype_arg
    r = Num(recv.r, recv.length, recv.kind)
    r.dt = tag_of_dtype_arg(kw.get('dtype', pos[0] if pos else None))
    return r


def m_flatten(ev, recv, pos, kw, st, node):
    if isinstance(recv, Num) and recv.length is not None:
        return recv
    order = kw.get('order', pos[0] if pos else None)
    if isinstance(order, Const) and order.v == 'F' and isinstance(recv, Term):
        # column-major flattening is the row-major flattening of the transpose
        inner = recv.args[0] if recv.head == 'T' else Term('T', (recv,), kind=recv.kind)
        return Term('method:flatten', (inner,), kind='ndarray', node=node)
    return None


def m_reshape(ev, recv, pos, kw, st, node):
    """reshape(-1) is the row-major flattening"""
    shp = pos[0] if len(pos) == 1 else None
    if isinstance(shp, Tup) and len(shp.items) == 1:
        shp = shp.items[0]
    if not kw and isinstance(shp, Num) and shp.is_const() and shp.const() == -1:
        return m_flatten(ev, recv, [], {}, st, node) if isinstance(recv, Num) else (Term('method:flatten', (recv,), kind='ndarray', node=node) if isinstance(recv, Term) else None)
    return None


def m_tolist(ev, recv, pos, kw, st, node):
    """a.tolist(): the same elements as a list"""
    if pos or kw:
        return None
    if isinstance(recv, Num) and recv.length is not None:
        out = Num(recv.r, recv.length, 'list')
        out.dt = getattr(recv, 'dt', None)
        return out
    if getattr(ev, 'elementwise', False) and isinstance(recv, Term) and recv.kind == 'ndarray':
        return recv
    return None


def m_item(ev, recv, pos, kw, st, node):
    return recv if isinstance(recv, Num) and recv.length is None else None


def m_repeat(ev, recv, pos, kw, st, node):
    return None


def m_take(ev, recv, pos, kw, st, node):
    if isinstance(recv, Num) and recv.length is not None and len(pos) == 1 and not kw:
        return term_as_num(Term('take', (recv, pos[0]), kind='ndarray'), True)
    return None


def m_append(ev, recv, pos, kw, st, node):
    ev.emit('append', st, node, target=recv, value=pos[0] if pos else None)
    return NONE


def m_extend(ev, recv, pos, kw, st, node):
    ev.emit('append', st, node, target=recv, value=pos[0] if pos else None, extend=True)
    return NONE


def m_get(ev, recv, pos, kw, st, node):
    if isinstance(recv, Kw) and recv.rest is None and pos and isinstance(pos[0], Const):
        if pos[0].v in recv.items:
            return recv.items[pos[0].v]
        return pos[1] if len(pos) > 1 else NONE
    return None


def m_replace(ev, recv, pos, kw, st, node):
    if isinstance(recv, Const) and isinstance(recv.v, str) and all(isinstance(p, Const) for p in pos):
        return Const(recv.v.replace(*[p.v for p in pos]))
    return Term('method:replace', (recv,) + tuple(pos), kind='str')


def m_startswith(ev, recv, pos, kw, st, node):
    if isinstance(recv, Const) and isinstance(recv.v, str) and len(pos) == 1 and isinstance(pos[0], Const):
        return Const(recv.v.startswith(pos[0].v))
    return P('startswith', recv, *pos)


def m_index(ev, recv, pos, kw, st, node):
    """position of a literal in a literal tuple / list (ValueError when absent)"""
    if isinstance(recv, Tup) and len(pos) == 1 and not kw and isinstance(pos[0], Const) and all(isinstance(i_, Const) for i_ in recv.items):
        for k_, i_ in enumerate(recv.items):
            if type(i_.v) is type(pos[0].v) and i_.v == pos[0].v:
                return Num(C(k_))
        raise _PyRaise('ValueError')
    return None


METHOD_HANDLERS = {'index': m_index, 'get': m_get, 'sum': m_sum, 'copy': m_copy, 'min': m_reduce('Min'), 'max': m_reduce('Max'), 'mean': m_reduce('Mean'),
                   'std': m_std, 'astype': m_astype, 'flatten': m_flatten, 'reshape': m_reshape, 'tolist': m_tolist, 'ravel': m_flatten, 'item': m_item,
                   'take': m_take, 'append': m_append, 'extend': m_extend, 'replace': m_replace,
                   'startswith': m_startswith}


# --------------------------------------------------------------------------- helpers for rules
def assume(v, decide: Callable[[Val], Optional[bool]]):
    """resolve gamma nodes whose predicate `decide` can settle (True/False), leave the rest"""
    def rat_f(r: Rat) -> Rat:
        mapping = {}
        for a in sym.all_atoms(r):
            if sym.ATOMS.head(a) == 'gamma':
                pred, x, y = sym.ATOMS.args(a)
                d = decide(pred)
                if d is not None:
                    mapping[a] = rat_f(x if d else y)
        return sym.subst(r, mapping) if mapping else r

    def go(x):
        if isinstance(x, Gam):
            d = decide(x.pred)
            if d is not None:
                return go(x.a if d else x.b)
            return Gam(x.pred, go(x.a), go(x.b))
        if isinstance(x, Num):
            return Num(rat_f(x.r), None if x.length is None else rat_f(x.length), x.kind)
        if isinstance(x, Tup):
            return Tup([go(i) for i in x.items], x.kind)
        if isinstance(x, Term):
            return Term(x.head, [go(a) if isinstance(a, Val) else a for a in x.args],
                        [(k, go(a) if isinstance(a, Val) else a) for k, a in x.kwargs], x.kind, x.uid, x.node)
        return x
    return go(v)
