#!/venv/bin/python
"""CLI:  check.py <PID> [--tier quick|thorough] [--root DIR] [--replay FILE]

exit 0: every obligation discharged (known findings are printed as KNOWN-FINDING)
exit 1: at least one `VIOLATION property=<id> replay=<path>` line
exit 2: ANALYSIS-ERROR - the checker could not recognise what it reasons about
"""
import argparse
import importlib
import json
import os
import sys
import traceback

HERE = os.path.dirname(os.path.abspath(__file__))
sys.path.insert(0, HERE)
sys.dont_write_bytecode = True

from twverif.model import Program, AnalysisError, dynamic_feature_scan   # noqa: E402
from twverif.report import Ctx, finish                                   # noqa: E402
from twverif import sym                                                  # noqa: E402


def run_rules(pid: str, root: str, tier: str, seed: int) -> Ctx:
    sym.reset()
    prog = Program(root)
    ctx = Ctx(pid, prog, tier, seed)
    inv = prog.inventory()
    # inventory floors confirmed by hand on the pinned tree (DESIGN 2.0)
    if inv['modules'] < 15 or inv['functions'] < 100 or inv['methods'] < 50:
        raise AnalysisError(f"inventory below the confirmed floor: {inv}")
    dyn = dynamic_feature_scan(prog)
    if dyn:
        raise AnalysisError("dynamic features the resolver does not model: " + '; '.join(dyn))
    mod = importlib.import_module(f"twverif.rules.{pid.lower()}")
    resilient_run(mod, ctx)
    return ctx


def resilient_run(mod, ctx):
    """run the rule module's `run(ctx)` statement by statement: a step that cannot analyse its construct (AnalysisError) is recorded as an undecided
    obligation and the remaining steps still run, so that a violation a later rule finds is reported (exit 1 takes precedence over exit 2)"""
    import ast
    import inspect
    import textwrap
    src = textwrap.dedent(inspect.getsource(mod.run))
    tree = ast.parse(src)
    fn = tree.body[0]
    first = inspect.getsourcelines(mod.run)[1]
    body = []
    for stmt in fn.body:
        if isinstance(stmt, (ast.Import, ast.ImportFrom)) or (isinstance(stmt, ast.Expr) and isinstance(stmt.value, ast.Constant)):
            body.append(stmt)
            continue
        handler = ast.ExceptHandler(
            type=ast.Tuple(elts=[ast.Name(id='__AnalysisError', ctx=ast.Load()), ast.Name(id='NameError', ctx=ast.Load())], ctx=ast.Load()), name='__ex',
            body=[ast.Expr(ast.Call(func=ast.Name(id='__step_failed', ctx=ast.Load()), args=[ast.Name(id='__ex', ctx=ast.Load()), ast.Constant(stmt.lineno + first - 1)],
                                    keywords=[]))])
        body.append(ast.Try(body=[stmt], handlers=[handler], orelse=[], finalbody=[]))
    fn.body = body
    ast.fix_missing_locations(tree)
    ast.increment_lineno(tree, first - 1)
    failed = []

    def step_failed(ex, lineno):
        if isinstance(ex, NameError) and not failed:
            raise ex                    # a genuine bug of the checker, not the consequence of a skipped step
        failed.append(lineno)
        what = 'depends on a step that could not be analysed' if isinstance(ex, NameError) else str(ex)
        ctx.unknown('analysis', f"{mod.__name__.rsplit('.', 1)[1]}.run step at line {lineno}", what, f"{os.path.relpath(mod.__file__, HERE)}:{lineno}", mod.__name__, f"step:{lineno}")
    ns = dict(mod.__dict__)
    ns['__AnalysisError'] = AnalysisError
    ns['__step_failed'] = step_failed
    exec(compile(tree, mod.__file__, 'exec'), ns)
    ns['run'](ctx)


def main(argv=None) -> int:
    ap = argparse.ArgumentParser()
    ap.add_argument('pid')
    ap.add_argument('--tier', default=os.environ.get('VERIF_TIER', 'quick'), choices=['quick', 'thorough'])
    ap.add_argument('--root', default='/repo')
    ap.add_argument('--replay', default=None)
    ap.add_argument('--no-evidence', action='store_true')
    ap.add_argument('--jobs', type=int, default=16)
    a = ap.parse_args(argv)
    pid = a.pid.upper()
    seed = int(os.environ.get('VERIF_SEED', '0') or 0)
    evidence = None if a.no_evidence else os.path.join(HERE, 'evidence', f"{pid}.json")
    try:
        replay = None
        if a.replay:
            with open(a.replay) as f:
                replay = json.load(f)
        # watchdog: the rule pass on one tree takes seconds; a canonicalisation that does not come back (an expression blow-up on a construction the
        # rules were not written for) is an analysis error, not a hang
        import signal
        limit = int(os.environ.get('TWVERIF_RULE_TIMEOUT', '900') or 0)
        if limit and hasattr(signal, 'SIGALRM'):
            def _too_long(signum, frame):
                raise AnalysisError(f"the rule pass did not finish within {limit} s (expression blow-up): construction not analysable")
            signal.signal(signal.SIGALRM, _too_long)
            signal.alarm(limit)
        try:
            ctx = run_rules(pid, a.root, a.tier, seed)
        finally:
            if limit and hasattr(signal, 'SIGALRM'):
                signal.alarm(0)
        extra = None
        if a.tier == 'thorough' and replay is None:
            from twverif import selftest
            extra = selftest.run_for_property(pid, a.root, a.jobs, ctx)
        return finish(ctx, evidence, replay, extra)
    except AnalysisError as e:
        print(f"ANALYSIS-ERROR property={pid}: {e}")
        return 2
    except Exception:
        print(f"ANALYSIS-ERROR property={pid}: checker raised")
        traceback.print_exc()
        return 2


if __name__ == '__main__':
    sys.exit(main())
